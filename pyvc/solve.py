"""Discharging obligations: SMT-LIB text -> z3 5.1 (z3-new) -> cvc5 -> z3 4.8, in parallel.

Proving mode : hyps /\ not goal, quantifiers kept (with the goal-directed ground instances added);
               `unsat` from any back end = discharged.
Refuting mode: negated goal skolemised, quantified hypotheses instantiated at the goal's index terms only,
               result is quantifier-free; `sat` = candidate counter-model (must be replayed natively).
"""
import itertools
import os
import re
import shutil
import subprocess
import tempfile
import time
from concurrent.futures import ThreadPoolExecutor

import z3

Z3NEW = shutil.which("z3-new") or "z3-new"
Z3OLD = "/usr/bin/z3"
CVC5 = shutil.which("cvc5") or "/usr/bin/cvc5"


def to_smt2(formulas, get_model=False):
    s = z3.Solver()
    for f in formulas:
        s.add(f)
    txt = s.to_smt2()
    if get_model:
        txt = txt.replace("(check-sat)", "(check-sat)\n(get-model)")
    return txt


SEM = None


def run_cli(cmd, text, timeout_s, workdir, tag):
    path = os.path.join(workdir, f"{tag}.smt2")
    with open(path, "w") as f:
        f.write(text)
    if SEM is not None:
        SEM.acquire()          # machine-wide cap on concurrent solver processes (tasks are generated and discharged in parallel processes)
    t = time.time()
    try:
        p = subprocess.run(cmd + [path], capture_output=True, text=True, timeout=timeout_s + 5)
        out = p.stdout.strip()
        if not out and "timeout" in (p.stderr or "").lower():
            out = "timeout"
    except subprocess.TimeoutExpired:
        out = "timeout"
    finally:
        if SEM is not None:
            SEM.release()
    dt = time.time() - t
    first = out.split("\n", 1)[0].strip() if out else "error"
    if first not in ("sat", "unsat", "unknown", "timeout"):
        first = "error:" + (out[:200] if out else "no output")
    return first, out, dt


def z3new(text, timeout_s, workdir, tag):
    return run_cli([Z3NEW, f"-T:{int(timeout_s)}"], text, timeout_s, workdir, tag + ".z3new")


def z3old(text, timeout_s, workdir, tag):
    return run_cli([Z3OLD, f"-T:{int(timeout_s)}"], text, timeout_s, workdir, tag + ".z3old")


def cvc5(text, timeout_s, workdir, tag):
    text = "(set-logic ALL)\n" + text
    return run_cli([CVC5, f"--tlimit={int(timeout_s * 1000)}", "--nl-ext-tplanes", "--produce-models"], text, timeout_s, workdir, tag + ".cvc5")


# ------------------------------------------------------------------ ground instantiation
def _subterms(e, acc, seen):
    if e.get_id() in seen:
        return
    seen.add(e.get_id())
    if z3.is_quantifier(e):
        return
    if z3.is_app(e):
        acc.append(e)
        for c in e.children():
            _subterms(c, acc, seen)


def index_terms(fmls, extra=()):
    """Int-sorted ground terms used as arguments of uninterpreted functions or selects, plus their +-1 pieces."""
    acc, seen = [], set()
    for f in fmls:
        _subterms(f, acc, seen)
    out = {}
    for t in acc:
        k = t.decl().kind()
        if k in (z3.Z3_OP_UNINTERPRETED, z3.Z3_OP_SELECT) and t.num_args() > 0:
            for a in t.children():
                if a.sort() == z3.IntSort() and not _has_var(a):
                    out[a.get_id()] = a
                    if z3.is_add(a):
                        for c in a.children():
                            if not z3.is_int_value(c) and not _has_var(c):
                                out[c.get_id()] = c
    for a in extra:
        out[a.get_id()] = a
    return list(out.values())


def _has_var(e):
    # terms are DAGs with heavy sharing (nested stage applications): visit every node once
    stack, seen = [e], set()
    while stack:
        x = stack.pop()
        i = x.get_id()
        if i in seen:
            continue
        seen.add(i)
        if z3.is_var(x):
            return True
        if z3.is_app(x):
            stack.extend(x.children())
    return False


def skolemize(fml):
    g = z3.Goal()
    g.add(fml)
    r = z3.Then(z3.With("nnf", mode="quantifiers"), "snf")(g)
    out = []
    for sg in r:
        for f in sg:
            out.append(f)
    return out


def flatten(fs):
    out = []
    for f in fs:
        if z3.is_and(f):
            out += flatten(f.children())
        else:
            out.append(f)
    return out


def int_consts(fmls):
    acc, seen, out = [], set(), {}
    for f in fmls:
        _subterms(f, acc, seen)
    for t in acc:
        if z3.is_const(t) and t.sort() == z3.IntSort() and t.decl().kind() == z3.Z3_OP_UNINTERPRETED:
            out[t.get_id()] = t
    return list(out.values())


def _match(pat, term, binding):
    """syntactic first-order matching of a quantifier pattern (with de Bruijn variables) against a ground term"""
    if z3.is_var(pat):
        idx = z3.get_var_index(pat)
        if idx in binding:
            return binding if binding[idx].eq(term) else None
        if pat.sort() != term.sort():
            return None
        b = dict(binding)
        b[idx] = term
        return b
    if not z3.is_app(pat) or not z3.is_app(term):
        return None
    if pat.decl().kind() == z3.Z3_OP_UNINTERPRETED:
        if not pat.decl().eq(term.decl()):
            return None
    elif pat.decl().kind() != term.decl().kind() or pat.num_args() != term.num_args():
        return None
    if pat.num_args() != term.num_args():
        return None
    for pc, tc in zip(pat.children(), term.children()):
        binding = _match(pc, tc, binding)
        if binding is None:
            return None
    return binding


def pattern_instances(q, ground_terms, cap=200):
    """instances of a universally quantified formula obtained by matching its (single-term) patterns against ground terms"""
    out = []
    n = q.num_vars()
    for pi in range(q.num_patterns()):
        pat = q.pattern(pi)
        if pat.num_args() != 1:
            continue
        p0 = pat.arg(0)
        for t in ground_terms:
            b = _match(p0, t, {})
            if b is None or len(b) != n:
                continue
            args = [b[n - 1 - i] for i in range(n)]      # substitute_vars takes the innermost variable first
            try:
                inst = z3.simplify(z3.substitute_vars(q.body(), *[b[i] for i in range(n)]))
            except z3.Z3Exception:
                continue
            out.append(inst)
            if len(out) >= cap:
                return out
    return out


def all_app_terms(fmls):
    acc, seen = [], set()
    for f in fmls:
        _subterms(f, acc, seen)
    return [t for t in acc if t.decl().kind() == z3.Z3_OP_UNINTERPRETED and t.num_args() > 0 and not _has_var(t)]


def _has_array_equality(fmls):
    seen = set()
    stack = list(fmls)
    while stack:
        t = stack.pop()
        if t.get_id() in seen:
            continue
        seen.add(t.get_id())
        if z3.is_quantifier(t):
            stack.append(t.body())
            continue
        if z3.is_app(t):
            if t.decl().kind() in (z3.Z3_OP_EQ, z3.Z3_OP_DISTINCT) and t.num_args() and z3.is_array_sort(t.arg(0)):
                return True
            stack.extend(t.children())
    return False


def _witness_array_diseq(t, pos, ctr):
    """t with every array equality in negative position replaced by equality at a fresh witness index (stronger when negated)."""
    if z3.is_quantifier(t) or not z3.is_app(t) or not _has_array_equality([t]):
        return t
    k = t.decl().kind()
    if k == z3.Z3_OP_EQ and z3.is_array_sort(t.arg(0)):
        if pos:
            return t
        ctr[0] += 1
        w = z3.Int(f"diff!{ctr[0]}")
        return z3.Select(t.arg(0), w) == z3.Select(t.arg(1), w)
    if k == z3.Z3_OP_NOT:
        a = _witness_array_diseq(t.arg(0), not pos, ctr)
        return None if a is None else z3.Not(a)
    if k in (z3.Z3_OP_AND, z3.Z3_OP_OR):
        xs = [_witness_array_diseq(c, pos, ctr) for c in t.children()]
        if any(x is None for x in xs):
            return None
        return z3.And(*xs) if k == z3.Z3_OP_AND else z3.Or(*xs)
    if k == z3.Z3_OP_IMPLIES:
        a, b = _witness_array_diseq(t.arg(0), not pos, ctr), _witness_array_diseq(t.arg(1), pos, ctr)
        return None if a is None or b is None else z3.Implies(a, b)
    return None      # array equality under ite / iff / a function: polarity undetermined


def refute_query(hyps, goal, rounds=2, cap=600, bound=4):
    """Quantifier-free query for the refuting mode: negated goal skolemised, quantified hypotheses instantiated
    only at the index terms of the negated goal, integer constants bounded to steer towards small models.
    `sat` = candidate counter-model; `unsat`/`unknown` mean nothing (bounds, dropped instances)."""
    ng = flatten(skolemize(z3.Not(goal)))
    gground = [z3.simplify(f) for f in ng if not z3.is_quantifier(f)]
    hflat = []
    for h in hyps:
        if _contains_quantifier(h):
            hflat += flatten(skolemize(h))
        else:
            hflat.append(z3.simplify(h))
    ground = [f for f in hflat if not z3.is_quantifier(f)]
    goal_quants = [f for f in ng if z3.is_quantifier(f)]
    goal_q_ids = {f.get_id() for f in goal_quants}
    goal_q_used = set()
    quants = [f for f in hflat if z3.is_quantifier(f)] + goal_quants
    terms = index_terms(gground)
    if not terms:
        terms = index_terms(ground)[:6]
    domain = [z3.IntVal(v) for v in range(-1, bound + 2)] if bound is not None else None
    seen_inst, new_all = set(), []
    for _ in range(rounds):
        new = []
        app_terms = all_app_terms(ground + gground + new_all)
        for q in list(quants):
            if not q.is_forall():
                continue
            nv = q.num_vars()
            if any(q.var_sort(i) != z3.IntSort() for i in range(nv)):
                # axioms over reals (exp/log/sqrt ...): instantiate by matching their patterns against the ground terms
                for inst in pattern_instances(q, app_terms):
                    key = ("pat", q.get_id(), inst.get_id())
                    if key in seen_inst or z3.is_true(inst):
                        continue
                    seen_inst.add(key)
                    for p in flatten([inst]):
                        (quants if z3.is_quantifier(p) else new).append(p)
                continue
            # small-model search: with every integer constant confined to [-1, bound] the integer-quantified hypotheses are
            # instantiated over the whole index domain (exhaustive for the model sizes considered), not only at goal terms
            pool = (domain + [t for t in terms if not z3.is_int_value(t)]) if domain is not None and nv <= 2 else terms
            for cnt, tup in enumerate(itertools.product(pool, repeat=nv)):
                if cnt > cap:
                    break
                key = (q.get_id(),) + tuple(t.get_id() for t in tup)
                if key in seen_inst:
                    continue
                seen_inst.add(key)
                if q.get_id() in goal_q_ids:
                    goal_q_used.add(q.get_id())
                b = z3.simplify(z3.substitute_vars(q.body(), *reversed(tup)))
                if z3.is_true(b):
                    continue
                for p in flatten([b]):
                    if z3.is_quantifier(p):
                        quants.append(p)
                    else:
                        new.append(p)
        new_all += new
    if goal_q_ids - goal_q_used or any(not q.is_forall() or any(q.var_sort(i) != z3.IntSort() for i in range(q.num_vars())) for q in goal_quants):
        # part of the negated goal is universally quantified (the goal has an existential) and could not be instantiated:
        # a model of the rest says nothing about the goal
        return None
    out = list({f.get_id(): f for f in ground + new_all + gground}.values())
    if bound is not None and _has_array_equality(out):
        # an array equality the solver makes false is witnessed by an index of its own choosing, which the small index domain the
        # quantified hypotheses were instantiated over does not cover: give every equality that occurs negatively an explicit witness
        # index (a constant, confined to the domain like every other integer); undetermined polarity = no refutation attempted
        ctr = [0]
        out2 = []
        for f in out:
            g = _witness_array_diseq(f, True, ctr)
            if g is None:
                return None
            out2.append(g)
        out = out2
    if bound is not None:
        for c in int_consts(out):
            out.append(z3.And(c >= -1, c <= bound))
    return out


def instances(hyps, goal, rounds=2, cap=200, extra_terms=()):
    """Goal-directed ground instances of the universally quantified hypotheses.
    Returns (ground hypotheses incl. the skolemised negated goal, quantified hypotheses)."""
    ng = flatten(skolemize(z3.Not(goal)))
    gground = [z3.simplify(f) for f in ng if not z3.is_quantifier(f)]
    gquant = [f for f in ng if z3.is_quantifier(f)]
    hflat = []
    for h in hyps:
        if _contains_quantifier(h):
            hflat += flatten(skolemize(h))
        else:
            hflat.append(h)
    ground = [f for f in hflat if not z3.is_quantifier(f)]
    quants = [f for f in hflat if z3.is_quantifier(f)] + gquant
    terms = index_terms(gground + ground, extra_terms)
    seen_inst = set()
    new_all = []
    for _ in range(rounds):
        new = []
        for q in list(quants):
            if not q.is_forall():
                continue
            n = q.num_vars()
            sorts = [q.var_sort(i) for i in range(n)]
            if any(s != z3.IntSort() for s in sorts):
                continue
            cnt = 0
            for tup in itertools.product(terms, repeat=n):
                cnt += 1
                if cnt > cap:
                    break
                key = (q.get_id(),) + tuple(t.get_id() for t in tup)
                if key in seen_inst:
                    continue
                seen_inst.add(key)
                b = z3.simplify(z3.substitute_vars(q.body(), *reversed(tup)))
                if z3.is_true(b):
                    continue
                if z3.is_quantifier(b):
                    quants.append(b)
                else:
                    parts = flatten([b])
                    for p in parts:
                        if z3.is_quantifier(p):
                            quants.append(p)
                        else:
                            new.append(p)
        new_all += new
        terms = index_terms(gground + new, terms)
    ground = list({f.get_id(): f for f in ground + new_all + gground}.values())
    return ground, quants


def _contains_quantifier(e):
    stack, seen = [e], set()
    while stack:
        x = stack.pop()
        if x.get_id() in seen:
            continue
        seen.add(x.get_id())
        if z3.is_quantifier(x):
            return True
        if z3.is_app(x):
            stack.extend(x.children())
    return False


UNRELIABLE = set()           # normalised obligation names on which the small-model refuter answers `sat` although the obligation is proved
STRICT_REFUTE = os.environ.get("PYVC_STRICT_REFUTE", "1") == "1"     # unconfirmed small-model counter-models are candidates, not refutations


def normalise_name(name):
    """obligation name without source line numbers and path ordinals (stable under edits elsewhere in the file)"""
    return re.sub(r"@\d+", "@", re.sub(r"#\d+(\.\d+)?\]", "#]", name)).split("~")[0]


class Verdict:
    def __init__(self, name, kind, status, backend, time_s, detail="", model=""):
        self.name, self.kind, self.status, self.backend, self.time_s, self.detail, self.model = name, kind, status, backend, time_s, detail, model

    def as_dict(self):
        d = dict(name=self.name, kind=self.kind, status=self.status, backend=self.backend, time_s=round(self.time_s, 3))
        if self.detail:
            d["detail"] = self.detail
        if self.model:
            d["model"] = self.model[:1500]
        return d


def _sexprs(text):
    """top-level s-expressions of `text` (as substrings)"""
    out, depth, start = [], 0, None
    for k, ch in enumerate(text):
        if ch == "(":
            if depth == 0:
                start = k
            depth += 1
        elif ch == ")":
            depth -= 1
            if depth == 0 and start is not None:
                out.append(text[start:k + 1])
                start = None
    return out


def pin_model(full_text, model_out):
    """The full query (quantified hypotheses + negated goal) with every constant it declares pinned to the value the small-model search
    gave it.  `sat` on this text is a counter-model checked by the solver against *all* hypotheses, not only the instances used."""
    body = model_out.split("\n", 1)[1] if "\n" in model_out else ""
    tops = _sexprs(body)
    if len(tops) == 1 and not tops[0].startswith("(define-fun"):
        tops = _sexprs(tops[0][1:-1])
    declared = set(re.findall(r"\(declare-fun\s+(\|[^|]*\||\S+)\s+\(\)", full_text))
    pins = []
    for e in tops:
        m = re.match(r"\(define-fun\s+(\|[^|]*\||\S+)\s+\(\)\s+", e)
        if not m or m.group(1) not in declared:
            continue
        rest = e[m.end():-1].strip()
        parts = _sexprs(rest) if rest.startswith("(") else None
        if parts:                       # "(Sort ...) value"
            val = rest[len(parts[0]):].strip()
        else:                           # "Sort value"
            val = rest.split(None, 1)[1] if len(rest.split(None, 1)) == 2 else ""
        sort_txt = parts[0] if parts else rest.split(None, 1)[0]
        if sort_txt not in ("Int", "Real", "Bool"):
            continue          # arrays: their values away from the explored indices are arbitrary in a small model; the solver completes them
        if not val or "k!" in val or "!val!" in val:
            continue
        pins.append(f"(assert (= {m.group(1)} {val}))")
    if not pins:
        return None
    return full_text.replace("(check-sat)", "\n".join(pins) + "\n(check-sat)", 1)


def _tag(name):
    return re.sub(r"[^A-Za-z0-9_.-]+", "_", name)[:120] + f"_{abs(hash(name)) % 10**6}"


def discharge(obls, timeout_s=20, jobs=16, all_backends=False, keep_dir=None, refute=True, give_up=None):
    """Phased discharge.  A: plain query on z3 5.1.  B: cvc5 and z3 4.8 on what is left.  C: goal-directed ground
    instances (proving from a subset of instances is sound) and, failing that, the quantifier-free refuting query.
    z3 python objects are only touched in the calling thread; solver processes run in parallel."""
    workdir = keep_dir or tempfile.mkdtemp(prefix="pyvc_")
    n = len(obls)
    verdicts = [None] * n
    detail = [[] for _ in range(n)]
    t_used = [0.0] * n
    agree = [[] for _ in range(n)]
    try:
        texts = [None] * n
        for i, o in enumerate(obls):
            try:
                if o.sat_expected:
                    texts[i] = to_smt2([z3.simplify(h) for h in o.hyps])
                else:
                    g = z3.simplify(o.goal)
                    if z3.is_true(g):
                        verdicts[i] = Verdict(o.name, o.kind, "discharged", "structural", 0.0)
                        continue
                    if z3.is_false(g) and not o.hyps:
                        verdicts[i] = Verdict(o.name, o.kind, "refuted", "structural", 0.0, detail=o.note)
                        continue
                    # beta-reduce selects over lambda terms (element-wise numpy expressions) before the query leaves the process
                    texts[i] = to_smt2([z3.simplify(h) for h in o.hyps] + [z3.simplify(z3.Not(o.goal))])
            except Exception as ex:  # translation problem -> undecided, never a violation
                verdicts[i] = Verdict(o.name, o.kind, "unknown", "-", 0.0, detail=f"translation: {ex!r}")

        def run_phase(todo, fn, bname, text_of, tmo):
            def work(i):
                r, out, dt = fn(text_of(i), tmo, workdir, _tag(obls[i].name) + f".{i}")
                return i, r, out, dt
            with ThreadPoolExecutor(max_workers=jobs) as pool:
                return list(pool.map(work, todo))

        # ---- satisfiability (vacuity / cover) queries: decided on the ground part + goal-free instances of the
        # hypotheses (unsat there => unsat in full: a vacuous precondition is always detected; sat there means
        # the requires / path condition themselves are consistent)
        sat_todo = [i for i in range(n) if verdicts[i] is None and obls[i].sat_expected]
        for i in sat_todo:
            try:
                ground, _ = instances(obls[i].hyps, z3.BoolVal(False), rounds=1, cap=30)
                texts[i] = to_smt2(ground)
            except Exception:
                pass
        for i, r, out, dt in run_phase(sat_todo, z3new, "z3-5.1", lambda i: texts[i], min(timeout_s, 10)):
            st = {"sat": "satisfiable", "unsat": "UNSATISFIABLE"}.get(r, "unknown")
            verdicts[i] = Verdict(obls[i].name, obls[i].kind, st, "z3-5.1(ground)", dt)

        # ---- proof obligations
        def prove_phase(todo, backends, text_of, tmo=None):
            tmo = timeout_s if tmo is None else tmo
            for bname, fn in backends:
                cur = [i for i in todo if verdicts[i] is None or (all_backends and verdicts[i].status == "discharged"
                                                                  and bname not in agree[i])]
                if not cur:
                    continue
                for i, r, out, dt in run_phase(cur, fn, bname, text_of, tmo):
                    detail[i].append(f"{bname}:{r.split(':')[0]}")
                    t_used[i] += dt
                    if r == "unsat":
                        agree[i].append(bname)
                        if verdicts[i] is None:
                            verdicts[i] = Verdict(obls[i].name, obls[i].kind, "discharged", bname, t_used[i])
                    elif r == "sat" and verdicts[i] is None and "inst" not in bname:
                        verdicts[i] = Verdict(obls[i].name, obls[i].kind, "refuted", bname, t_used[i], model=out)

        def skip_siblings():
            # obligations of a function that already has a refuted obligation are moot: the ladder is not spent on them
            bad = {obls[i].fn for i in range(n) if verdicts[i] is not None and verdicts[i].status == "refuted" and obls[i].fn}
            if give_up is not None:
                # the native evaluation (running concurrently) already holds a concrete failing input for these functions
                for i in range(n):
                    if verdicts[i] is None and obls[i].fn not in ("lemma", "struct") and give_up(obls[i].fn):
                        verdicts[i] = Verdict(obls[i].name, obls[i].kind, "unknown", "-", t_used[i],
                                              detail="not pursued further: the native evaluation of the property's contracts already holds a failing input")
            for i in range(n):
                if verdicts[i] is None and obls[i].fn in bad and obls[i].fn not in ("lemma", "struct"):
                    verdicts[i] = Verdict(obls[i].name, obls[i].kind, "skipped", "-", t_used[i],
                                          detail="not pursued: another obligation of this function is refuted")

        todo = [i for i in range(n) if verdicts[i] is None]
        raw_texts = {}

        def race(cur, entrants, tmo):
            """every (obligation, formulation/back end) pair runs concurrently; the first `unsat` discharges, a `sat` on a complete query refutes"""
            jobs_ = [(i, bname, fn, text_of) for i in cur for bname, fn, text_of in entrants if text_of(i) is not None]

            def work(job):
                i, bname, fn, text_of = job
                if verdicts[i] is not None and not all_backends:
                    return i, bname, "skipped", "", 0.0
                r, out, dt = fn(text_of(i), tmo, workdir, _tag(obls[i].name) + f".{i}.{_tag(bname)}")
                return i, bname, r, out, dt
            with ThreadPoolExecutor(max_workers=jobs) as pool:
                for i, bname, r, out, dt in pool.map(work, jobs_):
                    if r == "skipped":
                        continue
                    detail[i].append(f"{bname}:{r.split(':')[0]}")
                    t_used[i] = max(t_used[i], dt)
                    if r == "unsat":
                        agree[i].append(bname)
                        if verdicts[i] is None:
                            verdicts[i] = Verdict(obls[i].name, obls[i].kind, "discharged", bname, dt)
                    elif r == "sat" and verdicts[i] is None and "inst" not in bname:
                        verdicts[i] = Verdict(obls[i].name, obls[i].kind, "refuted", bname, dt, model=out)

        # phase Q: z3 5.1 with a short budget, first on the simplified (beta-reduced) query, then on the text as generated - nearly every
        # obligation is decided here within a fraction of a second
        quick = min(5, timeout_s)
        prove_phase(todo, [("z3-5.1", z3new)], lambda i: texts[i], quick)
        skip_siblings()
        left = [i for i in todo if verdicts[i] is None]
        chain_texts = {}
        for i in left:
            try:
                raw_texts[i] = to_smt2(list(obls[i].hyps) + [z3.Not(obls[i].goal)])
                if getattr(obls[i], "extra", None):
                    # second formulation: earlier conjuncts of the same invariant / postcondition list as additional hypotheses
                    chain_texts[i] = to_smt2([z3.simplify(h) for h in list(obls[i].hyps) + list(obls[i].extra)] + [z3.simplify(z3.Not(obls[i].goal))])
            except Exception:
                pass
        prove_phase([i for i in left if i in raw_texts], [("z3-5.1(raw)", z3new)], lambda i: raw_texts[i], quick)
        prove_phase([i for i in left if i in chain_texts], [("z3-5.1(chained)", z3new)], lambda i: chain_texts[i], quick)
        skip_siblings()
        # phase R: what is left (or everything, for second opinions) on all formulations and back ends at once with the full budget - a true
        # obligation must not depend on one solver's heuristics, and the wall time is that of one budget, not of their sum
        left = list(todo) if all_backends else [i for i in todo if verdicts[i] is None]
        race(left, [("z3-5.1", z3new, lambda i: texts[i]), ("z3-5.1(raw)", z3new, lambda i: raw_texts.get(i)),
                    ("z3-5.1(chained)", z3new, lambda i: chain_texts.get(i)), ("cvc5(chained)", cvc5, lambda i: chain_texts.get(i)),
                    ("cvc5", cvc5, lambda i: texts[i]), ("z3-4.8", z3old, lambda i: texts[i])], timeout_s)
        skip_siblings()
        # phase C: goal-directed ground instances added (proving from a subset of instances is sound)
        left = [i for i in todo if verdicts[i] is None]
        inst_text = {}
        for i in left:
            try:
                ground, quants = instances(obls[i].hyps, obls[i].goal)
                inst_text[i] = to_smt2([z3.simplify(h) for h in obls[i].hyps] + ground)
            except Exception as ex:
                detail[i].append(f"instantiation-error:{ex!r}"[:120])
        race([i for i in left if i in inst_text], [("z3-5.1+inst", z3new, lambda i: inst_text.get(i)), ("cvc5+inst", cvc5, lambda i: inst_text.get(i))], timeout_s)
        # phase R: refuting mode for what no back end could prove.
        #   bound=4   : small-model search, integer-quantified hypotheses instantiated over the whole index domain, real axioms by
        #               pattern matching -> `sat` is reported as a refutation (with the model)
        #   bound=None: goal-directed partial instantiation only -> `sat` is merely a *candidate* (may ignore other instances);
        #               it directs the native search and is never reported as a violation by itself
        left = [i for i in todo if verdicts[i] is None]
        if refute:
            for bound in (4, None):
                refute_text = {}
                cur = [i for i in left if verdicts[i] is None]
                for i in cur:
                    try:
                        rq = refute_query(obls[i].hyps, obls[i].goal, bound=bound)
                        if rq is None:
                            detail[i].append("refute:not-applicable(existential goal)")
                            continue
                        refute_text[i] = to_smt2(rq, get_model=True)
                    except Exception as ex:
                        detail[i].append(f"refute-build-error:{ex!r}"[:120])
                cur = [i for i in cur if i in refute_text]
                models = {}
                for i, r, out, dt in run_phase(cur, z3new, "refute", lambda i: refute_text[i], min(timeout_s, 15)):
                    detail[i].append(f"refute(bound={bound})-z3-5.1:{r.split(':')[0]}")
                    t_used[i] += dt
                    if r == "sat":
                        if bound is None:
                            verdicts[i] = Verdict(obls[i].name, obls[i].kind, "candidate", "z3-5.1(goal-directed)", t_used[i], model=out)
                        else:
                            models[i] = out
                # a small-model counter-model counts as a refutation only once the solver accepts it against the complete query
                pinned = {}
                for i, out in models.items():
                    try:
                        full = raw_texts.get(i) or to_smt2(list(obls[i].hyps) + [z3.Not(obls[i].goal)])
                        pinned[i] = pin_model(full, out)
                    except Exception as ex:
                        pinned[i] = None
                        detail[i].append(f"pin-error:{ex!r}"[:100])
                for i, r, out, dt in run_phase([i for i in models if pinned.get(i)], z3new, "confirm", lambda i: pinned[i], min(timeout_s, 15)):
                    detail[i].append(f"confirm-model:{r.split(':')[0]}")
                    t_used[i] += dt
                    if r == "sat":
                        verdicts[i] = Verdict(obls[i].name, obls[i].kind, "refuted", "z3-5.1(small-model, confirmed on the full query)", t_used[i], model=models[i])
                    elif r == "unsat":
                        detail[i].append("small-model counter-model rejected by the full query (spurious)")
                for i in models:
                    if verdicts[i] is None and not any(x.endswith("(spurious)") for x in detail[i]):
                        nm = normalise_name(obls[i].name)
                        if nm in UNRELIABLE:
                            detail[i].append("refuter known to be unreliable on this obligation (calibration on the unchanged tree)")
                            verdicts[i] = Verdict(obls[i].name, obls[i].kind, "candidate", "z3-5.1(small-model, unconfirmed)", t_used[i], model=models[i])
                        elif STRICT_REFUTE:
                            verdicts[i] = Verdict(obls[i].name, obls[i].kind, "candidate", "z3-5.1(small-model, unconfirmed)", t_used[i], model=models[i])
                        else:
                            verdicts[i] = Verdict(obls[i].name, obls[i].kind, "refuted", "z3-5.1(small-model, unconfirmed)", t_used[i], model=models[i])
        for i in range(n):
            if verdicts[i] is None:
                verdicts[i] = Verdict(obls[i].name, obls[i].kind, "unknown", "-", t_used[i])
            if detail[i] and not verdicts[i].detail:
                verdicts[i].detail = " ".join(detail[i])
            verdicts[i].agree = agree[i]
            verdicts[i].time_s = max(verdicts[i].time_s, t_used[i])
        return verdicts
    finally:
        if keep_dir is None:
            shutil.rmtree(workdir, ignore_errors=True)
