"""Turns tasks (function under contract / lemma / structural) into obligations."""
import ast
import os
import traceback

import z3

from . import loader
from .core import Exec, State, Obl, Undecided, NONE, lit, ObjData, ListData
from .contract import FunctionTask, LemmaTask, StructTask


class TaskResult:
    def __init__(self, label):
        self.label = label
        self.obls = []            # proof obligations
        self.covers = []          # satisfiability (vacuity / reachability) queries
        self.info = None          # source info of the function
        self.undecided = None     # reason string when the function could not be brought into the subset
        self.struct = []          # (name, ok, detail) for structural tasks
        self.axioms_used = []


def deep_fork(st):
    s = st.fork()
    return s


def verify_function(task):
    c = task.contract
    res = TaskResult(task.label)
    try:
        node, info = loader.find(c.qual)
    except KeyError as ex:
        res.undecided = f"function not found: {ex}"
        return res
    res.info = info
    cases = c.cases or [("", c.make_inputs)]
    for label, mk in cases:
        qual = c.qual + (f"[{label}]" if label else "")
        try:
            ex = Exec(node, c, qual, axioms=c.axioms, registry=task.registry, module_env=task.module_env)
            st = State()
            facts = mk(ex, st) or []
            st.pc += [lit(f) for f in facts]
            # a parameter the configuration leaves out takes the default the *source* gives it (constants only: a mutable default is the configuration's business)
            _a = node.args
            for _p, _d in list(zip(_a.args[len(_a.args) - len(_a.defaults):], _a.defaults)) + [(p_, d_) for p_, d_ in zip(_a.kwonlyargs, _a.kw_defaults) if d_ is not None]:
                if _p.arg not in st.env and _p.arg not in (c.ghost or {}) and _p.arg not in (task.module_env or {}) and isinstance(_d, (ast.Constant, ast.UnaryOp)):
                    st.env[_p.arg] = ex.ev(_d, st)
            for r in c.requires:
                st.pc.append(ex.spec(r, st))
            ex.entry = deep_fork(st)
            pre = Obl(f"{qual}:pre-sat", "pre-sat", ex.ax + st.pc, z3.BoolVal(True), qual, node.lineno)
            pre.sat_expected = True
            res.covers.append(pre)
            ends = ex.run(loader.strip_docstring(node), st)
            from .core import ReturnRec
            for e in ends:
                ex.returns.append(ReturnRec(e, NONE, None, node.end_lineno))
            if not ex.returns:
                raise Undecided("no exit path found")
            for i, rec in enumerate(ex.returns):
                rst = rec.st
                entry_view = State(ex.entry.env, rst.pc, None, rst.trace)
                entry_view.heap = ex.entry.heap
                cov = Obl(f"{qual}:path-cover[{'raise ' + rec.exc if rec.exc else 'return'}@{rec.line}#{i}]", "path-cover",
                          ex.ax + rst.pc, z3.BoolVal(True), qual, rec.line)
                cov.sat_expected = True
                res.covers.append(cov)
                def raise_cond(text):
                    # conditions over the parameters are read in the entry state; if a condition mentions a local (ghost
                    # witness such as the number of intervals) it is read in the exit state of the path
                    try:
                        return ex.spec(text, entry_view)
                    except Undecided:
                        return ex.spec(text, rst)
                if rec.exc is not None:
                    for j, p in enumerate(c.ensures_on_raise.get(rec.exc, [])):
                        # state in which the exception leaves the function (what a finally block must have restored)
                        g = lit(ex.spec(p, rst))
                        res.obls.append(Obl(f"{qual}:post-on-raise[{rec.exc}#{j}@{rec.line}#{i}]", "post", ex.ax + rst.pc, g, qual, rec.line, p))
                    if rec.exc in c.raises:
                        g = raise_cond(c.raises[rec.exc])
                        res.obls.append(Obl(f"{qual}:raises[{rec.exc}@{rec.line}#{i}]", "raises", ex.ax + rst.pc, g, qual, rec.line,
                                            c.raises[rec.exc]))
                    elif rec.exc in c.ensures_on_raise and rec.exc not in c.raises_only_if:
                        pass          # an exception the contract allows, with a postcondition on the state it leaves
                    elif rec.exc in c.raises_only_if:
                        g = raise_cond(c.raises_only_if[rec.exc])
                        res.obls.append(Obl(f"{qual}:raises-only-if[{rec.exc}@{rec.line}#{i}]", "raises", ex.ax + rst.pc, g, qual, rec.line,
                                            c.raises_only_if[rec.exc]))
                    else:
                        res.obls.append(Obl(f"{qual}:no-unexpected-raise[{rec.exc}@{rec.line}#{i}]", "raises", ex.ax + rst.pc,
                                            z3.BoolVal(False), qual, rec.line, "path must be infeasible under the precondition"))
                    continue
                rst.env["result"] = rec.value
                proved = []       # postcondition j may use postconditions 0..j-1 of the same exit (A and B  <=>  A and (A => B))
                for j, p in enumerate(c.ensures):
                    try:
                        g = lit(ex.spec(p, rst))
                    except Undecided as u:
                        raise Undecided(f"postcondition #{j} cannot be evaluated on exit at line {rec.line}: {u}")
                    o = Obl(f"{qual}:post[{j}@{rec.line}#{i}]", "post", ex.ax + rst.pc, g, qual, rec.line, p)
                    o.extra = list(proved)
                    res.obls.append(o)
                    proved = proved + [g]
                for exc, cond in c.raises.items():
                    g = raise_cond(cond)
                    res.obls.append(Obl(f"{qual}:no-raise[{exc}@{rec.line}#{i}]", "raises", ex.ax + rst.pc, z3.Not(g), qual, rec.line,
                                        f"normal return implies not ({cond})"))
                # frame: every write recorded on this path must target storage named in `modifies`
                for k, (owner, what, line) in enumerate(rst.writes):
                    ok = any(owner == m or owner.startswith(m + ".") for m in c.modifies)
                    res.obls.append(Obl(f"{qual}:frame[{what}@{line}#{i}.{k}]", "frame", [], z3.BoolVal(ok), qual, line,
                                        f"write to {owner} ({what}); modifies = {c.modifies}"))
            res.obls += ex.obls
            for name, pc in ex.cover:
                o = Obl(f"{qual}:cover[{name}]", "path-cover", ex.ax + pc, z3.BoolVal(True), qual, 0)
                o.sat_expected = True
                res.covers.append(o)
        except Undecided as u:
            res.undecided = f"{qual}: {u}"
            return res
        except z3.Z3Exception as u:
            res.undecided = f"{qual}: z3 translation error {u}"
            return res
        except (KeyError, AttributeError, TypeError, IndexError) as u:
            res.undecided = f"{qual}: executor could not interpret the body ({type(u).__name__}: {u}); " + \
                (traceback.format_exc() if os.environ.get("PYVC_TRACE") else traceback.format_exc().strip().split("\n")[-3].strip())
            return res
    return res


def verify_lemma(task):
    res = TaskResult(task.name)
    res.obls.append(Obl(f"lemma:{task.name}", "lemma", task.hyps, task.goal, "lemma", 0, task.note))
    return res


def verify_struct(task):
    res = TaskResult(task.name)
    try:
        for name, ok, detail in task.check(loader):
            res.struct.append((name, ok, detail))
            res.obls.append(Obl(f"struct:{task.name}:{name}", "struct-text" if getattr(task, "textual", False) else "struct", [], z3.BoolVal(bool(ok)), "struct", 0, detail))
    except (KeyError, AttributeError, TypeError, IndexError, ValueError) as u:
        res.undecided = f"structural check could not read the source: {type(u).__name__}: {u}"
    return res


def run_task(task):
    if isinstance(task, FunctionTask):
        return verify_function(task)
    if isinstance(task, LemmaTask):
        return verify_lemma(task)
    if isinstance(task, StructTask):
        return verify_struct(task)
    raise TypeError(task)


# ---------------------------------------------------------------------------------------------------------------------
# Isolated runs: every task is generated and discharged in its own process forked from the same parent state, so the text of its
# queries (z3 term ids decide argument orders in simplified terms) does not depend on which other tasks ran before it, and tasks run
# in parallel.  The z3 objects stay in the child; plain records come back.
class Rec:
    """plain (picklable) stand-in for an obligation or cover after its verdict is known"""

    def __init__(self, **kw):
        self.__dict__.update(kw)


_ISO = {}


def _iso_child(i):
    import traceback as tb
    from . import solve
    task = _ISO["tasks"][i]
    label = getattr(task, "label", getattr(task, "name", "?"))
    # wall-clock guard of the whole task (VC generation, instantiation, the solver ladder): a task that exceeds it is undecided, never a hang of the check
    import signal

    class _Budget(Exception):
        pass

    def _alarm(signum, frame):
        raise _Budget()
    budget = int(max(240, 15 * _ISO["timeout"]))
    try:
        signal.signal(signal.SIGALRM, _alarm)
        signal.alarm(budget)
    except (ValueError, OSError):
        pass
    try:
        return _iso_child_body(task, label)
    except _Budget:
        return dict(label=label, undecided=f"the prover's time budget for one task ({budget} s) was exceeded", info=None, obls=[], verdicts=[], covers=[])
    finally:
        try:
            signal.alarm(0)
        except (ValueError, OSError):
            pass


def _iso_child_body(task, label):
    import traceback as tb
    from . import solve
    try:
        r = run_task(task)
    except Exception:
        return dict(label=label, undecided="engine error: " + tb.format_exc()[-600:], info=None, obls=[], verdicts=[], covers=[])
    give_up = None
    hf = _ISO.get("harness_file")
    if hf:
        def give_up(fn_label, _c={}):
            import json
            import os
            if "h" not in _c:
                if not os.path.exists(hf):
                    return False
                try:
                    with open(hf) as f:
                        _c["h"] = json.load(f)
                except Exception:
                    return False
            # the native evaluation already holds a concrete failing input that is not a listed finding: the check will report it, and
            # walking the rest of the ladder for obligations that no longer prove would only cost time
            return any(not str(f.get("signature", "")).startswith("F-") for c in _c["h"].get("clauses", []) for f in c.get("failures", []))
    # a pure lemma does not depend on the code under verification: it gets twice the budget, so that a nonlinear lemma one back end needs most of the
    # budget for does not flip to "unknown" when the machine is busy (the verdict would be UNDECIDED, never a violation - but a degraded check)
    tmo = _ISO["timeout"] * (2 if isinstance(task, LemmaTask) else 1)
    vs = solve.discharge(r.obls, timeout_s=tmo, all_backends=_ISO["all_backends"], give_up=give_up, jobs=_ISO["jobs"]) if r.obls else []
    cs = solve.discharge(r.covers, timeout_s=_ISO["cover_timeout"], jobs=_ISO["jobs"]) if r.covers else []
    obls = [Rec(name=o.name, kind=o.kind, fn=o.fn, note=o.note, line=getattr(o, "line", 0), goal=str(o.goal)[:400], n_hyps=len(o.hyps)) for o in r.obls]
    return dict(label=r.label, undecided=r.undecided, info=r.info, obls=obls, verdicts=vs, covers=cs)


def run_isolated(tasks, timeout_s=20, all_backends=False, harness_file=None, procs=6, jobs=8, cover_timeout=3):
    """[(label, undecided, info, obls, verdicts, covers)] per task, in task order"""
    import multiprocessing
    from . import solve
    ctx = multiprocessing.get_context("fork")
    solve.SEM = ctx.Semaphore(16)
    _ISO.update(tasks=tasks, timeout=timeout_s, all_backends=all_backends, harness_file=harness_file, jobs=jobs, cover_timeout=cover_timeout)
    if not tasks:
        return []
    with ctx.Pool(processes=min(procs, len(tasks)), maxtasksperchild=1) as pool:
        return pool.map(_iso_child, range(len(tasks)), chunksize=1)
