"""PyVC core: symbolic values, state, and the AST executor that emits verification conditions.

The executor walks the *real* function body (ast of /repo/hvsrpy/*.py, re-read on every run) path by
path.  Loops are cut with the invariants of the sidecar contract, calls to functions under contract
are replaced by their contract, calls into numpy/scipy use the axiomatised model of npmodel.py.
Anything outside the supported subset raises Undecided - a function is never silently skipped.
"""
import ast
import itertools
from fractions import Fraction

import z3

I, R, B = z3.IntSort(), z3.RealSort(), z3.BoolSort()


class Undecided(Exception):
    """Construct outside the supported subset / contract cannot be applied: function is undecided."""


class PyRaise(Exception):
    """A Python exception the modelled code certainly raises while an expression is evaluated (an attribute no value of that type has): routed like a raise
    statement - to the enclosing handler, or out of the function as an exceptional exit."""

    def __init__(self, exc, why=""):
        Exception.__init__(self, f"{exc}: {why}")
        self.exc = exc


class PyRaiseIf(Exception):
    """An external call that raises under a condition the contract names (a file that cannot be read): the statement is executed on both ways - the
    exception under `cond`, the normal continuation under its negation (the model of the call finds the condition in the path condition the second time)."""

    def __init__(self, cond, exc):
        Exception.__init__(self, f"{exc} if {cond}")
        self.cond, self.exc = cond, exc


# --------------------------------------------------------------------------------------- values
class CplxV:
    """An opaque complex number or complex array (spectra, transfer functions): only an identity - a z3 Int term - is known.  Arithmetic on such values is
    the uninterpreted function COP(operator, left identity, right identity); real operands enter through CREAL (a scalar) / CARR (an array's content and
    length); element stores through CSTORE.  What can be proved about code computing with them is which operands, in which order, with which operator reach
    which result - the routing - and nothing about the numbers (A-COMPLEX)."""

    def __init__(self, term):
        self.term = term

    def __repr__(self):
        return f"CplxV({self.term})"


COP = z3.Function("complex_op", z3.IntSort(), z3.IntSort(), z3.IntSort(), z3.IntSort())
CREAL = z3.Function("complex_of_real", z3.RealSort(), z3.IntSort())
CARR = z3.Function("complex_of_array", z3.ArraySort(z3.IntSort(), z3.RealSort()), z3.IntSort(), z3.IntSort())
CBOOLARR = z3.Function("complex_index_of_mask", z3.ArraySort(z3.IntSort(), z3.BoolSort()), z3.IntSort(), z3.IntSort())
CCONST = z3.Function("complex_constant", z3.RealSort(), z3.RealSort(), z3.IntSort())
CSTORE = z3.Function("complex_store", z3.IntSort(), z3.IntSort(), z3.IntSort(), z3.IntSort())      # (array, index or mask identity, value) -> array
CGET = z3.Function("complex_get", z3.IntSort(), z3.IntSort(), z3.IntSort())                         # (array, index or mask identity) -> value(s)
COPS = {"Add": 1, "Sub": 2, "Mult": 3, "Div": 4, "Pow": 5}


class Tup(tuple):
    pass


class NoneV:
    def __repr__(self):
        return "None"


NONE = NoneV()


class OptV:
    """`None` or a scalar: the result of a callee whose contract leaves both possible. `x is None` is `isnone`; once a branch has
    tested it the executor rebinds the name to None / the scalar (flow typing). Using it as a number before that is a TypeError
    in Python and Undecided here."""
    def __init__(self, isnone, val):
        self.isnone, self.val = isnone, val

    def __repr__(self):
        return f"OptV({self.isnone}, {self.val})"


class StrV:
    """Concrete Python string."""

    def __init__(self, s):
        self.s = s

    def __repr__(self):
        return f"StrV({self.s!r})"


class ARef:
    """Reference to array storage in the heap."""

    def __init__(self, sid):
        self.sid = sid

    def __repr__(self):
        return f"ARef({self.sid})"


class ArrData:
    def __init__(self, shape, data, elem="real", owner="fresh", view_of=None):
        self.shape, self.data, self.elem, self.owner, self.view_of = tuple(shape), data, elem, owner, view_of
        self.count_term = None      # ghost number of True entries for boolean masks of symbolic objects
        self.pylist = False         # True: a Python list of numbers (ndarray.tolist(), and its copies) - what json can write; arrays it cannot

    @property
    def rank(self):
        return len(self.shape)


class ORef:
    def __init__(self, oid):
        self.oid = oid

    def __repr__(self):
        return f"ORef({self.oid})"


class ObjData:
    def __init__(self, cls, fields, owner="fresh"):
        self.cls, self.fields, self.owner = cls, dict(fields), owner


class LRef:
    """Reference to a Python list of concrete length held in the heap."""

    def __init__(self, sid):
        self.sid = sid


class ListData:
    def __init__(self, items, owner="fresh"):
        self.items, self.owner = list(items), owner


class SeqV:
    """Immutable symbolic-length sequence: length term + element getter (index term -> value)."""

    def __init__(self, length, getter, owner="param", name="seq"):
        self.length, self.getter, self.owner, self.name = length, getter, owner, name


class DictV:
    """Dict with concrete string keys (registries, settings.smoothing, fft_settings)."""

    def __init__(self, items, owner="fresh"):
        self.items, self.owner = dict(items), owner


class MaskedV:
    """a[mask] for a 1-D array and a boolean mask of the same length: the selected sub-sequence, kept symbolic (A-NP-MASK)."""

    def __init__(self, arr, mask):
        self.arr, self.mask = arr, mask      # ARef (values), ARef (bool)


class OpaqueV:
    """a value of an external library that is only passed around, configured and displayed (a DataFrame's Styler, a figure): every attribute and every
    call on it yields another opaque value; nothing can be read out of it"""

    def __init__(self, name="opaque"):
        self.name = name


class ClsV:
    """a class object (only its name matters: isinstance tests and constructor dispatch)"""

    def __init__(self, name, bases=()):
        self.name, self.bases = name, tuple(bases)


class FuncV:
    """Callable model: fn(ex, st, args, kwargs, node) -> value."""

    def __init__(self, fn, name="?", attrs=None):
        self.fn, self.name, self.attrs = fn, name, dict(attrs or {})      # attrs: a class modelled by its constructor + static methods


class ModV:
    def __init__(self, name, attrs):
        self.name, self.attrs = name, attrs


def A2(sort):
    """2-D arrays are nested arrays (rows of columns) so that every back end (cvc5 included) parses them."""
    return z3.ArraySort(I, z3.ArraySort(I, sort))


def L2(i, j, body):
    return z3.Lambda([i], z3.Lambda([j], body))


def S2(a, i, j):
    return z3.Select(z3.Select(a, i), j)


def sort_of(elem):
    return {"real": R, "int": I, "bool": B}[elem]


def lit(x):
    if isinstance(x, bool):
        return z3.BoolVal(x)
    if isinstance(x, int):
        return z3.IntVal(x)
    if isinstance(x, float):
        return z3.RealVal(str(Fraction(repr(x))))
    if isinstance(x, Fraction):
        return z3.RealVal(str(x))
    return x


def is_z3(x):
    return isinstance(x, z3.ExprRef)


def real(x):
    x = lit(x)
    if z3.is_int(x):
        return z3.ToReal(x)
    if z3.is_bool(x):
        return z3.If(x, z3.RealVal(1), z3.RealVal(0))
    return x


def as_int(x):
    x = lit(x)
    if z3.is_bool(x):
        return z3.If(x, z3.IntVal(1), z3.IntVal(0))
    return x


def truth(x):
    """Python truthiness of a symbolic scalar."""
    if isinstance(x, NoneV):
        return z3.BoolVal(False)
    if isinstance(x, StrV):
        return z3.BoolVal(len(x.s) > 0)
    x = lit(x)
    if is_z3(x):
        if z3.is_bool(x):
            return x
        return x != 0
    if isinstance(x, (Tup, tuple)):
        return z3.BoolVal(len(x) > 0)
    if isinstance(x, SeqV):
        return lit(x.length) > 0                 # a list is true when it is not empty
    raise Undecided(f"truthiness of {type(x).__name__}")


def zabs(x):
    x = lit(x)
    return z3.If(x >= 0, x, -x)


def zmax(a, b):
    a, b = coerce(a, b)
    return z3.If(a >= b, a, b)


def zmin(a, b):
    a, b = coerce(a, b)
    return z3.If(a <= b, a, b)


def coerce(a, b):
    a, b = lit(a), lit(b)
    if z3.is_bool(a):
        a = as_int(a)
    if z3.is_bool(b):
        b = as_int(b)
    if z3.is_int(a) and z3.is_real(b):
        a = z3.ToReal(a)
    if z3.is_real(a) and z3.is_int(b):
        b = z3.ToReal(b)
    return a, b


# --------------------------------------------------------------------------------------- state
class State:
    def __init__(self, env=None, pc=None, heap=None, trace=None):
        self.env = dict(env or {})
        self.pc = list(pc or [])
        self.heap = dict(heap or {})
        self.trace = list(trace or [])
        self.flag = None          # None | "continue" | "break"
        self.writes = []          # (owner, description, lineno) heap writes to non-fresh storage

    def fork(self):
        s = State(self.env, self.pc, None, self.trace)
        for k, v in self.heap.items():
            if isinstance(v, ObjData):
                s.heap[k] = ObjData(v.cls, v.fields, v.owner)
            elif isinstance(v, ListData):
                s.heap[k] = ListData(v.items, v.owner)
            else:
                s.heap[k] = v
        s.flag = self.flag
        s.writes = list(self.writes)
        return s


class Obl:
    def __init__(self, name, kind, hyps, goal, fn="", line=0, note=""):
        self.name, self.kind, self.hyps, self.goal, self.fn, self.line, self.note = name, kind, list(hyps), goal, fn, line, note
        self.sat_expected = False   # True for vacuity/cover queries: (hyps) must be satisfiable
        self.extra = []             # earlier conjuncts of the same invariant / postcondition list: an optional second formulation


class ReturnRec:
    def __init__(self, st, value=None, exc=None, line=0):
        self.st, self.value, self.exc, self.line = st, value, exc, line


# --------------------------------------------------------------------------------------- executor
class Exec:
    """Symbolically executes one function body under a contract and collects obligations."""

    def __init__(self, fn_node, contract, qualname, axioms=(), registry=None, module_env=None):
        self.fn, self.k, self.qual = fn_node, contract, qualname
        self.ax = list(axioms)
        self.obls = []
        self.returns = []
        self.counter = itertools.count(1)
        self.registry = registry or {}        # qualname/callable-name -> callee Contract
        self.module_env = module_env or {}    # names visible at module level (np, registries, ...)
        self.spec_mode = 0
        self.entry = None
        self.loop_ids = {}
        # loop ordinals follow source order (line, column), independent of nesting depth
        loops = sorted((x for x in ast.walk(fn_node) if isinstance(x, (ast.For, ast.While))), key=lambda x: (x.lineno, x.col_offset))
        for n, x in enumerate(loops):
            self.loop_ids[id(x)] = n
        self.cover = []       # (name, pc) reachability queries

    # ------------------------------------------------------------------ helpers
    def fresh(self, name, sort):
        return z3.Const(f"{name}!{next(self.counter)}", sort)

    def new_sid(self, tag="a"):
        return f"{tag}#{next(self.counter)}"

    def alloc_arr(self, st, shape, data, elem="real", owner="fresh", tag="arr", view_of=None):
        sid = self.new_sid(tag)
        st.heap[sid] = ArrData(shape, data, elem, owner, view_of)
        return ARef(sid)

    def alloc_obj(self, st, cls, fields, owner="fresh"):
        oid = self.new_sid("obj")
        st.heap[oid] = ObjData(cls, fields, owner)
        return ORef(oid)

    def alloc_list(self, st, items, owner="fresh"):
        sid = self.new_sid("list")
        st.heap[sid] = ListData(items, owner)
        return LRef(sid)

    def arr(self, st, ref):
        if not isinstance(ref, ARef):
            raise Undecided(f"expected array, got {type(ref).__name__}")
        return st.heap[ref.sid]

    def add_obl(self, name, kind, st, goal, line=0, note="", extra=()):
        if self.spec_mode:
            return
        goal = lit(goal)
        o = Obl(f"{self.qual}:{name}", kind, self.ax + st.pc, goal, self.qual, line, note)
        o.extra = list(extra)
        self.obls.append(o)

    def add_chain(self, names, kind, st, texts, line):
        """the conjuncts of an invariant at one program point: conjunct j may use conjuncts 0..j-1 (A and B  <=>  A and (A => B))"""
        proved = []
        for nm, text in zip(names, texts):
            g = lit(self.spec(text, st))
            self.add_obl(nm, kind, st, g, line, text, extra=proved)
            proved = proved + [g]

    def safe(self, st, what, cond, node):
        line = getattr(node, "lineno", 0)
        ctx = getattr(self, "_elem_ctx", None)
        if ctx:
            # safety condition of an element-wise operation: it must hold for every index of the array(s)
            vs, rng = ctx
            cond = z3.ForAll(list(vs), z3.Implies(rng, lit(cond)))
        self.add_obl(f"safe[{what}@{line}]", "safe", st, cond, line)
        # after the check the condition may be assumed on this path (it would have raised otherwise)
        if not self.spec_mode:
            st.pc.append(lit(cond))

    # ------------------------------------------------------------------ expressions
    def ev(self, e, st):
        m = getattr(self, "ev_" + type(e).__name__, None)
        if m is None:
            raise Undecided(f"expression {type(e).__name__} at line {getattr(e, 'lineno', '?')}")
        return m(e, st)

    def ev_Constant(self, e, st):
        v = e.value
        if v is None:
            return NONE
        if isinstance(v, str):
            return StrV(v)
        if isinstance(v, (bool, int, float)):
            return lit(v)
        if isinstance(v, complex):
            return CplxV(CCONST(lit(float(v.real)), lit(float(v.imag))))
        raise Undecided(f"constant {v!r}")

    def ev_Name(self, e, st):
        if e.id in st.env:
            return st.env[e.id]
        g = self.k.ghost if self.k is not None else {}
        if e.id in g:
            return g[e.id]
        if e.id in self.module_env:
            return self.module_env[e.id]
        from . import npmodel
        if e.id in npmodel.BUILTINS:
            return npmodel.BUILTINS[e.id]
        raise Undecided(f"unknown name {e.id} at line {getattr(e, 'lineno', '?')}")

    def ev_UnaryOp(self, e, st):
        v = self.ev(e.operand, st)
        if isinstance(e.op, ast.USub):
            if isinstance(v, ARef):
                return self.map1(st, v, lambda x: -x)
            return -lit(v)
        if isinstance(e.op, ast.UAdd):
            return v
        if isinstance(e.op, ast.Not):
            return z3.Not(truth(v))
        if isinstance(e.op, ast.Invert):
            if isinstance(v, ARef) and self.arr(st, v).elem == "bool":
                return self.map1(st, v, lambda x: z3.Not(x), elem="bool")
        raise Undecided(f"unary {type(e.op).__name__}")

    def ev_BinOp(self, e, st):
        a, b = self.ev(e.left, st), self.ev(e.right, st)
        return self.binop(e.op, a, b, st, e)

    def ev_BoolOp(self, e, st):
        # Python's and/or return operands; for boolean use only truthiness matters.
        vals = [truth(self.ev(v, st)) for v in e.values]
        return z3.And(*vals) if isinstance(e.op, ast.And) else z3.Or(*vals)

    def ev_Compare(self, e, st):
        left = self.ev(e.left, st)
        out = []
        for op, r in zip(e.ops, e.comparators):
            right = self.ev(r, st)
            out.append(self.compare(op, left, right, st, e))
            left = right
        if len(out) == 1:
            return out[0]
        return z3.And(*out)

    def ev_IfExp(self, e, st):
        c = truth(self.ev(e.test, st))
        c = z3.simplify(c)
        if z3.is_true(c):
            return self.ev(e.body, st)
        if z3.is_false(c):
            return self.ev(e.orelse, st)
        a, b = self.ev(e.body, st), self.ev(e.orelse, st)
        if isinstance(a, StrV) and isinstance(b, StrV):
            return a if a.s == b.s else StrV("<str>")
        if is_z3(lit(a)) and is_z3(lit(b)):
            a, b = coerce(a, b)
            return z3.If(c, a, b)
        raise Undecided("conditional expression over non-scalars with symbolic test")

    def ev_Tuple(self, e, st):
        return Tup(self.ev(x, st) for x in e.elts)

    def ev_List(self, e, st):
        items = []
        for x in e.elts:
            if isinstance(x, ast.Starred):          # [*items, more]: the elements of a concrete list / tuple spliced in
                v = self.ev(x.value, st)
                if isinstance(v, LRef):
                    items.extend(st.heap[v.sid].items)
                elif isinstance(v, (Tup, tuple)):
                    items.extend(v)
                elif isinstance(v, ARef) and self.arr(st, v).rank == 1 and z3.is_int_value(z3.simplify(self.arr(st, v).shape[0])):
                    d = self.arr(st, v)
                    items.extend(self.sel1(d, z3.IntVal(j)) for j in range(z3.simplify(d.shape[0]).as_long()))
                else:
                    raise Undecided("* of a sequence that is not concrete in a list display")
            else:
                items.append(self.ev(x, st))
        return self.alloc_list(st, items)

    def ev_Dict(self, e, st):
        items = {}
        for k, v in zip(e.keys, e.values):
            if k is None:
                src = self.ev(v, st)
                if not isinstance(src, DictV):
                    raise Undecided("** of non-dict")
                items.update(src.items)
                continue
            kk = self.ev(k, st)
            if not isinstance(kk, StrV):
                if len(e.keys) == 1 and is_z3(lit(kk)):
                    from . import objects
                    ref = objects.new_symdict(self, st, name="dictlit")
                    objects.symdict_store(self, st, ref, kk, self.ev(v, st), e)
                    return ref
                raise Undecided("dict literal with non-string key")
            items[kk.s] = self.ev(v, st)
        return DictV(items)

    def ev_JoinedStr(self, e, st):
        m = getattr(self.k, "fstring_model", None) if self.k is not None else None
        if m is not None:
            return m(self, st, e)          # a contract may give meaning to the few f-strings whose value matters (a file name)
        # an f-string made of literal text and concrete strings only (a dictionary key built from an option name) has its concrete value
        parts = []
        for v in e.values:
            if isinstance(v, ast.Constant) and isinstance(v.value, str):
                parts.append(v.value)
            elif isinstance(v, ast.FormattedValue) and v.format_spec is None and v.conversion == -1:
                try:
                    x = self.ev(v.value, st.fork())
                except Undecided:
                    return StrV("<fstring>")
                if type(x) is StrV and not x.s.startswith("<"):
                    parts.append(x.s)
                else:
                    return StrV("<fstring>")
            else:
                return StrV("<fstring>")
        return StrV("".join(parts))

    def ev_Attribute(self, e, st):
        v = self.ev(e.value, st)
        return self.getattr(st, v, e.attr, e)

    def getattr(self, st, v, attr, node=None):
        from . import npmodel
        if isinstance(v, OpaqueV):
            return OpaqueV(f"{v.name}.{attr}")
        if isinstance(v, (ModV, FuncV)):
            if attr in v.attrs:
                return v.attrs[attr]
            raise Undecided(f"{v.name}.{attr} is not modelled")
        if isinstance(v, ARef):
            d = self.arr(st, v)
            if attr == "shape":
                return Tup(d.shape)
            if attr == "size":
                n = d.shape[0]
                for s in d.shape[1:]:
                    n = n * s
                return n
            if attr == "ndim":
                return z3.IntVal(d.rank)
            if attr == "T" and d.rank == 2:
                return self.alloc_arr(st, (d.shape[1], d.shape[0]), self.lam2(lambda r, c: self.sel2(d, c, r)),
                                      d.elem, d.owner, view_of=v.sid)
            if attr in npmodel.ARRAY_METHODS:
                return FuncV(lambda ex, s, args, kw, nd, _m=npmodel.ARRAY_METHODS[attr], _v=v: _m(ex, s, [_v] + list(args), kw, nd),
                             f"ndarray.{attr}")
            raise Undecided(f"ndarray.{attr}")
        if isinstance(v, MaskedV):
            if attr == "tolist":      # the selected values as a list: the same sub-sequence
                return FuncV(lambda ex, s, args, kw, nd, _v=v: _v, "selection.tolist")
            if attr == "flatten":
                return FuncV(lambda ex, s, args, kw, nd, _v=v: npmodel.masked_flatten(ex, s, _v, nd), "selection.flatten")
            raise Undecided(f"attribute .{attr} of a boolean-mask selection")
        from . import objects
        if isinstance(v, objects.SObj):
            return objects.sobj_getattr(self, st, v, attr, node)
        if isinstance(v, objects.SDRef):
            if attr == "keys":
                return FuncV(lambda ex, s, args, kw, nd, _v=v: objects.symdict_keys(ex, s, _v), "dict.keys")
            if attr == "items":
                return FuncV(lambda ex, s, args, kw, nd, _v=v: objects.symdict_items(ex, s, _v), "dict.items")
            raise Undecided(f"dict.{attr} on a symbolic dict")
        if isinstance(v, objects.SLRef):
            if attr == "append":
                return FuncV(lambda ex, s, args, kw, nd, _v=v: (objects.symlist_append(ex, s, _v, args[0], nd), NONE)[1], "list.append")
            if attr == "extend":
                return FuncV(lambda ex, s, args, kw, nd, _v=v: (objects.symlist_extend(ex, s, _v, args[0], nd), NONE)[1], "list.extend")
            raise Undecided(f"list.{attr} on a symbolic list")
        if isinstance(v, ORef):
            o = st.heap[v.oid]
            if attr in o.fields:
                return o.fields[attr]
            der = objects.SCHEMA.get(o.cls, {}).get(attr)
            if isinstance(der, tuple) and der[0] == "derived" and attr in objects.OREF_DERIVED.get(o.cls, {}):
                return objects.OREF_DERIVED[o.cls][attr](self, st, o)
            # properties / methods of classes under contract
            key = f"{o.cls}.{attr}"
            if key in self.registry:
                c = self.registry[key]
                if isinstance(c, FuncV):      # method modelled directly (assumed / verified elsewhere)
                    return FuncV(lambda ex, s, args, kw, nd, _c=c, _v=v: _c.fn(ex, s, [_v] + list(args), kw, nd), key)
                if c.is_property:
                    return self.call_contract(st, c, [v], {}, node)
                return FuncV(lambda ex, s, args, kw, nd, _c=c, _v=v: ex.call_contract(s, _c, [_v] + list(args), kw, nd), key)
            raise Undecided(f"attribute {o.cls}.{attr} is neither a field nor under contract")
        if isinstance(v, LRef):
            if attr in npmodel.LIST_METHODS:
                return FuncV(lambda ex, s, args, kw, nd, _m=npmodel.LIST_METHODS[attr], _v=v: _m(ex, s, [_v] + list(args), kw, nd),
                             f"list.{attr}")
        if isinstance(v, DictV):
            if attr in npmodel.DICT_METHODS:
                return FuncV(lambda ex, s, args, kw, nd, _m=npmodel.DICT_METHODS[attr], _v=v: _m(ex, s, [_v] + list(args), kw, nd),
                             f"dict.{attr}")
        if isinstance(v, StrV):
            if attr in npmodel.STR_METHODS:
                return FuncV(lambda ex, s, args, kw, nd, _m=npmodel.STR_METHODS[attr], _v=v: _m(ex, s, [_v] + list(args), kw, nd),
                             f"str.{attr}")
        if attr in ("tolist",) and (isinstance(v, (NoneV, StrV, DictV, Tup, LRef)) or (is_z3(lit(v)) and (z3.is_int(lit(v)) or z3.is_real(lit(v)) or z3.is_bool(lit(v))))):
            # no None, str, dict, tuple, list or Python number has this attribute (symbolic numbers are Python numbers, as in isinstance: A-PYNUM)
            raise PyRaise("AttributeError", f".{attr} of a {type(v).__name__}")
        raise Undecided(f"attribute .{attr} on {type(v).__name__} at line {getattr(node, 'lineno', '?')}")

    # ---- array helpers
    def lam1(self, f):
        i = z3.Int("i!l")
        return z3.Lambda([i], lit(f(i)))

    def lam2(self, f):
        i, j = z3.Ints("i!l j!l")
        return L2(i, j, lit(f(i, j)))

    def sel1(self, d, i):
        return z3.Select(d.data, lit(i))

    def sel2(self, d, i, j):
        return z3.Select(z3.Select(d.data, lit(i)), lit(j))

    def elem_kind(self, x):
        x = lit(x)
        if z3.is_bool(x):
            return "bool"
        if z3.is_int(x):
            return "int"
        return "real"

    def _elementwise(self, vs, shape, thunk):
        saved = getattr(self, "_elem_ctx", None)
        self._elem_ctx = (vs, z3.And(*[z3.And(v >= 0, v < n) for v, n in zip(vs, shape)]))
        try:
            return thunk()
        finally:
            self._elem_ctx = saved

    def map1(self, st, ref, f, elem=None):
        d = self.arr(st, ref)
        if d.rank == 1:
            i = z3.Int("i!m")
            body = lit(self._elementwise([i], d.shape, lambda: f(self.sel1(d, i))))
            return self.alloc_arr(st, d.shape, z3.Lambda([i], body), elem or self.elem_kind(body))
        i, j = z3.Ints("i!m j!m")
        body = lit(self._elementwise([i, j], d.shape, lambda: f(self.sel2(d, i, j))))
        return self.alloc_arr(st, d.shape, L2(i, j, body), elem or self.elem_kind(body))

    def map2(self, st, a, b, f, node=None, elem=None):
        """Element-wise binary operation with scalar broadcasting (and row broadcasting 2-D op 1-D)."""
        da = self.arr(st, a) if isinstance(a, ARef) else None
        db = self.arr(st, b) if isinstance(b, ARef) else None
        if da is not None and db is not None:
            if da.rank == db.rank:
                for x, y in zip(da.shape, db.shape):
                    if not z3.eq(z3.simplify(x), z3.simplify(y)):
                        self.safe(st, "shapes-agree", x == y, node)
                shape = da.shape
                if da.rank == 1:
                    i = z3.Int("i!m")
                    body = lit(self._elementwise([i], shape, lambda: f(self.sel1(da, i), self.sel1(db, i))))
                    return self.alloc_arr(st, shape, z3.Lambda([i], body), elem or self.elem_kind(body))
                i, j = z3.Ints("i!m j!m")
                body = lit(self._elementwise([i, j], shape, lambda: f(self.sel2(da, i, j), self.sel2(db, i, j))))
                return self.alloc_arr(st, shape, L2(i, j, body), elem or self.elem_kind(body))
            if {da.rank, db.rank} == {1, 2}:
                # numpy broadcasting aligns trailing axes: the 1-D operand is a row, repeated for every row of the 2-D operand
                d2, d1 = (da, db) if da.rank == 2 else (db, da)
                if not z3.eq(z3.simplify(d2.shape[1]), z3.simplify(d1.shape[0])):
                    self.safe(st, "row-broadcast-length", d2.shape[1] == d1.shape[0], node)
                i, j = z3.Ints("i!m j!m")
                x2, x1 = self.sel2(d2, i, j), self.sel1(d1, j)
                body = lit(self._elementwise([i, j], d2.shape, lambda: f(x2, x1) if da.rank == 2 else f(x1, x2)))
                return self.alloc_arr(st, d2.shape, L2(i, j, body), elem or self.elem_kind(body))
            raise Undecided("broadcasting between arrays of different rank")
        d = da if da is not None else db
        sc = b if da is not None else a
        sc = lit(sc)
        if not is_z3(sc):
            raise Undecided(f"array op with {type(sc).__name__}")
        if d.rank == 1:
            i = z3.Int("i!m")
            x = self.sel1(d, i)
            body = lit(self._elementwise([i], d.shape, lambda: f(x, sc) if da is not None else f(sc, x)))
            return self.alloc_arr(st, d.shape, z3.Lambda([i], body), elem or self.elem_kind(body))
        i, j = z3.Ints("i!m j!m")
        x = self.sel2(d, i, j)
        body = lit(self._elementwise([i, j], d.shape, lambda: f(x, sc) if da is not None else f(sc, x)))
        return self.alloc_arr(st, d.shape, L2(i, j, body), elem or self.elem_kind(body))

    def scalar_binop(self, op, a, b, st, node):
        a, b = lit(a), lit(b)
        if isinstance(op, ast.Add):
            a, b = coerce(a, b)
            if z3.is_real(a) and getattr(self.k, "float_model", False) and not self.spec_mode:
                d = self.fresh("fl_delta", R)
                st.pc.append(z3.And(d >= -z3.Q(1, 2 ** 53), d <= z3.Q(1, 2 ** 53)))
                return (a + b) * (1 + d)
            return a + b
        if isinstance(op, ast.Sub):
            a, b = coerce(a, b)
            return a - b
        if isinstance(op, ast.Mult):
            a, b = coerce(a, b)
            return a * b
        if isinstance(op, ast.Div):
            self.safe(st, "div-nonzero", real(b) != 0, node)
            q = real(a) / real(b)
            if getattr(self.k, "float_model", False) and not self.spec_mode and not (z3.is_int(a) and z3.is_int(b)):
                # (the quotient of two integers below 2**53 is correctly rounded and its floor is exact, so int/int stays exact)
                # standard model of IEEE-754 double division: fl(a/b) = (a/b)(1+d), |d| <= 2**-53  (DESIGN 4.4)
                d = self.fresh("fl_delta", R)
                st.pc.append(z3.And(d >= -z3.Q(1, 2 ** 53), d <= z3.Q(1, 2 ** 53)))
                q = q * (1 + d)
            return q
        if isinstance(op, ast.FloorDiv):
            if z3.is_int(a) and z3.is_int(b):
                self.safe(st, "floordiv-positive-divisor", b > 0, node)
                return a / b
            self.safe(st, "floordiv-positive-divisor", real(b) > 0, node)
            return z3.ToReal(z3.ToInt(real(a) / real(b)))
        if isinstance(op, ast.Mod):
            if z3.is_int(a) and z3.is_int(b):
                self.safe(st, "mod-positive-divisor", b > 0, node)
                return a % b
            raise Undecided("float modulo")
        if isinstance(op, ast.Pow):
            if z3.is_int_value(b) or (isinstance(node, ast.BinOp) and isinstance(node.right, ast.Constant)):
                n = b.as_long() if z3.is_int_value(b) else None
                if n is not None and 0 <= n <= 4:
                    out = lit(1)
                    for _ in range(n):
                        out, a2 = coerce(out, a)
                        out = out * a2
                    return out
            raise Undecided("general power")
        raise Undecided(f"binary operator {type(op).__name__}")

    def cplx_id(self, st, v):
        """identity of an operand of complex arithmetic"""
        if isinstance(v, CplxV):
            return v.term
        if isinstance(v, ARef):
            d = self.arr(st, v)
            if d.rank != 1:
                raise Undecided("complex arithmetic with a 2-D real array")
            if d.elem == "bool":
                return CBOOLARR(d.data, d.shape[0])
            data = d.data if d.elem == "real" else z3.Lambda([z3.Int("i!c")], z3.ToReal(z3.Select(d.data, z3.Int("i!c"))))
            return CARR(data, d.shape[0])
        x = lit(v)
        if is_z3(x) and (z3.is_int(x) or z3.is_real(x)):
            return CREAL(real(x))
        raise Undecided(f"complex arithmetic with a {type(v).__name__}")

    def binop(self, op, a, b, st, node):
        if isinstance(a, CplxV) or isinstance(b, CplxV):
            code = COPS.get(type(op).__name__)
            if code is None:
                raise Undecided(f"complex arithmetic with operator {type(op).__name__}")
            return CplxV(COP(z3.IntVal(code), self.cplx_id(st, a), self.cplx_id(st, b)))
        if isinstance(a, ARef) or isinstance(b, ARef):
            return self.map2(st, a, b, lambda x, y: self.scalar_binop(op, x, y, st, node), node)
        if isinstance(a, StrV) and isinstance(b, StrV) and isinstance(op, ast.Add):
            return StrV(a.s + b.s)
        if isinstance(a, LRef) and isinstance(op, ast.Mult):
            n = z3.simplify(lit(b))
            if z3.is_int_value(n):
                return self.alloc_list(st, st.heap[a.sid].items * n.as_long())
            items = st.heap[a.sid].items
            if len(items) == 1 and z3.is_int(n):      # [x] * n  ->  constant sequence of symbolic length
                x = items[0]
                return SeqV(z3.If(n > 0, n, z3.IntVal(0)), lambda ex_, st_, i, _x=x: _x, owner="fresh", name="repeat")
            raise Undecided("list * symbolic int")
        if isinstance(a, LRef) and isinstance(b, LRef) and isinstance(op, ast.Add):
            return self.alloc_list(st, st.heap[a.sid].items + st.heap[b.sid].items)
        if isinstance(a, (NoneV, StrV, OptV)) or isinstance(b, (NoneV, StrV, OptV)):
            raise Undecided("arithmetic on None/str/optional")
        return self.scalar_binop(op, a, b, st, node)

    def compare(self, op, a, b, st, node):
        if isinstance(op, (ast.Is, ast.IsNot)):
            r = self.identical(a, b)
            return r if isinstance(op, ast.Is) else z3.Not(r)
        if isinstance(a, MaskedV) and not isinstance(b, (ARef, MaskedV)):
            return MaskedV(self.map2(st, a.arr, b, lambda x, y: self.scalar_cmp(op, x, y), node, elem="bool"), a.mask)
        from . import objects as _objects
        if isinstance(a, (ORef, _objects.SObj)) and isinstance(op, (ast.Eq, ast.NotEq)):
            # == / != between library objects: the left operand's own __eq__ (Python derives != from it), which must have a model in the registry
            cls_ = st.heap[a.oid].cls if isinstance(a, ORef) else a.cls
            m = self.registry.get(f"{cls_}.__eq__")
            if m is None:
                raise Undecided(f"== between objects of class {cls_}, whose __eq__ has no model in this task")
            r = truth(m.fn(self, st, [a, b], {}, node))
            return r if isinstance(op, ast.Eq) else z3.Not(r)
        if isinstance(a, ARef) or isinstance(b, ARef):
            return self.map2(st, a, b, lambda x, y: self.scalar_cmp(op, x, y), node, elem="bool")
        if isinstance(a, (NoneV, StrV, Tup, OptV, DictV)) or isinstance(b, (NoneV, StrV, Tup, OptV, DictV)):
            if isinstance(op, (ast.Eq, ast.NotEq)):
                r = self.struct_eq(a, b)
                return r if isinstance(op, ast.Eq) else z3.Not(r)
            if isinstance(op, (ast.In, ast.NotIn)) and isinstance(b, (Tup, LRef)):
                items = list(b) if isinstance(b, Tup) else list(st.heap[b.sid].items)
                r = z3.Or(*[self.struct_eq(a, x) for x in items]) if len(items) else z3.BoolVal(False)
                return r if isinstance(op, ast.In) else z3.Not(r)
            raise Undecided("ordering on None/str/tuple")
        if isinstance(op, (ast.In, ast.NotIn)):
            if isinstance(b, DictV) and isinstance(a, StrV):
                r = z3.BoolVal(a.s in b.items)
                return r if isinstance(op, ast.In) else z3.Not(r)
            raise Undecided("'in' on this container")
        return self.scalar_cmp(op, a, b)

    def scalar_cmp(self, op, a, b):
        a, b = coerce(a, b)
        t = type(op)
        if t is ast.Lt:
            return a < b
        if t is ast.LtE:
            return a <= b
        if t is ast.Gt:
            return a > b
        if t is ast.GtE:
            return a >= b
        if t is ast.Eq:
            return a == b
        if t is ast.NotEq:
            return a != b
        raise Undecided(f"comparison {t.__name__}")

    def identical(self, a, b):
        if isinstance(a, OptV) and isinstance(b, NoneV):
            return a.isnone
        if isinstance(b, OptV) and isinstance(a, NoneV):
            return b.isnone
        if isinstance(a, OptV) or isinstance(b, OptV):
            raise Undecided("'is' between optional values")
        if isinstance(a, NoneV) or isinstance(b, NoneV):
            return z3.BoolVal(isinstance(a, NoneV) and isinstance(b, NoneV))
        if isinstance(a, ARef) and isinstance(b, ARef):
            return z3.BoolVal(a.sid == b.sid)
        if isinstance(a, ORef) and isinstance(b, ORef):
            return z3.BoolVal(a.oid == b.oid)
        from . import objects
        if isinstance(a, objects.SObj) and isinstance(b, objects.SObj):
            return a.id == b.id
        if isinstance(a, objects.SLRef) and isinstance(b, objects.SLRef):
            return z3.BoolVal(a.sid == b.sid)
        if isinstance(a, LRef) and isinstance(b, LRef):
            return z3.BoolVal(a.sid == b.sid)
        if isinstance(a, DictV) and isinstance(b, DictV):
            # dictionaries with constant keys are engine objects that are never copied implicitly (dict(x), {**x} and deepcopy allocate)
            return z3.BoolVal(a is b)
        raise Undecided("'is' between these values")

    def struct_eq(self, a, b):
        if isinstance(b, OptV) and not isinstance(a, OptV):
            a, b = b, a
        if isinstance(a, OptV):
            if isinstance(b, NoneV):
                return a.isnone
            if isinstance(b, OptV):
                return z3.Or(z3.And(a.isnone, b.isnone), z3.And(z3.Not(a.isnone), z3.Not(b.isnone), self.struct_eq(a.val, b.val)))
            return z3.And(z3.Not(a.isnone), self.struct_eq(a.val, b))
        if isinstance(a, NoneV) or isinstance(b, NoneV):
            return z3.BoolVal(isinstance(a, NoneV) and isinstance(b, NoneV))
        if isinstance(a, DictV) and isinstance(b, DictV):
            if set(a.items) != set(b.items):
                return z3.BoolVal(False)
            return z3.And(*[self.struct_eq(a.items[k], b.items[k]) for k in a.items]) if a.items else z3.BoolVal(True)
        if isinstance(a, DictV) or isinstance(b, DictV):
            return z3.BoolVal(False)
        if isinstance(a, StrV) and isinstance(b, StrV):
            return z3.BoolVal(a.s == b.s)
        if isinstance(a, StrV) or isinstance(b, StrV):
            return z3.BoolVal(False)
        if isinstance(a, (Tup, tuple)) and isinstance(b, (Tup, tuple)):
            if len(a) != len(b):
                return z3.BoolVal(False)
            return z3.And(*[self.struct_eq(x, y) for x, y in zip(a, b)]) if len(a) else z3.BoolVal(True)
        if isinstance(a, (Tup, tuple)) or isinstance(b, (Tup, tuple)):
            return z3.BoolVal(False)
        a, b = coerce(a, b)
        return a == b

    # ---- subscripts
    def norm_index(self, i, n):
        """Python index normalisation for literal negative indices."""
        i = z3.simplify(lit(i))
        if z3.is_int_value(i) and i.as_long() < 0:
            return n + i
        return i

    def slice_bounds(self, sl, n, st):
        """(lo, hi) of a step-less slice with Python clamping; negative *literal* bounds resolved."""
        if sl.step is not None:
            raise Undecided("slice with step")

        def clamp(v):
            return z3.If(v < 0, z3.If(v + n < 0, z3.IntVal(0), v + n), z3.If(v > n, n, v))
        lo = z3.IntVal(0) if sl.lower is None else clamp(as_int(self.ev(sl.lower, st)))
        hi = n if sl.upper is None else clamp(as_int(self.ev(sl.upper, st)))
        return z3.simplify(lo), z3.simplify(hi)

    def ev_Subscript(self, e, st):
        v = self.ev(e.value, st)
        sl = e.slice
        if isinstance(v, (Tup, tuple)):
            if isinstance(sl, ast.Slice):
                lo = None if sl.lower is None else z3.simplify(lit(self.ev(sl.lower, st))).as_long()
                hi = None if sl.upper is None else z3.simplify(lit(self.ev(sl.upper, st))).as_long()
                step = None if sl.step is None else z3.simplify(lit(self.ev(sl.step, st))).as_long()
                return Tup(v[lo:hi:step])
            i = z3.simplify(lit(self.ev(sl, st)))
            if z3.is_int_value(i):
                k = i.as_long()
                if not -len(v) <= k < len(v):
                    raise Undecided("tuple index out of range")
                return v[k]
            if len(v) and all(hasattr(x, "merge_with") for x in v) and z3.is_int(i):
                # entries that carry a symbolic identity (opaque strings with an id): the entry at a symbolic position is their If-chain
                self.safe(st, "tuple-index", z3.And(i >= 0, i < len(v)), e)
                out = v[len(v) - 1]
                for k in range(len(v) - 2, -1, -1):
                    out = v[k].merge_with(i == k, out)
                return out
            raise Undecided("symbolic index into tuple")
        if isinstance(v, LRef):
            items = st.heap[v.sid].items
            if isinstance(sl, ast.Slice):
                raise Undecided("list slice")
            i = z3.simplify(lit(self.ev(sl, st)))
            if z3.is_int_value(i):
                k = i.as_long()
                self.safe(st, "list-index", z3.BoolVal(-len(items) <= k < len(items)), e)
                return items[k]
            raise Undecided("symbolic index into concrete list")
        from . import objects
        if isinstance(v, objects.SLRef):
            if isinstance(sl, ast.Slice) and st.heap[v.sid].cls == objects.STR_LIST and sl.step is None:
                lo, hi = self.slice_bounds(sl, st.heap[v.sid].length, st)
                return objects.new_symlist(self, st, objects.STR_LIST, length=z3.simplify(z3.If(hi > lo, hi - lo, z3.IntVal(0))), name="strslice")
            if isinstance(sl, ast.Slice):
                raise Undecided("slice of symbolic list")
            d = st.heap[v.sid]
            i = self.norm_index(self.ev(sl, st), d.length)
            return objects.symlist_get(self, st, v, i, e)
        if isinstance(v, objects.SDRef):
            return objects.symdict_read(self, st, v, self.ev(sl, st), e)
        if isinstance(v, SeqV):
            if isinstance(sl, ast.Slice):
                raise Undecided("slice of symbolic sequence")
            i = self.norm_index(self.ev(sl, st), v.length)
            self.safe(st, "seq-index", z3.And(i >= 0, i < v.length), e)
            return v.getter(self, st, i)
        if isinstance(v, DictV):
            k = self.ev(sl, st)
            if type(k) is StrV and not k.s.startswith("<"):
                if k.s in v.items:
                    return v.items[k.s]
                raise PyRaise("KeyError", f"{k.s!r} is not a key (the key set is concrete)")
            if isinstance(k, StrV):
                if k.s in v.items:
                    return v.items[k.s]
                raise Undecided(f"KeyError {k.s!r} (key set is concrete)")
            if isinstance(k, NoneV) and all(isinstance(x, str) for x in v.items):
                raise PyRaise("KeyError", "None is not a key of a dictionary with string keys")
            raise Undecided("dict lookup with non-constant key")
        if isinstance(v, ARef):
            return self.arr_subscript(st, v, sl, e)
        if type(v) is StrV and not v.s.startswith("<") and not isinstance(sl, ast.Slice):
            i = z3.simplify(lit(self.ev(sl, st)))
            if z3.is_int_value(i) and -len(v.s) <= i.as_long() < len(v.s):
                return StrV(v.s[i.as_long()])        # a character of a concrete string
            raise Undecided("index into a concrete string that is not definite or out of range")
        if isinstance(v, StrV) and isinstance(sl, ast.Slice):
            return StrV("<slice of a string>")       # string content is opaque
        if isinstance(v, CplxV):
            if isinstance(sl, (ast.Slice, ast.Tuple)):
                raise Undecided("slice of an opaque complex array")
            return CplxV(CGET(v.term, self.cplx_id(st, self.ev(sl, st))))
        if isinstance(v, OpaqueV):
            return OpaqueV(v.name + "[...]")
        if isinstance(v, ModV) and "__getitem__" in v.attrs:
            has_slice = any(isinstance(x, ast.Slice) for x in ast.walk(sl))
            key = OpaqueV("slice") if has_slice else self.ev(sl, st)
            return self.call(st, v.attrs["__getitem__"], [v, key], {}, e)       # an external object whose model says what indexing it yields
        if isinstance(v, MaskedV):
            d = self.arr(st, v.arr)
            if d.rank == 2 and isinstance(sl, ast.Tuple) and len(sl.elts) == 2 and isinstance(sl.elts[0], ast.Slice) and not isinstance(sl.elts[1], ast.Slice):
                a = sl.elts[0]
                if a.lower is None and a.upper is None and a.step is None:
                    # column c of the selected rows = the selection (same mask) of column c
                    return MaskedV(self.arr_subscript(st, v.arr, sl, e), v.mask)
            raise Undecided("subscript of a boolean-mask selection other than [:, column]")
        raise Undecided(f"subscript on {type(v).__name__} at line {e.lineno}")

    def ev_DictComp(self, e, st):
        """{k: expr for k, v in d.items()} / {k: expr for k in seq} over a concrete sequence (a dictionary with constant keys): entry by entry, like the loop"""
        if len(e.generators) != 1 or e.generators[0].ifs or e.generators[0].is_async:
            raise Undecided("dict comprehension with a condition or several generators")
        gen = e.generators[0]
        src = self.ev(gen.iter, st)
        if isinstance(src, LRef):
            src = list(st.heap[src.sid].items)
        if not isinstance(src, (Tup, tuple, list)):
            raise Undecided("dict comprehension over a sequence that is not concrete")
        names = [y.id for y in ast.walk(gen.target) if isinstance(y, ast.Name)]
        saved = {nm: st.env[nm] for nm in names if nm in st.env}
        items = {}
        for it in src:
            self.assign(gen.target, it, st, e)
            k = self.ev(e.key, st)
            if type(k) is not StrV or k.s.startswith("<"):
                raise Undecided("dict comprehension with a key that is not a concrete string")
            items[k.s] = self.ev(e.value, st)
        for nm in names:
            st.env.pop(nm, None)
        st.env.update(saved)
        return DictV(items)

    def ev_ListComp(self, e, st):
        """[expr for x in seq] over a symbolic-length list: a symbolic sequence of the same length whose element i is expr with x = seq[i]
        (the element expression is evaluated when an element is asked for; it must not write)"""
        if len(e.generators) != 1 or len(e.generators[0].ifs) > 1 or e.generators[0].is_async or not isinstance(e.generators[0].target, ast.Name):
            raise Undecided("list comprehension other than [expr for name in sequence]")
        gen = e.generators[0]
        src = self.ev(gen.iter, st)
        from . import objects
        if gen.ifs:
            # [name for name in seq if cond]: *some* sub-sequence of the sequence - its length m is between 0 and len(seq) and is 0 exactly when no element
            # satisfies the condition; which elements it holds is not modelled (they are opaque values of the position)
            if not (isinstance(src, SeqV) and isinstance(e.elt, ast.Name) and e.elt.id == gen.target.id):
                raise Undecided("filtering comprehension other than [x for x in <sequence of symbolic length> if cond]")
            i = z3.Int(f"i!filter{len(self.obls)}_{getattr(e, 'lineno', 0)}")
            st2 = st.fork()
            st2.env[gen.target.id] = src.getter(self, st2, i)
            cond = truth(self.ev(gen.ifs[0], st2))
            m = self.fresh("n_selected", I)
            st.pc.append(z3.And(m >= 0, m <= lit(src.length), (m == 0) == z3.ForAll([i], z3.Implies(z3.And(i >= 0, i < lit(src.length)), z3.Not(cond)))))
            picked = z3.Function(f"selected_item_{m}", I, I)
            return SeqV(m, lambda ex_, st_, k, _f=picked: _f(lit(k)), owner="fresh", name="filtered")
        if isinstance(src, objects.SLRef):
            n = st.heap[src.sid].length
            elem = lambda ex_, st_, i: objects.symlist_get(ex_, st_, src, i)
        elif isinstance(src, SeqV):
            n, elem = src.length, src.getter
        elif isinstance(src, ARef):
            # iteration over an array: its elements (1-D) or its rows (2-D)
            d0 = self.arr(st, src)
            n = d0.shape[0]
            if d0.rank == 1:
                elem = lambda ex_, st_, i, _s=src: ex_.sel1(ex_.arr(st_, _s), i)
            else:
                elem = lambda ex_, st_, i, _s=src: ex_.alloc_arr(st_, (ex_.arr(st_, _s).shape[1],), ex_.lam1(lambda c, _d=ex_.arr(st_, _s): ex_.sel2(_d, i, c)),
                                                                  ex_.arr(st_, _s).elem, ex_.arr(st_, _s).owner, view_of=_s.sid)
        elif isinstance(src, (LRef, Tup, tuple)):
            # concrete sequence: evaluated element by element, like the loop it abbreviates
            items = list(st.heap[src.sid].items) if isinstance(src, LRef) else list(src)
            out, saved = [], st.env.get(gen.target.id, None)
            had = gen.target.id in st.env
            for it in items:
                st.env[gen.target.id] = it
                out.append(self.ev(e.elt, st))
            if had:
                st.env[gen.target.id] = saved
            else:
                st.env.pop(gen.target.id, None)
            return self.alloc_list(st, out)
        else:
            raise Undecided("list comprehension over this sequence")
        var, body = gen.target.id, e.elt

        def getter(ex_, st_, i):
            s2 = st_.fork()
            s2.env[var] = elem(ex_, s2, i)
            nw = len(s2.writes)
            v = ex_.ev(body, s2)
            if len(s2.writes) != nw:
                raise Undecided("element expression of a list comprehension writes")
            for k, val in s2.heap.items():       # storage allocated by the element expression stays reachable from the value
                st_.heap.setdefault(k, val)
            st_.pc += [f for f in s2.pc[len(st_.pc):]]
            return v
        return SeqV(n, getter, owner="fresh", name="listcomp")

    def arr_subscript(self, st, v, sl, node):
        d = self.arr(st, v)
        if d.rank == 1:
            if isinstance(sl, ast.Slice):
                if sl.step is not None:
                    stp = z3.simplify(lit(self.ev(sl.step, st)))
                    if sl.lower is None and sl.upper is None and z3.is_int_value(stp) and stp.as_long() == -1:
                        n = d.shape[0]
                        return self.alloc_arr(st, (n,), self.lam1(lambda i: self.sel1(d, n - 1 - i)), d.elem, d.owner, view_of=v.sid)
                    raise Undecided("slice step")
                lo, hi = self.slice_bounds(sl, d.shape[0], st)
                n = z3.simplify(z3.If(hi > lo, hi - lo, z3.IntVal(0)))
                return self.alloc_arr(st, (n,), self.lam1(lambda i: self.sel1(d, i + lo)), d.elem, d.owner, view_of=v.sid)
            idx = self.ev(sl, st)
            if isinstance(idx, ARef):
                di = self.arr(st, idx)
                if di.elem == "bool":
                    from . import npmodel
                    return npmodel.compress(self, st, v, idx, node)
                if di.elem == "int" and di.rank == 1:
                    k = z3.Int("k!f")
                    self.add_obl(f"safe[fancy-index@{node.lineno}]", "safe", st,
                                 z3.ForAll([k], z3.Implies(z3.And(k >= 0, k < di.shape[0]),
                                                           z3.And(self.sel1(di, k) >= 0, self.sel1(di, k) < d.shape[0]))), node.lineno)
                    return self.alloc_arr(st, di.shape, self.lam1(lambda i: self.sel1(d, self.sel1(di, i))), d.elem)
                raise Undecided("fancy index")
            i = self.norm_index(idx, d.shape[0])
            if not z3.is_int(i):
                raise Undecided(f"non-integer index at line {node.lineno}")
            self.safe(st, "index", z3.And(i >= 0, i < d.shape[0]), node)
            return self.sel1(d, i)
        # rank 2
        if isinstance(sl, ast.Tuple) and len(sl.elts) == 2:
            a, b = sl.elts
            if isinstance(a, ast.Slice) and not isinstance(b, ast.Slice):
                if not (a.lower is None and a.upper is None and a.step is None):
                    raise Undecided("partial row slice")
                c = self.norm_index(self.ev(b, st), d.shape[1])
                self.safe(st, "col-index", z3.And(c >= 0, c < d.shape[1]), node)
                return self.alloc_arr(st, (d.shape[0],), self.lam1(lambda r: self.sel2(d, r, c)), d.elem, d.owner, view_of=v.sid)
            if isinstance(b, ast.Slice) and not isinstance(a, ast.Slice):
                if not (b.lower is None and b.upper is None and b.step is None):
                    raise Undecided("partial column slice")
                r = self.norm_index(self.ev(a, st), d.shape[0])
                self.safe(st, "row-index", z3.And(r >= 0, r < d.shape[0]), node)
                return self.alloc_arr(st, (d.shape[1],), self.lam1(lambda c: self.sel2(d, r, c)), d.elem, d.owner, view_of=v.sid)
            if isinstance(a, ast.Slice) and isinstance(b, ast.Slice):
                if not (a.lower is None and a.upper is None and a.step is None):
                    raise Undecided("partial row slice")
                lo, hi = self.slice_bounds(b, d.shape[1], st)
                n = z3.simplify(z3.If(hi > lo, hi - lo, z3.IntVal(0)))
                return self.alloc_arr(st, (d.shape[0], n), self.lam2(lambda r, c: self.sel2(d, r, c + lo)), d.elem, d.owner, view_of=v.sid)
            r = self.norm_index(self.ev(a, st), d.shape[0])
            c = self.norm_index(self.ev(b, st), d.shape[1])
            self.safe(st, "index2", z3.And(r >= 0, r < d.shape[0], c >= 0, c < d.shape[1]), node)
            return self.sel2(d, r, c)
        if isinstance(sl, ast.Slice):
            lo, hi = self.slice_bounds(sl, d.shape[0], st)
            n = z3.simplify(z3.If(hi > lo, hi - lo, z3.IntVal(0)))
            return self.alloc_arr(st, (n, d.shape[1]), self.lam2(lambda r, c: self.sel2(d, r + lo, c)), d.elem, d.owner, view_of=v.sid)
        idx = self.ev(sl, st)
        if isinstance(idx, ARef):
            di = self.arr(st, idx)
            if di.elem == "bool" and di.rank == 1:
                from . import npmodel
                return npmodel.compress_rows(self, st, v, idx, node)
            if di.elem == "int" and di.rank == 1:
                k = z3.Int("k!f")
                self.add_obl(f"safe[fancy-row-index@{node.lineno}]", "safe", st,
                             z3.ForAll([k], z3.Implies(z3.And(k >= 0, k < di.shape[0]),
                                                       z3.And(self.sel1(di, k) >= 0, self.sel1(di, k) < d.shape[0]))), node.lineno)
                return self.alloc_arr(st, (di.shape[0], d.shape[1]),
                                      self.lam2(lambda r, c: self.sel2(d, self.sel1(di, r), c)), d.elem)
            raise Undecided("fancy row index")
        r = self.norm_index(idx, d.shape[0])
        self.safe(st, "row-index", z3.And(r >= 0, r < d.shape[0]), node)
        return self.alloc_arr(st, (d.shape[1],), self.lam1(lambda c: self.sel2(d, r, c)), d.elem, d.owner, view_of=v.sid)

    # ---- calls
    SPEC_FORMS = ("forall", "exists", "implies", "iff", "old", "ite", "forall_real")

    def super_init(self, e, st):
        """super().__init__(...) inside a constructor: the base class's __init__ (read from the same source) runs on the same object - inlined, statement by
        statement, with its parameters bound from the call and its defaults evaluated where it is defined; it must have one way out"""
        from . import loader
        stack = getattr(self, "_class_stack", None)
        if stack is None:
            parts = self.qual.split(".")
            if len(parts) < 3 or parts[-1] != "__init__":
                raise Undecided("super() outside a constructor")
            stack = self._class_stack = [".".join(parts[:-1])]
        cur = stack[-1]
        cnode, _ = loader.find(cur)
        if not isinstance(cnode, ast.ClassDef) or len(cnode.bases) != 1 or not isinstance(cnode.bases[0], ast.Name):
            raise Undecided(f"super() in a class with other than one named base ({cur})")
        base = ".".join(cur.split(".")[:-1] + [cnode.bases[0].id])
        try:
            bnode, _ = loader.find(base)
            init = [m for m in bnode.body if isinstance(m, ast.FunctionDef) and m.name == "__init__"]
        except KeyError:
            init = []
        if not init:
            raise Undecided(f"the base class {base} has no constructor in the source")
        fn = init[0]
        a = fn.args
        if a.vararg or a.kwarg or a.kwonlyargs or a.posonlyargs:
            raise Undecided("base constructor with starred / keyword-only parameters")
        params = [x.arg for x in a.args]
        args = [self.ev(x, st) for x in e.args]
        kwargs = {}
        for k in e.keywords:
            if k.arg is None:
                raise Undecided("** in a super().__init__ call")
            kwargs[k.arg] = self.ev(k.value, st)
        bound = {"self": st.env["self"]}
        bound.update(zip(params[1:], args))
        bound.update(kwargs)
        for p_, d_ in zip(params[len(params) - len(a.defaults):], a.defaults):
            if p_ not in bound:
                bound[p_] = self.ev(d_, st)          # defaults: evaluated afresh (the contract's inputs decide whether a default object is shared)
        if any(p_ not in bound for p_ in params) or any(k_ not in params for k_ in kwargs):
            raise Undecided("arguments of super().__init__ do not match the base constructor")
        saved = st.env
        # the base constructor sees its own parameters (module-level names and builtins are found by name resolution), plus the ghost state
        st.env = dict({k: v for k, v in saved.items() if k.startswith("__")}, **bound)
        stack.append(base)
        nret = len(self.returns)
        try:
            outs = self.run(loader.strip_docstring(fn), st)
        finally:
            stack.pop()
        recs = self.returns[nret:]
        del self.returns[nret:]
        ways = [(r.st, r.exc) for r in recs] + [(o, None) for o in outs]
        if len(ways) != 1:
            st.env = saved
            raise Undecided(f"the base constructor of {cur} has {len(ways)} ways out")
        st_out, exc = ways[0]
        ghost = {k: v for k, v in st_out.env.items() if k.startswith("__")}
        if st_out is not st:
            st.pc, st.heap, st.trace, st.writes = st_out.pc, st_out.heap, st_out.trace, st_out.writes
        st.env = saved
        st.env.update(ghost)
        if exc is not None:
            raise PyRaise(exc, f"raised by the constructor of {base}")
        return NONE

    def ev_Call(self, e, st):
        if self.spec_mode and isinstance(e.func, ast.Name) and e.func.id in self.SPEC_FORMS:
            return self.spec_ev(e, st)
        if isinstance(e.func, ast.Attribute) and e.func.attr == "__init__" and isinstance(e.func.value, ast.Call) and isinstance(e.func.value.func, ast.Name) \
                and e.func.value.func.id == "super" and not e.func.value.args:
            return self.super_init(e, st)
        f = self.ev(e.func, st)
        args = []
        for a in e.args:
            if isinstance(a, ast.Starred):
                v = self.ev(a.value, st)
                if isinstance(v, LRef):
                    args.extend(st.heap[v.sid].items)
                elif isinstance(v, (Tup, tuple)):
                    args.extend(v)
                else:
                    raise Undecided("* of symbolic sequence")
            else:
                args.append(self.ev(a, st))
        kwargs = {}
        for k in e.keywords:
            if k.arg is None:
                v = self.ev(k.value, st)
                if not isinstance(v, DictV):
                    raise Undecided("** of non-dict in call")
                kwargs.update(v.items)
            else:
                kwargs[k.arg] = self.ev(k.value, st)
        return self.call(st, f, args, kwargs, e)

    def call(self, st, f, args, kwargs, node):
        if isinstance(f, OpaqueV):
            return OpaqueV(f.name + "()")
        if isinstance(f, FuncV):
            return f.fn(self, st, args, kwargs, node)
        if isinstance(f, ClsV) and getattr(f, "ctor", None) is not None:
            return f.ctor(self, st, args, kwargs, node)       # a class that is both tested with isinstance and called
        from .contract import Contract
        if isinstance(f, Contract):
            return self.call_contract(st, f, args, kwargs, node)
        if is_z3(f) or isinstance(f, z3.FuncDeclRef):
            return f(*[lit(a) for a in args])
        if callable(f):
            return f(*[lit(a) if not isinstance(a, (ARef, ORef, Tup, StrV, NoneV)) else a for a in args])
        raise Undecided(f"call of {type(f).__name__} at line {node.lineno}")

    def call_contract(self, st, c, args, kwargs, node):
        """Modular call: assert the callee's precondition, havoc its frame, assume its postcondition."""
        line = getattr(node, "lineno", 0)
        env = c.bind(self, st, args, kwargs)
        callee_st = State(env, st.pc, None, st.trace)
        callee_st.heap = st.heap            # shared heap (callee contract speaks about the caller's objects)
        saved_k, saved_entry = self.k, self.entry
        self.k = c
        try:
            self.entry = None
            for j, r in enumerate(c.requires):
                g = self.spec(r, callee_st)
                self.add_obl(f"call-pre[{c.short}#{j}@{line}]", "call-pre", st, g, line, r)
            old = State(env, st.pc, None, st.trace)
            old.heap = dict(st.heap)
            for k, v in st.heap.items():
                if isinstance(v, ObjData):
                    old.heap[k] = ObjData(v.cls, v.fields, v.owner)
                elif isinstance(v, ListData):
                    old.heap[k] = ListData(v.items, v.owner)
            self.entry = old
            # exceptional behaviour of the callee: the caller continues only on normal return
            for exc, cond in c.raises.items():
                g = self.spec(cond, callee_st)
                st.pc.append(z3.Not(g))
            res = c.make_result(self, st, env) if c.make_result else None
            if c.havoc:
                c.havoc(self, st, env)
            callee_st.env = dict(env)
            callee_st.env["result"] = res
            callee_st.pc = st.pc
            for r in c.ensures:
                st.pc.append(self.spec(r, callee_st))
            if c.trace_op:
                st.trace.append((c.trace_op, [env.get(p) for p in c.params]))
            return res
        finally:
            self.k, self.entry = saved_k, saved_entry

    # ------------------------------------------------------------------ specs
    def spec(self, text, st):
        self.spec_mode += 1
        try:
            t = ast.parse(text.strip(), mode="eval").body
            return lit(self.spec_ev(t, st))
        finally:
            self.spec_mode -= 1

    def spec_ev(self, t, st):
        if isinstance(t, ast.Call) and isinstance(t.func, ast.Name):
            name = t.func.id
            if name in ("forall", "exists"):
                vs = t.args[0]
                names = [vs.id] if isinstance(vs, ast.Name) else [x.id for x in vs.elts]
                st2 = st.fork()
                zs = []
                for nm in names:
                    z = z3.Int(nm + "?")
                    st2.env[nm] = z
                    zs.append(z)
                none = lambda a: isinstance(a, ast.Constant) and a.value is None      # open bound
                lo = None if none(t.args[1]) else lit(self.spec_ev(t.args[1], st2))
                hi = None if none(t.args[2]) else lit(self.spec_ev(t.args[2], st2))
                body = lit(self.spec_ev(t.args[3], st2))
                rng = z3.And(*([z >= lo for z in zs if lo is not None] + [z < hi for z in zs if hi is not None]))
                if name == "forall":
                    return z3.ForAll(zs, z3.Implies(rng, body))
                return z3.Exists(zs, z3.And(rng, body))
            if name == "forall_real":
                nm = t.args[0].id
                st2 = st.fork()
                z = z3.Real(nm + "?")
                st2.env[nm] = z
                return z3.ForAll([z], lit(self.spec_ev(t.args[1], st2)))
            if name == "implies":
                a = z3.simplify(truth(self.spec_ev(t.args[0], st)))
                if z3.is_false(a):          # lazy: the consequent may be ill-typed when the antecedent is false (None patterns)
                    return z3.BoolVal(True)
                return z3.Implies(a, truth(self.spec_ev(t.args[1], st)))
            if name == "iff":
                return truth(self.spec_ev(t.args[0], st)) == truth(self.spec_ev(t.args[1], st))
            if name == "old":
                if self.entry is None:
                    raise Undecided("old() outside a function body")
                o = self.entry.fork()
                for k, v in st.env.items():          # quantified variables, loop counters, later locals stay visible
                    o.env.setdefault(k, v)
                for k, v in st.heap.items():         # storage allocated after entry
                    o.heap.setdefault(k, v)
                res = self.spec_ev(t.args[0], o)
                if isinstance(res, ARef) and res.sid in self.entry.heap and st.heap.get(res.sid) is not self.entry.heap[res.sid]:
                    # an array that was written in place since entry: old(a) is a snapshot of its content at entry (a bare reference would be read
                    # in the current state by the enclosing expression, e.g. old(a)[i])
                    snap = self.new_sid("old")
                    st.heap[snap] = self.entry.heap[res.sid]
                    return ARef(snap)
                return res
            if name == "ite":
                c = truth(self.spec_ev(t.args[0], st))
                a, b = coerce(self.spec_ev(t.args[1], st), self.spec_ev(t.args[2], st))
                return z3.If(c, a, b)
        if isinstance(t, ast.BoolOp):
            # short-circuit like Python: later operands may be ill-defined once an earlier one decides (e.g. `_k == 0 or <uses a loop local>`)
            vs = []
            for v in t.values:
                x = truth(self.spec_ev(v, st))
                xs = z3.simplify(x)
                if isinstance(t.op, ast.Or) and z3.is_true(xs):
                    return z3.BoolVal(True)
                if isinstance(t.op, ast.And) and z3.is_false(xs):
                    return z3.BoolVal(False)
                vs.append(x)
            return z3.And(*vs) if isinstance(t.op, ast.And) else z3.Or(*vs)
        if isinstance(t, ast.UnaryOp) and isinstance(t.op, ast.Not):
            return z3.Not(truth(self.spec_ev(t.operand, st)))
        # generic expression: evaluated on a forked state so that a spec cannot disturb the program state
        return self.ev(t, st.fork())

    # ------------------------------------------------------------------ statements
    def run(self, stmts, st):
        cur = [st]
        for stmt in stmts:
            nxt = []
            for c in cur:
                if c.flag is not None:
                    nxt.append(c)
                else:
                    nxt += self.stmt(stmt, c)
            cur = nxt
        return cur

    def stmt(self, n, st):
        m = getattr(self, "st_" + type(n).__name__, None)
        if m is None:
            raise Undecided(f"statement {type(n).__name__} at line {n.lineno}")
        simple = isinstance(n, (ast.Assign, ast.AugAssign, ast.AnnAssign, ast.Expr, ast.Return))
        snap = st.fork() if simple and self.k is not None and getattr(self.k, "conditional_raises", False) else None
        try:
            return m(n, st)
        except PyRaise as pr:
            if not simple and not isinstance(n, (ast.Raise, ast.Assert, ast.Delete)):
                raise Undecided(f"{pr} raised inside the header of a compound statement at line {n.lineno}")
            self.returns.append(ReturnRec(st, None, pr.exc, n.lineno))
            return []
        except PyRaiseIf as pr:
            if snap is None:
                raise Undecided(f"a call that may raise ({pr}) outside a simple statement at line {n.lineno}")
            s_exc = snap.fork()
            s_exc.pc.append(pr.cond)
            self.returns.append(ReturnRec(s_exc, None, pr.exc, n.lineno))
            snap.pc.append(z3.simplify(z3.Not(pr.cond)))
            return self.stmt(n, snap)        # the statement again from its start, on the way on which this call does not raise

    def st_Expr(self, n, st):
        if isinstance(n.value, ast.Constant):
            return [st]
        if isinstance(n.value, ast.Call):
            f = n.value.func
            # output-only calls are dropped (listed under extraction_drops in the evidence)
            if isinstance(f, ast.Attribute) and isinstance(f.value, ast.Name) and f.value.id in ("logger", "warnings", "logging"):
                return [st]
            if isinstance(f, ast.Name) and f.id == "print":
                return [st]
            self.ev(n.value, st)
            return [st]
        raise Undecided(f"expression statement at line {n.lineno}")

    def st_Pass(self, n, st):
        return [st]

    def st_Assign(self, n, st):
        v = self.ev(n.value, st)
        for t in n.targets:
            self.assign(t, v, st, n)
        return [st]

    def st_AugAssign(self, n, st):
        tgt = n.target
        if isinstance(tgt, ast.Subscript) and not isinstance(tgt.slice, (ast.Slice, ast.Tuple)):
            base = self.ev(tgt.value, st)
            if isinstance(base, ARef) and self.arr(st, base).rank == 1:
                probe = st.fork()
                idx = self.ev(tgt.slice, probe)
                if isinstance(idx, ARef) and self.arr(probe, idx).elem == "bool":
                    # a[mask] op= scalar: in place, the selected elements only
                    idx = self.ev(tgt.slice, st)
                    d, dm = self.arr(st, base), self.arr(st, idx)
                    rhs = self.ev(n.value, st)
                    if isinstance(rhs, ARef):
                        raise Undecided("masked augmented assignment with an array on the right")
                    if not z3.eq(z3.simplify(d.shape[0]), z3.simplify(dm.shape[0])):
                        self.safe(st, "mask-length", d.shape[0] == dm.shape[0], n)
                    i = z3.Int("i!s")
                    new = lit(self.scalar_binop(n.op, self.sel1(d, i), rhs, st, n))
                    if d.elem == "real":
                        new = real(new)
                    self.write_arr(st, base, ArrData(d.shape, z3.Lambda([i], z3.If(self.sel1(dm, i), new, self.sel1(d, i))), d.elem, d.owner, d.view_of), n)
                    return [st]
        cur = self.ev(tgt, st)
        rhs = self.ev(n.value, st)
        if isinstance(cur, ARef):
            # numpy augmented assignment is in place: same storage, new content
            d = self.arr(st, cur)
            tmp = self.binop(n.op, cur, rhs, st, n)
            nd = self.arr(st, tmp)
            self.write_arr(st, cur, ArrData(d.shape, nd.data, nd.elem if d.elem != "real" else "real", d.owner, d.view_of), n)
            return [st]
        if isinstance(cur, LRef):
            raise Undecided("augmented assignment on list")
        v = self.binop(n.op, cur, rhs, st, n)
        self.assign(tgt, v, st, n)
        return [st]

    def write_arr(self, st, ref, newdata, node):
        old = st.heap[ref.sid]
        if old.view_of is not None:
            raise Undecided(f"in-place write through a view at line {getattr(node, 'lineno', '?')}")
        if old.owner != "fresh":
            st.writes.append((old.owner, f"array {ref.sid}", getattr(node, "lineno", 0)))
        st.heap[ref.sid] = newdata

    def assign(self, tgt, val, st, node):
        if isinstance(tgt, ast.Name):
            sdn = getattr(self.k, "sym_dicts", ()) if self.k is not None else ()
            if tgt.id in sdn and isinstance(val, DictV) and not val.items:
                from . import objects
                val = objects.new_symdict(self, st, name=tgt.id)
            sl = getattr(self.k, "sym_lists", {}) if self.k is not None else {}
            if tgt.id in sl and sl[tgt.id] == "str" and isinstance(val, LRef) and all(isinstance(x, StrV) for x in st.heap[val.sid].items):
                # a list of strings that grows by a symbolic number of entries: only its length is tracked (strings are opaque)
                from . import objects
                val = objects.new_symlist(self, st, objects.STR_LIST, length=z3.IntVal(len(st.heap[val.sid].items)), name=tgt.id)
            elif tgt.id in sl and isinstance(val, LRef) and not st.heap[val.sid].items:
                from . import objects
                cls = sl[tgt.id]
                val = objects.new_symlist(self, st, cls if cls not in ("real", "int", "bool", "boolarr", "realarr") else None, name=tgt.id,
                                          elem_sort={"real": R, "int": I, "bool": B, "boolarr": z3.ArraySort(I, B), "realarr": z3.ArraySort(I, R)}.get(cls))
            st.env[tgt.id] = val
            return
        if isinstance(tgt, (ast.Tuple, ast.List)):
            if isinstance(val, LRef):
                val = Tup(st.heap[val.sid].items)
            if isinstance(val, ARef) and self.arr(st, val).rank == 1:
                # x, y = row: the elements of a 1-D array whose length is the number of targets
                d = self.arr(st, val)
                n1 = z3.simplify(d.shape[0])
                if not (z3.is_int_value(n1) and n1.as_long() == len(tgt.elts)):
                    self.safe(st, "unpack-elements", d.shape[0] == len(tgt.elts), node)
                val = Tup(self.sel1(d, z3.IntVal(k)) for k in range(len(tgt.elts)))
            if isinstance(val, ARef) and self.arr(st, val).rank == 2:
                # a, b, c = array2d: iteration over the first axis (the number of rows must be the number of targets)
                d = self.arr(st, val)
                nrows = z3.simplify(d.shape[0])
                if not (z3.is_int_value(nrows) and nrows.as_long() == len(tgt.elts)):
                    self.safe(st, "unpack-rows", d.shape[0] == len(tgt.elts), node)
                val = Tup(self.alloc_arr(st, (d.shape[1],), self.lam1(lambda c, _r=r: self.sel2(d, z3.IntVal(_r), c)), d.elem, d.owner, view_of=val.sid)
                          for r in range(len(tgt.elts)))
            if not isinstance(val, (Tup, tuple)) or len(val) != len(tgt.elts):
                raise Undecided(f"unpacking at line {node.lineno}")
            for t, v in zip(tgt.elts, val):
                self.assign(t, v, st, node)
            return
        if isinstance(tgt, ast.Attribute):
            o = self.ev(tgt.value, st)
            from . import objects as _objs
            if isinstance(o, _objs.SObj) and getattr(self.k, "sobj_setattr", None) is not None:
                # a write to a field of a symbolic object: the contract keeps such fields in ghost maps (objects reached through symbolic lists are
                # otherwise read-only)
                self.k.sobj_setattr(self, st, o, tgt.attr, val, node)
                return
            if isinstance(o, OpaqueV):
                return           # a setting of an opaque library object (display cosmetics): no effect on anything modelled
            if not isinstance(o, ORef):
                raise Undecided("attribute store on non-object")
            od = st.heap[o.oid]
            if od.owner != "fresh":
                st.writes.append((od.owner, f"{od.cls}.{tgt.attr}", node.lineno))
            sl = getattr(self.k, "sym_lists", {}) if self.k is not None else {}
            key = ast.unparse(tgt)
            if key in sl and isinstance(val, LRef) and not st.heap[val.sid].items:
                # `self.items = []` for a list the contract tracks symbolically (it grows in a loop)
                cls = sl[key]
                val = _objs.new_symlist(self, st, cls if cls not in ("real", "int", "bool", "boolarr", "realarr") else None, name=key,
                                        elem_sort={"real": R, "int": I, "bool": B, "boolarr": z3.ArraySort(I, B), "realarr": z3.ArraySort(I, R)}.get(cls))
            od.fields[tgt.attr] = val
            return
        if isinstance(tgt, ast.Subscript):
            base = self.ev(tgt.value, st)
            if isinstance(base, CplxV):
                # z[i] = w / z[mask] = w on an opaque complex array held in a local name: the name now denotes the array after the store
                if not isinstance(tgt.value, ast.Name) or isinstance(tgt.slice, (ast.Slice, ast.Tuple)):
                    raise Undecided("store into an opaque complex array that is not a local name, or through a slice")
                st.env[tgt.value.id] = CplxV(CSTORE(base.term, self.cplx_id(st, self.ev(tgt.slice, st)), self.cplx_id(st, val)))
                return
            if isinstance(base, ARef):
                return self.store_arr(st, base, tgt.slice, val, node)
            from . import objects
            if isinstance(base, objects.SDRef):
                objects.symdict_store(self, st, base, self.ev(tgt.slice, st), val, node)
                return
            if isinstance(base, DictV):
                k = self.ev(tgt.slice, st)
                if not isinstance(k, StrV):
                    raise Undecided("dict store with non-constant key")
                if base.owner != "fresh":
                    st.writes.append((base.owner, f"dict[{k.s!r}]", node.lineno))
                base.items[k.s] = val
                return
            if isinstance(base, LRef):
                i = z3.simplify(lit(self.ev(tgt.slice, st)))
                ld = st.heap[base.sid]
                if z3.is_int_value(i) and -len(ld.items) <= i.as_long() < len(ld.items):
                    if ld.owner != "fresh":
                        st.writes.append((ld.owner, "list item", node.lineno))
                    ld.items[i.as_long()] = val
                    return
                raise Undecided("list store")
        raise Undecided(f"assignment target {type(tgt).__name__} at line {node.lineno}")

    def store_arr(self, st, ref, sl, val, node):
        d = self.arr(st, ref)

        def elem_at(v, *idx):
            if isinstance(v, ARef):
                dv = self.arr(st, v)
                return self.sel1(dv, idx[0]) if dv.rank == 1 else self.sel2(dv, *idx)
            if hasattr(v, "as_float") and d.elem == "real":
                return v.as_float()          # numpy converts a numeric string stored into a float array: float(text)
            v = lit(v)
            if d.elem == "real":
                return real(v)
            return v
        if d.rank == 1:
            if isinstance(sl, ast.Slice):
                lo, hi = self.slice_bounds(sl, d.shape[0], st)
                i = z3.Int("i!s")
                if isinstance(val, ARef):
                    dv = self.arr(st, val)
                    self.safe(st, "slice-store-length", dv.shape[0] == z3.If(hi > lo, hi - lo, 0), node)
                    body = z3.If(z3.And(i >= lo, i < hi), elem_at(val, i - lo), self.sel1(d, i))
                else:
                    body = z3.If(z3.And(i >= lo, i < hi), elem_at(val), self.sel1(d, i))
                self.write_arr(st, ref, ArrData(d.shape, z3.Lambda([i], body), d.elem, d.owner, d.view_of), node)
                return
            idx = self.ev(sl, st)
            if isinstance(idx, ARef):
                di = self.arr(st, idx)
                if di.elem == "bool":
                    i = z3.Int("i!s")
                    if isinstance(val, ARef):
                        raise Undecided("mask store of array")
                    body = z3.If(self.sel1(di, i), elem_at(val), self.sel1(d, i))
                    self.write_arr(st, ref, ArrData(d.shape, z3.Lambda([i], body), d.elem, d.owner, d.view_of), node)
                    return
                raise Undecided("fancy store")
            k = self.norm_index(idx, d.shape[0])
            self.safe(st, "store-index", z3.And(k >= 0, k < d.shape[0]), node)
            self.write_arr(st, ref, ArrData(d.shape, z3.Store(d.data, k, elem_at(val)), d.elem, d.owner, d.view_of), node)
            return
        # rank 2
        r, c = z3.Ints("r!s c!s")
        if isinstance(sl, ast.Tuple) and len(sl.elts) == 2:
            a, b = sl.elts
            if isinstance(a, ast.Slice) and not isinstance(b, ast.Slice):
                if not (a.lower is None and a.upper is None):
                    raise Undecided("partial column store")
                cc = self.norm_index(self.ev(b, st), d.shape[1])
                self.safe(st, "col-store", z3.And(cc >= 0, cc < d.shape[1]), node)
                if isinstance(val, ARef):
                    dv = self.arr(st, val)
                    if not z3.eq(z3.simplify(dv.shape[0]), z3.simplify(d.shape[0])):
                        self.safe(st, "col-store-length", dv.shape[0] == d.shape[0], node)
                newv = elem_at(val, r)
                body = z3.If(c == cc, newv, self.sel2(d, r, c))
                self.write_arr(st, ref, ArrData(d.shape, L2(r, c, body), d.elem, d.owner, d.view_of), node)
                return
            if isinstance(a, ast.Slice) and isinstance(b, ast.Slice):
                if not (a.lower is None and a.upper is None):
                    raise Undecided("partial block store")
                lo, hi = self.slice_bounds(b, d.shape[1], st)
                if isinstance(val, ARef):
                    dv = self.arr(st, val)
                    self.safe(st, "block-store-shape", z3.And(dv.shape[0] == d.shape[0], dv.shape[1] == z3.If(hi > lo, hi - lo, 0)), node)
                    newv = self.sel2(dv, r, c - lo)
                else:
                    newv = elem_at(val)
                body = z3.If(z3.And(c >= lo, c < hi), newv, self.sel2(d, r, c))
                self.write_arr(st, ref, ArrData(d.shape, L2(r, c, body), d.elem, d.owner, d.view_of), node)
                return
            if not isinstance(a, ast.Slice) and not isinstance(b, ast.Slice):
                rr = self.norm_index(self.ev(a, st), d.shape[0])
                cc = self.norm_index(self.ev(b, st), d.shape[1])
                self.safe(st, "store-index2", z3.And(rr >= 0, rr < d.shape[0], cc >= 0, cc < d.shape[1]), node)
                body = z3.If(z3.And(r == rr, c == cc), elem_at(val), self.sel2(d, r, c))
                self.write_arr(st, ref, ArrData(d.shape, L2(r, c, body), d.elem, d.owner, d.view_of), node)
                return
            if not isinstance(a, ast.Slice) and isinstance(b, ast.Slice):
                if not (b.lower is None and b.upper is None):
                    raise Undecided("partial row store")
                rr = self.norm_index(self.ev(a, st), d.shape[0])
                self.safe(st, "row-store", z3.And(rr >= 0, rr < d.shape[0]), node)
                if isinstance(val, ARef):
                    dv = self.arr(st, val)
                    self.safe(st, "row-store-length", dv.shape[0] == d.shape[1], node)
                body = z3.If(r == rr, elem_at(val, c), self.sel2(d, r, c))
                self.write_arr(st, ref, ArrData(d.shape, L2(r, c, body), d.elem, d.owner, d.view_of), node)
                return
        if isinstance(sl, ast.Slice):
            lo, hi = self.slice_bounds(sl, d.shape[0], st)
            if isinstance(val, ARef):
                dv = self.arr(st, val)
                if dv.rank != 2:
                    raise Undecided("row-block store of 1-D value")
                self.safe(st, "rows-store-shape", z3.And(dv.shape[0] == z3.If(hi > lo, hi - lo, 0), dv.shape[1] == d.shape[1]), node)
                newv = self.sel2(dv, r - lo, c)
            else:
                newv = elem_at(val)
            body = z3.If(z3.And(r >= lo, r < hi), newv, self.sel2(d, r, c))
            self.write_arr(st, ref, ArrData(d.shape, L2(r, c, body), d.elem, d.owner, d.view_of), node)
            return
        idx = self.ev(sl, st)
        if isinstance(idx, ARef):
            di = self.arr(st, idx)
            if di.elem == "bool" and di.rank == 2 and not isinstance(val, ARef):
                # a[mask2d] = scalar: the scalar where the mask (same shape) is True
                if not (z3.eq(z3.simplify(di.shape[0]), z3.simplify(d.shape[0])) and z3.eq(z3.simplify(di.shape[1]), z3.simplify(d.shape[1]))):
                    self.safe(st, "mask-store-shape", z3.And(di.shape[0] == d.shape[0], di.shape[1] == d.shape[1]), node)
                body = z3.If(self.sel2(di, r, c), elem_at(val), self.sel2(d, r, c))
                self.write_arr(st, ref, ArrData(d.shape, L2(r, c, body), d.elem, d.owner, d.view_of), node)
                return
            raise Undecided("fancy row store")
        rr = self.norm_index(idx, d.shape[0])
        self.safe(st, "row-store", z3.And(rr >= 0, rr < d.shape[0]), node)
        if isinstance(val, ARef):
            dv = self.arr(st, val)
            if not z3.eq(z3.simplify(dv.shape[0]), z3.simplify(d.shape[1])):
                self.safe(st, "row-store-length", dv.shape[0] == d.shape[1], node)
            if getattr(self.k, "native_row_store", False) and dv.rank == 1 and dv.elem == d.elem:
                # the row becomes the value's storage term itself (array-theory store on the nested array): same content as the
                # element-wise form below, but a row that is an uninterpreted array term stays one
                self.write_arr(st, ref, ArrData(d.shape, z3.Store(d.data, rr, dv.data), d.elem, d.owner, d.view_of), node)
                return
        body = z3.If(r == rr, elem_at(val, c), self.sel2(d, r, c))
        self.write_arr(st, ref, ArrData(d.shape, L2(r, c, body), d.elem, d.owner, d.view_of), node)

    def _mergeable(self, stmts):
        for x in stmts:
            if isinstance(x, (ast.Assign, ast.AugAssign, ast.Pass)):
                continue
            if isinstance(x, ast.Expr):
                continue
            if isinstance(x, ast.If) and self._mergeable(x.body) and self._mergeable(x.orelse):
                continue
            return False
        return True

    def _merge_states(self, c, a, b):
        """join two straight-line branch states: value = If(c, then, else); returns None if the states cannot be joined"""
        out = a.fork()
        for k in set(a.env) | set(b.env):
            if k not in a.env or k not in b.env:
                # defined on one side only: keep it (reading it on the other path would be a NameError in Python as well)
                out.env[k] = a.env.get(k, b.env.get(k))
                if k not in a.env or k not in b.env:
                    va = a.env.get(k, b.env.get(k))
                    if not isinstance(va, StrV) and not k.startswith("__"):
                        return None
                continue
            va, vb = a.env[k], b.env[k]
            if va is vb:
                continue
            if isinstance(va, StrV) and isinstance(vb, StrV):
                out.env[k] = va if va.s == vb.s else StrV("<str>")
                continue
            if isinstance(va, ARef) and isinstance(vb, ARef) and va.sid == vb.sid:
                continue
            la, lb = lit(va), lit(vb)
            if is_z3(la) and is_z3(lb):
                if la.eq(lb):
                    continue
                la, lb = coerce(la, lb)
                out.env[k] = z3.If(c, la, lb)
                continue
            if isinstance(va, dict) and isinstance(vb, dict):
                continue
            return None
        for sid in set(a.heap) | set(b.heap):
            ha, hb = a.heap.get(sid), b.heap.get(sid)
            if ha is None or hb is None:
                out.heap[sid] = ha if ha is not None else hb
                continue
            if ha is hb:
                continue
            if isinstance(ha, ArrData) and isinstance(hb, ArrData):
                if len(ha.shape) != len(hb.shape) or any(not z3.eq(z3.simplify(x), z3.simplify(y)) for x, y in zip(ha.shape, hb.shape)) or ha.elem != hb.elem:
                    return None
                out.heap[sid] = ha if ha.data.eq(hb.data) else ArrData(ha.shape, z3.If(c, ha.data, hb.data), ha.elem, ha.owner, ha.view_of)
                continue
            if isinstance(ha, ObjData) and isinstance(hb, ObjData):
                fields = {}
                for fk in set(ha.fields) | set(hb.fields):
                    fa, fb = ha.fields.get(fk), hb.fields.get(fk)
                    if fa is fb:
                        fields[fk] = fa
                    elif fa is not None and fb is not None and is_z3(lit(fa)) and is_z3(lit(fb)):
                        x, y = coerce(fa, fb)
                        fields[fk] = z3.If(c, x, y)
                    elif isinstance(fa, ARef) and isinstance(fb, ARef) and fa.sid == fb.sid:
                        fields[fk] = fa
                    else:
                        return None
                out.heap[sid] = ObjData(ha.cls, fields, ha.owner)
                continue
            if isinstance(ha, ListData) and isinstance(hb, ListData) and len(ha.items) == len(hb.items) and all(x is y for x, y in zip(ha.items, hb.items)):
                continue
            return None
        # path condition: common prefix, then the branch-specific facts guarded by the condition
        n0 = 0
        while n0 < len(a.pc) and n0 < len(b.pc) and a.pc[n0] is b.pc[n0]:
            n0 += 1
        out.pc = list(a.pc[:n0])
        for f in a.pc[n0:]:
            if not f.eq(c):
                out.pc.append(z3.Implies(c, f))
        for f in b.pc[n0:]:
            if not (z3.is_not(f) and f.arg(0).eq(c)):
                out.pc.append(z3.Implies(z3.Not(c), f))
        out.writes = list(a.writes) + [w for w in b.writes if w not in a.writes]
        return out

    def st_If(self, n, st):
        c = z3.simplify(truth(self.ev(n.test, st)))
        if z3.is_true(c):
            return self.run(n.body, st)
        if z3.is_false(c):
            return self.run(n.orelse, st)
        opt = self._refine_optionals(st, c)
        if opt is not None:
            a, b = opt
            self.cover.append((f"branch-true@{n.lineno}", list(a.pc)))
            self.cover.append((f"branch-false@{n.lineno}", list(b.pc)))
            return self.run(n.body, a) + self.run(n.orelse, b)
        if self._mergeable(n.body) and self._mergeable(n.orelse):
            a, b = st.fork(), st.fork()
            a.pc.append(c)
            b.pc.append(z3.Not(c))
            nret = len(self.returns)
            ra, rb = self.run(n.body, a), self.run(n.orelse, b)
            if len(ra) == 1 and len(rb) == 1 and len(self.returns) == nret and ra[0].flag is None and rb[0].flag is None:
                m = self._merge_states(c, ra[0], rb[0])
                if m is not None:
                    self.cover.append((f"branch-true@{n.lineno}", list(a.pc[:len(st.pc) + 1])))
                    self.cover.append((f"branch-false@{n.lineno}", list(b.pc[:len(st.pc) + 1])))
                    return [m]
            # not joinable: fall back to path splitting (obligations emitted in the trial run stay valid: they were
            # generated under the respective branch condition)
            return ra + rb
        a, b = st.fork(), st.fork()
        a.pc.append(c)
        b.pc.append(z3.Not(c))
        self.cover.append((f"branch-true@{n.lineno}", list(a.pc)))
        self.cover.append((f"branch-false@{n.lineno}", list(b.pc)))
        return self.run(n.body, a) + self.run(n.orelse, b)

    def _refine_optionals(self, st, c):
        """if the branch condition is the None-test of optional values, fork with those names rebound to None / the scalar"""
        pos, neg = [], []
        for nm, v in st.env.items():
            if isinstance(v, OptV):
                t = z3.simplify(v.isnone)
                if t.eq(c):
                    pos.append(nm)
                elif z3.simplify(z3.Not(t)).eq(c):
                    neg.append(nm)
        if not pos and not neg:
            return None
        a, b = st.fork(), st.fork()
        a.pc.append(c)
        b.pc.append(z3.Not(c))
        for nm in pos:
            a.env[nm], b.env[nm] = NONE, st.env[nm].val
        for nm in neg:
            a.env[nm], b.env[nm] = st.env[nm].val, NONE
        return a, b

    def st_Return(self, n, st):
        v = NONE if n.value is None else self.ev(n.value, st)
        self.returns.append(ReturnRec(st, v, None, n.lineno))
        return []

    def st_Raise(self, n, st):
        if n.exc is None:
            raise Undecided("bare raise")
        exc = n.exc.func.id if isinstance(n.exc, ast.Call) and isinstance(n.exc.func, ast.Name) else (n.exc.id if isinstance(n.exc, ast.Name) else None)
        if exc is None and isinstance(n.exc, ast.Call) and isinstance(n.exc.func, ast.Attribute) and isinstance(n.exc.func.value, ast.Name) \
                and n.exc.func.attr[:1].isupper() and n.exc.func.attr.endswith(("Error", "Exception", "Warning")):
            exc = n.exc.func.attr                   # raise module.SomeException(...): named by its class (the message is not evaluated)
        if exc is None:
            raise Undecided("raise of expression")
        if isinstance(n.exc, ast.Name) and not (exc[:1].isupper() and exc.endswith(("Error", "Exception", "Warning"))):
            # `raise e` of a variable: the exception it is bound to, or - the name being unbound, as an exception variable is after its handler -
            # UnboundLocalError
            v = st.env.get(exc)
            exc = v.s[1:-1] if type(v) is StrV and v.s.startswith("<") and v.s.endswith(">") else ("UnboundLocalError" if v is None else None)
            if exc is None:
                raise Undecided("raise of a variable that is not an exception variable")
        self.returns.append(ReturnRec(st, None, exc, n.lineno))
        return []

    def st_Continue(self, n, st):
        st.flag = "continue"
        return [st]

    def st_Break(self, n, st):
        st.flag = "break"
        return [st]

    def st_Delete(self, n, st):
        for t in n.targets:
            if isinstance(t, ast.Name):
                st.env.pop(t.id, None)
            elif isinstance(t, ast.Subscript) and isinstance(self.ev(t.value, st), LRef) and not isinstance(t.slice, ast.Slice):
                # del items[i] on a concrete list with a definite index
                ref = self.ev(t.value, st)
                ld = st.heap[ref.sid]
                i = z3.simplify(lit(self.ev(t.slice, st)))
                if not (z3.is_int_value(i) and -len(ld.items) <= i.as_long() < len(ld.items)):
                    raise Undecided("del of a list item with an index that is not definite")
                if ld.owner != "fresh":
                    st.writes.append((ld.owner, "del list item", n.lineno))
                del ld.items[i.as_long()]
            else:
                raise Undecided("del of item")
        return [st]

    def st_With(self, n, st):
        # `with warnings.catch_warnings():` and similar context managers only sequence their body
        for item in n.items:
            ce = item.context_expr
            ok = isinstance(ce, ast.Call) and isinstance(ce.func, ast.Attribute) and isinstance(ce.func.value, ast.Name) \
                and (ce.func.value.id == "warnings" or (ce.func.value.id == "np" and ce.func.attr == "errstate"))      # floating-point warning state only
            if not ok and isinstance(ce, ast.Call) and isinstance(ce.func, ast.Name) and ce.func.id == "open" and "open" in self.module_env \
                    and (item.optional_vars is None or isinstance(item.optional_vars, ast.Name)):
                # `with open(name, mode) as f:` - the file object is what the contract's model of open() returns; closing is not modelled
                v = self.ev(ce, st)
                if item.optional_vars is not None:
                    st.env[item.optional_vars.id] = v
                ok = True
            if not ok and isinstance(ce, ast.Call) and isinstance(ce.func, ast.Name) and isinstance(self.module_env.get(ce.func.id), FuncV) \
                    and self.module_env[ce.func.id].attrs.get("context_manager") and (item.optional_vars is None or isinstance(item.optional_vars, ast.Name)):
                # `with Manager(...) as m:` for a manager the contract models (a worker pool): m is what the model returns; leaving the block is not modelled
                v = self.ev(ce, st)
                if item.optional_vars is not None:
                    st.env[item.optional_vars.id] = v
                ok = True
            if not ok and isinstance(ce, ast.Call) and item.optional_vars is None:
                try:
                    ok = isinstance(self.ev(ce, st.fork()), OpaqueV)      # a context manager of an opaque library object (display options): sequencing only
                except Undecided:
                    ok = False
            if not ok:
                raise Undecided(f"with-statement at line {n.lineno}")
        return self.run(n.body, st)

    def st_Try(self, n, st):
        """try/except: exceptions *raised by the modelled code* inside the body (raise statements, KeyError of a dict lookup) are routed to
        the matching handler; external calls are modelled by their non-raising contract, so a handler for their errors is unreachable here
        (reported under path-cover)."""
        if n.finalbody:
            # try ... [except ...] finally: the finally block runs on every way out of the rest - normal completion, an exception that is not handled,
            # a return - and the exit then continues as it was (an exception raised or a return made inside the finally block itself replaces it)
            inner = ast.Try(body=n.body, handlers=n.handlers, orelse=n.orelse, finalbody=[]) if (n.handlers or n.orelse) else None
            nret = len(self.returns)
            outs = self.st_Try(inner, st) if inner is not None else self.run(n.body, st)
            pending = self.returns[nret:]
            del self.returns[nret:]
            result = []
            for o in outs:
                if o.flag is not None:
                    raise Undecided("break / continue out of a try with a finally block")
                result += self.run(n.finalbody, o)
            for rec in pending:
                for o in self.run(n.finalbody, rec.st):
                    self.returns.append(ReturnRec(o, rec.value, rec.exc, rec.line))
            return result
        nret = len(self.returns)
        outs = self.run(n.body, st)
        new_recs = self.returns[nret:]
        del self.returns[nret:]
        result = []
        for rec in new_recs:
            handled = False
            if rec.exc is not None:
                for h in n.handlers:
                    names = []
                    if h.type is None:
                        names = None
                    elif isinstance(h.type, ast.Name):
                        names = [h.type.id]
                    elif isinstance(h.type, ast.Tuple):
                        names = [x.id for x in h.type.elts if isinstance(x, ast.Name)]
                    if names is None or rec.exc in names or "Exception" in names:
                        hs = rec.st
                        if h.name:
                            hs.env[h.name] = StrV(f"<{rec.exc}>")
                        hout = self.run(h.body, hs)
                        if h.name:                      # Python 3 unbinds the exception variable at the end of the handler
                            for o_ in hout:
                                o_.env.pop(h.name, None)
                        result += hout
                        handled = True
                        break
            if not handled:
                self.returns.append(rec)
        for o in outs:
            result += self.run(n.orelse, o) if n.orelse else [o]
        return result

    def st_FunctionDef(self, n, st):
        """nested `def f(params): ...`: inlined at its calls (defaults evaluated at definition, free names read at the call, as Python's late-binding
        closures do).  A body that is a single return expression is evaluated as an expression; any other body is executed statement by statement and
        must have exactly one way out for the arguments it is called with (one return, or one exception) - several ways out are undecided."""
        from . import loader
        body = loader.strip_docstring(n)
        a = n.args
        if n.decorator_list or a.vararg or a.kwarg or a.kwonlyargs or a.posonlyargs:
            raise Undecided("nested function definition with decorators or starred / keyword-only parameters")
        single = len(body) == 1 and isinstance(body[0], ast.Return) and body[0].value is not None
        if not single:
            assigned_free = {y.id for x in body for y in ast.walk(x) if isinstance(y, (ast.Nonlocal, ast.Global))}
            if assigned_free:
                raise Undecided("nested function definition with nonlocal / global names")
        params = [x.arg for x in a.args]
        defaults = {p: self.ev(d, st) for p, d in zip(params[len(params) - len(a.defaults):], a.defaults)}
        ret = body[0].value if single else None

        def fn(ex, s, args, kw, node):
            if len(args) > len(params) or any(k not in params for k in kw):
                raise Undecided(f"call of nested function {n.name}")
            bound = dict(defaults)
            bound.update(zip(params, args))
            bound.update(kw)
            if any(p not in bound for p in params):
                raise Undecided(f"missing argument in call of nested function {n.name}")
            saved = s.env
            s.env = dict(saved, **bound)
            if single:
                try:
                    return ex.ev(ret, s)
                finally:
                    ghost = {k: v for k, v in s.env.items() if k.startswith("__")}       # ghost state written by modelled callees survives the call
                    s.env = saved
                    s.env.update(ghost)
            nret = len(ex.returns)
            try:
                outs = ex.run(body, s)
            except BaseException:
                del ex.returns[nret:]
                s.env = saved
                raise
            recs = ex.returns[nret:]
            del ex.returns[nret:]
            ways = [(r.st, r.value, r.exc) for r in recs] + [(o, NONE, None) for o in outs]        # falling off the end returns None
            if len(ways) != 1:
                s.env = saved
                raise Undecided(f"nested function {n.name} has {len(ways)} ways out for these arguments at line {getattr(node, 'lineno', '?')}")
            st_out, value, exc = ways[0]
            if st_out.flag is not None:
                s.env = saved
                raise Undecided(f"break / continue leaves nested function {n.name}")
            ghost = {k: v for k, v in st_out.env.items() if k.startswith("__")}
            if st_out is not s:              # the body forked (a branch, a handler): the caller continues in the state of the one way out
                s.pc, s.heap, s.trace, s.writes = st_out.pc, st_out.heap, st_out.trace, st_out.writes
            s.env = saved
            s.env.update(ghost)
            if exc is not None:
                raise PyRaise(exc, f"raised by nested function {n.name}")
            return value
        st.env[n.name] = FuncV(fn, n.name)
        return [st]

    # ---- loops
    def assigned(self, body):
        names, stores, aug, plain = set(), set(), set(), set()
        for x in ast.walk(ast.Module(body=body, type_ignores=[])):
            targets = []
            if isinstance(x, ast.Assign):
                targets = x.targets
                for t in x.targets:
                    for y in ast.walk(t):
                        if isinstance(y, ast.Name) and isinstance(y.ctx, ast.Store):
                            plain.add(y.id)
            elif isinstance(x, ast.AugAssign):
                targets = [x.target]
            elif isinstance(x, ast.For):
                targets = [x.target]
                for y in ast.walk(x.target):
                    if isinstance(y, ast.Name):
                        plain.add(y.id)
            for t in targets:
                for y in ast.walk(t):
                    if isinstance(y, ast.Name) and isinstance(y.ctx, ast.Store):
                        names.add(y.id)
                    if isinstance(y, (ast.Subscript, ast.Attribute)) and isinstance(y.ctx, ast.Store):
                        b = y
                        while isinstance(b, (ast.Subscript, ast.Attribute)):
                            b = b.value
                        if isinstance(b, ast.Name):
                            stores.add(b.id)
            if isinstance(x, ast.AugAssign) and isinstance(x.target, ast.Name):
                stores.add(x.target.id)
                aug.add(x.target.id)
            if isinstance(x, ast.Call) and isinstance(x.func, ast.Attribute) and x.func.attr in ("append", "extend"):
                b = x.func.value
                while isinstance(b, (ast.Subscript, ast.Attribute)):      # self.items.append(...): a store into the object `self`
                    b = b.value
                if isinstance(b, ast.Name):
                    stores.add(b.id)
        # a name that is only ever augmented-assigned keeps its storage (numpy += is in place)
        return names, stores, (aug - plain)

    def havoc_value(self, st, nm, v, promote_real=False, rebound=True):
        if isinstance(v, ARef):
            d = st.heap[v.sid]
            shape = d.shape
            sort = z3.ArraySort(I, sort_of(d.elem)) if d.rank == 1 else A2(sort_of(d.elem))
            if rebound:
                # the name may be rebound to another array in the loop: new storage, unknown content, same rank;
                # shape kept only if the contract says so (loop_shapes) - otherwise fresh shape
                keep = nm in getattr(self.k, "stable_shapes", ())
                if not keep:
                    shape = tuple(self.fresh(f"{nm}_dim", I) for _ in d.shape)
                    for s in shape:
                        st.pc.append(s >= 0)
                return self.alloc_arr(st, shape, self.fresh(nm, sort), d.elem, "fresh", tag=nm)
            st.heap[v.sid] = ArrData(shape, self.fresh(nm, sort), d.elem, d.owner, d.view_of)
            return v
        v = lit(v)
        if is_z3(v):
            s = v.sort()
            if promote_real and s == I:
                s = R
            return self.fresh(nm, s)
        if isinstance(v, (Tup, tuple)):
            return Tup(self.havoc_value(st, nm, x, promote_real, rebound) for x in v)
        if isinstance(v, NoneV):
            raise Undecided(f"loop-modified variable {nm} is None before the loop")
        raise Undecided(f"cannot havoc {nm} of type {type(v).__name__}")

    def havoc(self, st, names, stores, promote=(), aug_only=()):
        for nm in sorted(names | stores):
            if nm not in st.env:
                continue
            v = st.env[nm]
            from . import objects
            if isinstance(v, objects.SLRef):
                objects.symlist_havoc(self, st, v, nm)
                continue
            if isinstance(v, objects.SDRef):
                objects.symdict_havoc(self, st, v, nm)
                continue
            if isinstance(v, objects.SObj):
                if nm in names and nm not in stores:
                    st.env[nm] = objects.SObj(v.cls, self.fresh(nm, I), v.owner)
                    continue
                raise Undecided(f"symbolic object {nm} written in a loop")
            if isinstance(v, LRef):
                hook = getattr(self.k, "list_havoc", {}).get(nm)
                if hook is None:
                    raise Undecided(f"list {nm} modified in a loop without a list model in the contract")
                st.env[nm] = hook(self, st, v)
                continue
            if isinstance(v, (ORef, DictV)):
                hook = getattr(self.k, "obj_havoc", {}).get(nm)
                if hook is None:
                    if nm in names and nm not in stores:
                        # rebound object handle (e.g. the loop's own iteration variable): handled by binder
                        continue
                    raise Undecided(f"object {nm} modified in a loop without a havoc model in the contract")
                st.env[nm] = hook(self, st, v)
                continue
            st.env[nm] = self.havoc_value(st, nm, v, nm in promote,
                                          rebound=(nm in names and nm not in aug_only))

    def iter_spec(self, n, st):
        """Return (count, binder(st, k), unroll_items|None) for the iterable of a for loop."""
        it = n.iter

        def as_seq(v):
            if isinstance(v, ARef):
                d = self.arr(st, v)
                if d.rank == 1:
                    return d.shape[0], (lambda s, k, _d=d: self.sel1(s.heap[v.sid] if v.sid in s.heap else _d, k)), None
                return d.shape[0], (lambda s, k: self.alloc_arr(s, (d.shape[1],), self.lam1(lambda c: self.sel2(d, k, c)), d.elem, d.owner, view_of=v.sid)), None
            if isinstance(v, SeqV):
                return v.length, (lambda s, k: v.getter(self, s, k)), None
            if isinstance(v, MaskedV) and self.arr(st, v.arr).rank == 2:
                # iteration over the rows selected by a boolean mask: the selected rows in increasing order of their index.  The enumeration idx[0..count) of the
                # True positions gets the characterisation np.where has (A-NP-WHERE); it is kept in the state (ghost __selidx) so that specifications can name it
                from . import npmodel
                dv, dm = self.arr(st, v.arr), self.arr(st, v.mask)
                cnt = npmodel.mask_count(dm)
                idx = self.fresh("selected_rows", z3.ArraySort(I, I))
                t, u, k = z3.Ints("t!it u!it k!it")
                nrow = dv.shape[0]
                st.pc += [cnt >= 0,
                          z3.ForAll([t], z3.Implies(z3.And(t >= 0, t < cnt), z3.And(idx[t] >= 0, idx[t] < nrow, z3.Select(dm.data, idx[t])))),
                          z3.ForAll([t, u], z3.Implies(z3.And(t >= 0, t < u, u < cnt), idx[t] < idx[u])),
                          z3.ForAll([k], z3.Implies(z3.And(k >= 0, k < nrow, z3.Select(dm.data, k)), z3.Exists([t], z3.And(t >= 0, t < cnt, idx[t] == k))))]
                st.env["__selidx"] = Tup((idx, cnt))
                return cnt, (lambda s, k_, _d=dv, _v=v: self.alloc_arr(s, (_d.shape[1],), self.lam1(lambda c: self.sel2(_d, z3.Select(idx, k_), c)), _d.elem, _d.owner,
                                                                      view_of=_v.arr.sid)), None
            from . import objects
            if isinstance(v, objects.SLRef):
                return st.heap[v.sid].length, (lambda s, k, _v=v: objects.symlist_get(self, s, _v, k)), None
            if isinstance(v, LRef):
                items = list(st.heap[v.sid].items)
                return z3.IntVal(len(items)), None, items
            if isinstance(v, (Tup, tuple)):
                return z3.IntVal(len(v)), None, list(v)
            raise Undecided(f"iteration over {type(v).__name__} at line {n.lineno}")
        if isinstance(it, ast.Call) and isinstance(it.func, ast.Name) and it.func.id == "range":
            args = [as_int(self.ev(a, st)) for a in it.args]
            if len(args) == 1:
                lo, hi = z3.IntVal(0), args[0]
            elif len(args) == 2:
                lo, hi = args
            else:
                raise Undecided("range with step")
            count = z3.simplify(z3.If(hi > lo, hi - lo, z3.IntVal(0)))
            cnt = z3.simplify(count)
            if z3.is_int_value(cnt) and cnt.as_long() <= 8 and z3.is_int_value(z3.simplify(lo)):
                l0 = z3.simplify(lo).as_long()
                return count, None, [z3.IntVal(l0 + j) for j in range(cnt.as_long())]
            return count, (lambda s, k: k + lo), None
        if isinstance(it, ast.Call) and isinstance(it.func, ast.Name) and it.func.id == "enumerate":
            start = z3.IntVal(0)
            if len(it.args) == 2:
                start = as_int(self.ev(it.args[1], st))
            for kw in it.keywords:
                if kw.arg == "start":
                    start = as_int(self.ev(kw.value, st))
            count, getter, items = as_seq(self.ev(it.args[0], st))
            if items is not None:
                return count, None, [Tup((z3.simplify(start + j), x)) for j, x in enumerate(items)]
            return count, (lambda s, k: Tup((k + start, getter(s, k)))), None
        if isinstance(it, ast.Call) and isinstance(it.func, ast.Name) and it.func.id == "zip":
            parts = [as_seq(self.ev(a, st)) for a in it.args]
            if all(p[2] is not None for p in parts):
                m = min(len(p[2]) for p in parts)
                return z3.IntVal(m), None, [Tup(p[2][j] for p in parts) for j in range(m)]
            if any(p[2] is not None for p in parts):
                raise Undecided("zip of concrete and symbolic sequences")
            count = parts[0][0]
            for p in parts[1:]:
                count = zmin(count, p[0])
            return z3.simplify(count), (lambda s, k: Tup(p[1](s, k) for p in parts)), None
        if isinstance(it, ast.Call) and isinstance(it.func, ast.Attribute) and it.func.attr == "items":
            v = self.ev(it.func.value, st)
            if isinstance(v, DictV):
                items = [Tup((StrV(k), x)) for k, x in v.items.items()]
                return z3.IntVal(len(items)), None, items
            from . import objects
            if isinstance(v, objects.SDRef):
                return as_seq(objects.symdict_items(self, st, v))
            raise Undecided("items() of symbolic dict")
        return as_seq(self.ev(it, st))

    def st_For(self, n, st):
        lid = self.loop_ids[id(n)]
        count, getter, items = self.iter_spec(n, st)
        if items is not None and lid not in (self.k.loops if self.k else {}):
            # concrete short sequence: unroll
            cur = [st]
            out = []
            for x in items:
                nxt = []
                for c in cur:
                    self.assign(n.target, x, c, n)
                    for e in self.run(n.body, c):
                        if e.flag == "break":
                            e.flag = None
                            out.append(e)
                        else:
                            e.flag = None
                            nxt.append(e)
                cur = nxt
            done = []
            for c in cur:
                done += self.run(n.orelse, c) if n.orelse else [c]
            return done + out
        if items is not None:
            seq_items = items
            getter = None
            raise Undecided(f"invariants given for a loop over a concrete sequence at line {n.lineno} (unroll expected)")
        if self.k is None or lid not in self.k.loops:
            raise Undecided(f"loop at line {n.lineno} (ordinal {lid}) has no invariant in the contract")
        invs = self.k.loops[lid]
        kname = f"_k{lid}"
        saved_obls0, saved_rets0, saved_cover0 = len(self.obls), len(self.returns), len(self.cover)
        names, stores, aug_only = self.assigned(n.body)
        tnames = {y.id for y in ast.walk(n.target) if isinstance(y, ast.Name)}
        mod_names = names - tnames
        # objects first bound inside the loop and used after it (e.g. the loop variable rebound to a copy): pre-bound by the contract's
        # factory so that invariants may mention them (guarded by `_k == 0 or ...`), havoced through the contract's obj_havoc model
        for nm, fac in getattr(self.k, "loop_born", {}).items():
            if nm in (names | tnames) and nm not in st.env:
                st = st.fork()
                st.env[nm] = fac(self, st, None)
                mod_names = mod_names | {nm}
        # ghost state the contract's method models update (e.g. a map object id -> content): written by calls, invisible to the syntactic scan
        gs_ = getattr(self.k, "ghost_state", ())
        if callable(gs_):                 # the ghost state this loop can write may depend on where the loop is entered (which of several recorders is current)
            gs_ = gs_(self, st, n)
        mod_names = mod_names | {g for g in gs_ if g in st.env}
        # --- initialisation
        st0 = st.fork()
        st0.env[kname] = z3.IntVal(0)
        st0.env["_k"] = z3.IntVal(0)
        for j, inv in enumerate(invs):
            try:
                g = self.spec(inv, st0)
            except Undecided as ex:
                raise Undecided(f"invariant L{lid}#{j} cannot be evaluated at loop entry: {ex}")
            self.add_obl(f"inv-init[L{lid}#{j}@{n.lineno}]", "inv-init", st0, g, n.lineno, inv)
        # --- names first bound inside the loop body (e.g. `majority_dt`): discover them with a dry run of the body (obligations discarded) and
        # pre-bind them to arbitrary values so that invariants may mention them, guarded by `_k == 0 or ...`
        if any(nm not in st.env for nm in mod_names) and not getattr(self, "_born_pass", False):
            so, sr, sc = len(self.obls), len(self.returns), len(self.cover)
            born = {}
            try:
                dry = st.fork()
                self.havoc(dry, mod_names & set(st.env), stores & set(st.env), (), aug_only)
                kk = self.fresh(kname, I)
                dry.env[kname] = kk
                dry.env["_k"] = kk
                dry.pc += [kk >= 0, kk < count]
                self.assign(n.target, getter(dry, kk), dry, n)
                for e in self.run(n.body, dry):
                    for nm in mod_names:
                        v_ = e.env.get(nm)
                        if nm not in st.env and v_ is not None and not isinstance(v_, (ARef, ORef, LRef, Tup, StrV, NoneV, DictV)) and is_z3(lit(v_)):
                            born.setdefault(nm, lit(v_).sort())
            except Undecided:
                born = {}
            finally:
                del self.obls[so:]
                del self.returns[sr:]
                del self.cover[sc:]
            if born:
                st = st.fork()
                for nm, sort_ in born.items():
                    st.env[nm] = self.fresh(nm + "_unbound", sort_)
        # --- arbitrary iteration (with sort promotion retry)
        promote = set()
        for attempt in range(3):
            body_st = st.fork()
            saved_obls, saved_rets, saved_cover = len(self.obls), len(self.returns), len(self.cover)
            self.havoc(body_st, mod_names, stores, promote, aug_only)
            k = self.fresh(kname, I)
            body_st.env[kname] = k
            body_st.env["_k"] = k
            body_st.pc += [k >= 0, k < count]
            for inv in invs:
                body_st.pc.append(self.spec(inv, body_st))
            before = dict(body_st.env)
            self.assign(n.target, getter(body_st, k), body_st, n)
            self.cover.append((f"loop-body@{n.lineno}", list(body_st.pc)))
            ends = self.run(n.body, body_st)
            changed = set()
            for e in ends:
                for nm in mod_names:
                    a, b = before.get(nm), e.env.get(nm)
                    if is_z3(lit(a)) and is_z3(lit(b)) if a is not None and b is not None and not isinstance(a, (ARef, ORef, LRef, Tup, StrV, NoneV, DictV)) and not isinstance(b, (ARef, ORef, LRef, Tup, StrV, NoneV, DictV)) else False:
                        if lit(a).sort() == I and lit(b).sort() == R:
                            changed.add(nm)
            if changed - promote:
                promote |= changed
                del self.obls[saved_obls:]
                del self.returns[saved_rets:]
                del self.cover[saved_cover:]
                continue
            break
        exits = []
        for e in ends:
            if e.flag == "break":
                e.flag = None
                e.env.pop("_k", None)
                exits.append(e)
                continue
            e.flag = None
            e.env[kname] = k + 1
            e.env["_k"] = k + 1
            self.add_chain([f"inv-pres[L{lid}#{j}@{n.lineno}]" for j in range(len(invs))], "inv-pres", e, invs, n.lineno)
        # --- normal exit
        out = st.fork()
        self.havoc(out, mod_names, stores, promote, aug_only)
        out.env[kname] = count
        out.env["_k"] = count
        out.pc.append(count >= 0)
        for inv in invs:
            out.pc.append(self.spec(inv, out))
        # the loop variable keeps its last value
        try:
            last = out.fork()
            self.assign(n.target, getter(out, count - 1), out, n)
        except Undecided:
            pass
        done = self.run(n.orelse, out) if n.orelse else [out]
        return done + exits

    def st_While(self, n, st):
        lid = self.loop_ids[id(n)]
        if self.k is None or lid not in self.k.loops:
            raise Undecided(f"while loop at line {n.lineno} has no invariant")
        invs = self.k.loops[lid]
        meas = self.k.measures.get(lid)
        for j, inv in enumerate(invs):
            self.add_obl(f"inv-init[L{lid}#{j}@{n.lineno}]", "inv-init", st, self.spec(inv, st), n.lineno, inv)
        names, stores, aug_only = self.assigned(n.body)
        b = st.fork()
        self.havoc(b, names, stores, (), aug_only)
        for inv in invs:
            b.pc.append(self.spec(inv, b))
        guard = z3.simplify(truth(self.ev(n.test, b)))
        out = b.fork()
        out.pc.append(z3.Not(guard))
        b.pc.append(guard)
        m0 = self.spec(meas, b) if meas else None
        self.cover.append((f"loop-body@{n.lineno}", list(b.pc)))
        ends = self.run(n.body, b)
        exits = []
        for e in ends:
            if e.flag == "break":
                e.flag = None
                exits.append(e)
                continue
            e.flag = None
            self.add_chain([f"inv-pres[L{lid}#{j}@{n.lineno}]" for j in range(len(invs))], "inv-pres", e, invs, n.lineno)
            if meas:
                m1 = self.spec(meas, e)
                self.add_obl(f"dec[L{lid}@{n.lineno}]", "dec", e, z3.And(m0 >= 0, m1 < m0), n.lineno, meas)
        if meas is None:
            raise Undecided(f"while loop at line {n.lineno} has no decreases measure")
        res = exits
        if not z3.is_true(guard):
            res = res + (self.run(n.orelse, out) if n.orelse else [out])
        return res
