"""Check driver:  python3-vt -m pyvc.check <Cxx> --tier quick|thorough   (cwd /verif)

exit 0  property held on everything explored (every obligation discharged, or undecided obligations covered by the
        bounded fallback without a failing input; known findings printed as KNOWN-FINDING lines)
exit 1  at least one `VIOLATION property=<id> replay=<path>` line
exit 3  checker error (vacuous precondition, zero obligations, crash of the machinery itself)
`unknown`, time-outs and tracebacks of the solvers are never mapped to a violation.
"""
import argparse
import importlib
import json
import os
import re
import subprocess
import sys
import time
import traceback

HERE = os.path.dirname(os.path.dirname(os.path.abspath(__file__)))
if HERE not in sys.path:
    sys.path.insert(0, HERE)

from pyvc import loader, solve, verify  # noqa: E402
from pyvc.contract import FunctionTask, LemmaTask, StructTask  # noqa: E402

VENV_PY = "/venv/bin/python"
EXTRACTION_DROPS = [
    "docstrings", "calls on logger / print / warnings.warn (output only)", "content of f-string messages (kept as opaque strings)",
    "decorators are interpreted, not dropped: @njit = compiled by numba from this source (translation trusted, bounded differential"
    " check in C02); @staticmethod/@classmethod/@property handled by the contract's parameter list",
]


def slug(s):
    return re.sub(r"[^A-Za-z0-9_.-]+", "_", s)[:150]


def load_known():
    p = os.path.join(HERE, "known_findings.json")
    if not os.path.exists(p):
        return {"findings": [], "fixed": []}
    with open(p) as f:
        return json.load(f)


def known_match(known, pid, key):
    for f in known.get("findings", []):
        if f.get("property") == pid and f.get("key") and f["key"] in key:
            return f
    return None


def run_harness(pid, tier, seed, extra=(), timeout=3600):
    """Native run-time evaluation of the executable contracts on the real code (bounded stand-in + CPython cross-check)."""
    mod = os.path.join(HERE, "bounded", f"{pid}.py")
    if not os.path.exists(mod):
        return None
    out = os.path.join(HERE, "evidence", f".{pid}.harness.json")
    if os.path.exists(out):
        os.remove(out)
    env = dict(os.environ)
    env["PYTHONPATH"] = f"{loader.REPO}:{HERE}"
    env["VERIF_SEED"] = str(seed)
    env["VERIF_TIER"] = tier
    env.setdefault("MPLBACKEND", "Agg")
    env["PYTHONWARNINGS"] = "ignore"
    cmd = [VENV_PY, "-W", "ignore", "-m", f"bounded.{pid}", "--tier", tier, "--seed", str(seed), "--out", out] + list(extra)
    t = time.time()
    try:
        p = subprocess.run(cmd, cwd=HERE, env=env, capture_output=True, text=True, timeout=timeout)
    except subprocess.TimeoutExpired:
        return {"error": "harness timeout", "clauses": [], "wall_s": time.time() - t}
    if not os.path.exists(out):
        return {"error": f"harness produced no result (rc={p.returncode}): {p.stderr[-1500:]}", "clauses": [], "wall_s": time.time() - t}
    with open(out) as f:
        res = json.load(f)
    os.remove(out)
    res["wall_s"] = time.time() - t
    res["cmd"] = "PYTHONPATH=/repo:/verif " + " ".join(cmd[:1] + cmd[3:])
    return res


def check_property(pid, tier, seed):
    t0 = time.time()
    mod = importlib.import_module(f"contracts.{pid}")
    meta = dict(getattr(mod, "META", {}))
    try:
        # the level texts of tools/claims.py (one source for MANIFEST and evidence): what was brought under contract after META was written
        ns = {"claim": lambda *a, **k: None, "CLAIMS": {}}
        src = open(os.path.join(HERE, "tools", "claims.py")).read()
        i, j = src.index("for _pid, (_t, _n, _tech) in S4.items()"), src.index("S4_ASSUME = {")
        exec(src[:i] + "\n" + src[j:], ns)
        if pid in ns.get("S4", {}):
            meta["explanation"] = (meta.get("explanation", "") + " | " + ns["S4"][pid][0]).strip(" |")
        extra = ns.get("S4_ASSUME", {}).get(pid, [])
        meta["assumptions"] = list(meta.get("assumptions", [])) + [a for a in extra if a not in meta.get("assumptions", [])]
        meta["trusted_base"] = list(meta.get("trusted_base", [])) + [a for a in extra if a not in meta.get("trusted_base", [])]
    except Exception:
        pass
    tasks = list(getattr(mod, "TASKS", []))
    timeout = 20 if tier == "quick" else 60
    # the native evaluation of the contracts runs concurrently with VC generation and solving
    from concurrent.futures import ThreadPoolExecutor
    pool = ThreadPoolExecutor(max_workers=1)
    harness_future = pool.submit(run_harness, pid, tier, seed)
    ts = time.time()
    harness_file = os.path.join(HERE, "evidence", f".{pid}.harness.json")
    iso = verify.run_isolated(tasks, timeout_s=timeout, all_backends=(tier == "thorough"), harness_file=harness_file)
    results, all_obls, verdicts, cover_v = [], [], [], []
    for d in iso:
        r = verify.TaskResult(d["label"])
        r.undecided, r.info = d["undecided"], d["info"]
        results.append(r)
        all_obls += d["obls"]
        verdicts += d["verdicts"]
        cover_v += d["covers"]
    # obligation names unique
    seen = {}
    for o, v in zip(all_obls, verdicts):
        if o.name in seen:
            seen[o.name] += 1
            o.name = v.name = f"{o.name}~{seen[o.name]}"
        else:
            seen[o.name] = 0
    solver_time = time.time() - ts
    undecided_fns = [(r.label, r.undecided) for r in results if r.undecided]
    # a textual structural expectation that is not met is not a refutation of the property (see contract.StructTask)
    text_mismatch = [v for v in verdicts if v.status == "refuted" and v.kind == "struct-text"]
    refuted = [v for v in verdicts if v.status == "refuted" and v.kind != "struct-text"]
    unknown = [v for v in verdicts if v.status == "unknown"]
    skipped = [v for v in verdicts if v.status == "skipped"]
    discharged = [v for v in verdicts if v.status == "discharged"]
    vacuous = [c for c in cover_v if c.kind == "pre-sat" and c.status == "UNSATISFIABLE"]
    # vacuity of postconditions: a function configuration none of whose normal exits is reachable under its precondition has its postconditions proved
    # about nothing (a contradictory invariant or model would do that) - it is not counted as decided
    exits = {}
    for c in cover_v:
        if c.kind == "path-cover" and ":path-cover[return@" in c.name:
            exits.setdefault(c.name.split(":path-cover[")[0], []).append(c.status)
    for fnq, sts in sorted(exits.items()):
        if sts and all(x == "UNSATISFIABLE" for x in sts) and any(v.kind == "post" and v.name.startswith(fnq + ":") for v in verdicts):
            undecided_fns.append((fnq, "no normal exit is reachable under the precondition and the loop invariants: the postconditions would hold vacuously"))

    # ---- native harness (cross-check of every contract + the bounded clauses); focus on failing functions first
    candidates = [v for v in verdicts if v.status == "candidate"] + text_mismatch
    focus = sorted({v.name.split(":")[0].split("[")[0] for v in refuted + unknown + candidates} | {lbl.split("[")[0] for lbl, _ in undecided_fns})
    harness = harness_future.result()
    pool.shutdown()
    if focus and harness and not harness.get("error"):
        # directed search: more native effort on the functions the prover complained about, unless a failing input is already known
        have = {f.get("function", "") for cl in harness.get("clauses", []) for f in cl.get("failures", [])}
        if not any(any(fc.split(".")[-1] in h for h in have) for fc in focus):
            extra = run_harness(pid, tier, seed + 1, extra=["--focus", ",".join(focus), "--only-focus"])
            if extra and not extra.get("error"):
                for cl in extra.get("clauses", []):
                    cl["name"] = cl["name"] + " [directed]"
                harness["clauses"] += extra.get("clauses", [])

    known = load_known()
    os.makedirs(os.path.join(HERE, "replays", pid), exist_ok=True)
    violations, known_hits, lines = [], [], []

    harness_failures = []
    if harness:
        for cl in harness.get("clauses", []):
            for f in cl.get("failures", []):
                f = dict(f)
                f["clause"] = cl["name"]
                harness_failures.append(f)

    def failures_for(fn_label):
        if fn_label in ("struct", "lemma") or fn_label.startswith("struct"):
            return list(harness_failures)       # structural obligations concern the whole property: any concrete failure replays them
        short = fn_label.split(".")[-1].split("[")[0]
        return [f for f in harness_failures if short and short in (f.get("function", "") + " " + f.get("clause", ""))]

    # (1) refuted obligations
    reported_fns = set()
    for v in refuted:
        fn = v.name.split(":")[0]
        key = v.name
        kf = known_match(known, pid, key)
        if kf:
            known_hits.append(kf)
            continue
        if fn in reported_fns:
            continue
        reported_fns.add(fn)
        fails = failures_for(fn)
        rp = os.path.join("replays", pid, slug(v.name) + ".json")
        body = dict(property=pid, kind="refuted-obligation", obligation=v.name, function=fn, backend=v.backend, solver_output=v.model[:4000],
                    solver_trace=v.detail, failing_input=(fails[0] if fails else None),
                    replay_cmd=f"cd /verif && python3-vt -m pyvc.check --replay {rp}",
                    note=("counter-model replayed on the real code: the native evaluation of the same contract fails on the input below"
                          if fails else "the solver refuted the obligation; no concrete failing input was found by the native search"))
        with open(os.path.join(HERE, rp), "w") as f:
            json.dump(body, f, indent=1, default=str)
        violations.append((rp, "" if fails else " no-failing-input-found", v.name))
    # (2) concrete failures found by the native evaluation of the contracts (bounded clauses / cross-check)
    for f in harness_failures:
        key = f"{f.get('clause', '')}:{f.get('function', '')}:{f.get('signature', '')}"
        kf = known_match(known, pid, key)
        if kf:
            known_hits.append(kf)
            continue
        fnlab = f.get("function", "")
        if any(fnlab and fnlab.split(".")[-1] in rf for rf in reported_fns):
            continue
        tag = slug(f"{f.get('clause', 'clause')}__{f.get('function', '')}")
        rp = os.path.join("replays", pid, tag + ".json")
        if any(rp == x[0] for x in violations):
            continue
        body = dict(property=pid, kind="native-contract-failure", clause=f.get("clause"), function=f.get("function"), failing_input=f,
                    replay_cmd=f"cd /verif && python3-vt -m pyvc.check --replay {rp}")
        with open(os.path.join(HERE, rp), "w") as fh:
            json.dump(body, fh, indent=1, default=str)
        violations.append((rp, "", key))

    for kf in {k["key"]: k for k in known_hits}.values():
        lines.append(f"KNOWN-FINDING: property={pid} {kf['what']}")
    # known findings that are reported by construction (state signatures checked by the harness)
    for v in candidates:
        if v.kind == "struct-text":
            lines.append(f"UNDECIDED obligation={v.name} (the source no longer has the shape this structural argument expects; not a violation by itself) fallback=bounded [{v.detail}]")
            continue
        lines.append(f"UNDECIDED obligation={v.name} (unproved; goal-directed candidate counter-model not confirmed) fallback=bounded [{v.detail}]")
    for v in unknown:
        lines.append(f"UNDECIDED obligation={v.name} fallback=bounded({'harness ran' if harness else 'none'}) [{v.detail}]")
    for lbl, why in undecided_fns:
        lines.append(f"UNDECIDED function={lbl} reason={why[:300]} fallback=bounded")
    for rp, suffix, what in violations:
        lines.append(f"VIOLATION property={pid} replay={rp}{suffix}")

    n_obl = len(verdicts)
    n_dis = len(discharged)
    checker_error = None
    if not tasks and not harness:
        checker_error = "no tasks"
    if tasks and n_obl == 0 and not undecided_fns:
        checker_error = "zero obligations generated"
    if vacuous:
        checker_error = "vacuous precondition: " + ", ".join(c.name for c in vacuous)
    if harness and harness.get("error") and not violations:
        checker_error = "native harness failed: " + harness["error"][:500]

    by_kind, by_backend = {}, {}
    for v in verdicts:
        by_kind.setdefault(v.kind, [0, 0])
        by_kind[v.kind][0] += 1
        by_kind[v.kind][1] += v.status == "discharged"
        if v.status == "discharged":
            by_backend[v.backend] = by_backend.get(v.backend, 0) + 1
    fully_proved = bool(n_obl) and n_obl == n_dis and not undecided_fns
    level = meta.get("level", "proof") if fully_proved else "other"
    samples = []
    for o, v in list(zip(all_obls, verdicts))[:: max(1, len(all_obls) // 6 or 1)][:8]:
        samples.append(dict(obligation=o.name, kind=o.kind, clause=o.note, goal=o.goal, n_hyps=o.n_hyps, verdict=v.status,
                            backend=v.backend, time_s=round(v.time_s, 3)))
    coverage = dict(
        obligations=n_obl, discharged=n_dis,
        checker_cmd=f"cd /verif && python3-vt -m pyvc.check {pid} --tier {tier}",
        trusted_base=meta.get("trusted_base", []),
        functions_under_contract=[r.info for r in results if r.info],
        obligations_by_kind={k: dict(total=a, discharged=b) for k, (a, b) in by_kind.items()},
        by_backend=by_backend, solver_time_s=round(solver_time, 2),
        second_opinions=(sum(1 for v in verdicts if len(getattr(v, "agree", [])) >= 2) if tier == "thorough" else None),
        vacuity=dict(pre_sat=sum(c.kind == "pre-sat" and c.status == "satisfiable" for c in cover_v),
                     pre_sat_total=sum(c.kind == "pre-sat" for c in cover_v),
                     path_cover_sat=sum(c.kind == "path-cover" and c.status == "satisfiable" for c in cover_v),
                     path_cover_unknown=sum(c.kind == "path-cover" and c.status == "unknown" for c in cover_v),
                     path_cover_unreachable=[c.name for c in cover_v if c.kind == "path-cover" and c.status == "UNSATISFIABLE"]),
        undecided=[dict(obligation=v.name, trace=v.detail) for v in unknown + candidates] + [dict(function=a, reason=b) for a, b in undecided_fns],
        refuted=[dict(obligation=v.name, backend=v.backend) for v in refuted],
        bounded=[dict(clause=c["name"], kind=c.get("kind"), bound=c.get("bound"), cases=c.get("cases"), nontrivial=c.get("nontrivial"),
                      failures=len(c.get("failures", []))) for c in (harness or {}).get("clauses", [])],
        bounded_note="clauses listed under 'bounded' are run-time evaluations of the contracts on generated inputs; they are NOT counted in obligations/discharged",
        harness_cmd=(harness or {}).get("cmd"), harness_wall_s=round((harness or {}).get("wall_s", 0), 1),
        samples=samples, extraction_drops=EXTRACTION_DROPS,
        known_findings_reported=[k["key"] for k in known_hits],
        explanation=meta.get("explanation", ""),
        lemmas=[t.name for t in tasks if isinstance(t, LemmaTask)],
    )
    if level == "other" and not coverage["explanation"]:
        coverage["explanation"] = "not every obligation was discharged on this run; see 'undecided'/'refuted'"
    if not fully_proved:
        coverage["explanation"] = (coverage["explanation"] + " | THIS RUN: " + f"{n_dis}/{n_obl} obligations discharged, "
                                   f"{len(refuted)} refuted, {len(unknown) + len(candidates)} unknown, {len(undecided_fns)} functions outside the subset").strip(" |")
    if tier == "thorough":
        # mutation self-test of this property's contracts (tools/selfmut.py on scratch copies): a surviving mutant is a hole in a contract - recorded, not a
        # verdict about the property
        try:
            owner = {"acc_traditional": "C05", "acc_azimuthal": "C11", "drv_psd": "C17", "dispatch": "C01", "ctor_hvsr": "C12", "instr": "C17", "similar": "C12"}
            muts = [m for m in json.load(open(os.path.join(HERE, "tools", "mutants.json"))) if owner.get(m["module"], m["module"]) == pid]
            if muts:
                tags = sorted({m["module"] for m in muts})
                outs = []
                for tag in tags:
                    r = subprocess.run([sys.executable, os.path.join(HERE, "tools", "selfmut.py"), "-j", "4", tag], cwd=HERE, capture_output=True, text=True, timeout=7200)
                    outs += [l for l in r.stdout.splitlines() if l.split(" ")[0] in ("killed", "SURVIVED", "STALE", "NO-TASK")]
                coverage["mutation_selftest"] = dict(mutants=len(outs), killed=sum(l.startswith("killed") for l in outs),
                                                     survived=[l[:200] for l in outs if l.startswith("SURVIVED")], stale=[l[:200] for l in outs if l.startswith(("STALE", "NO-TASK"))])
                lines.append(f"MUTATION-SELFTEST {pid}: {coverage['mutation_selftest']['killed']}/{len(outs)} mutants of the contracted functions fail an obligation")
        except Exception as ex_:
            coverage["mutation_selftest"] = dict(error=str(ex_)[:300])
    ev = dict(property_id=pid, tier=tier, seed=seed, level=level, coverage=coverage,
              assumptions=meta.get("assumptions", []), wall_s=round(time.time() - t0, 2), violations=len(violations))
    os.makedirs(os.path.join(HERE, "evidence"), exist_ok=True)
    with open(os.path.join(HERE, "evidence", f"{pid}.json"), "w") as f:
        json.dump(ev, f, indent=1, default=str)
    print(f"[{pid}] tier={tier} functions={len([r for r in results if r.info])} obligations={n_obl} discharged={n_dis} refuted={len(refuted)} "
          f"unknown={len(unknown) + len(candidates)} undecided_functions={len(undecided_fns)} bounded_clauses={len((harness or {}).get('clauses', []))} "
          f"solver_s={solver_time:.1f} wall_s={time.time() - t0:.1f}")
    for ln in lines:
        print(ln)
    if violations:
        return 1
    if checker_error:
        print(f"CHECKER-ERROR {checker_error}")
        return 3
    return 0


def replay(path):
    with open(os.path.join(HERE, path) if not os.path.isabs(path) else path) as f:
        body = json.load(f)
    pid = body["property"]
    print(json.dumps({k: body[k] for k in body if k not in ("solver_output",)}, indent=1)[:4000])
    fi = body.get("failing_input")
    if fi and fi.get("replay"):
        rp = fi["replay"]
        res = run_harness(pid, rp.get("tier", "quick"), int(rp.get("seed", 0)), extra=["--replay", json.dumps(rp)])
        fails = [f for c in (res or {}).get("clauses", []) for f in c.get("failures", [])]
        print("replay on the current tree:", "FAILS (violation reproduced)" if fails else "passes")
        return 1 if fails else 0
    # no concrete input: re-run the check of the property
    return check_property(pid, "quick", 0)


def selfcheck():
    import z3
    ok = True
    for tool in (solve.Z3NEW, solve.Z3OLD, solve.CVC5, VENV_PY):
        try:
            subprocess.run([tool, "--version"], capture_output=True, timeout=20)
        except Exception as ex:
            print("missing tool", tool, ex)
            ok = False
    x = z3.Int("x")
    from pyvc.core import Obl
    v = solve.discharge([Obl("selfcheck", "lemma", [x > 1], x > 0)], timeout_s=10)
    ok &= v[0].status == "discharged"
    v = solve.discharge([Obl("selfcheck-neg", "lemma", [x > 0], x > 1)], timeout_s=10)
    ok &= v[0].status == "refuted"
    print("selfcheck", "ok" if ok else "FAILED", z3.get_version_string())
    return 0 if ok else 3


def main():
    ap = argparse.ArgumentParser()
    ap.add_argument("pid", nargs="?")
    ap.add_argument("--tier", default=os.environ.get("VERIF_TIER", "quick"))
    ap.add_argument("--seed", type=int, default=int(os.environ.get("VERIF_SEED", "0")))
    ap.add_argument("--replay")
    ap.add_argument("--selfcheck", action="store_true")
    a = ap.parse_args()
    os.chdir(HERE)
    if a.selfcheck:
        sys.exit(selfcheck())
    if a.replay:
        sys.exit(replay(a.replay))
    if a.tier not in ("quick", "thorough"):
        a.tier = "quick"
    try:
        rc = check_property(a.pid, a.tier, a.seed)
    except Exception:
        traceback.print_exc()
        print("CHECKER-ERROR crash of the checking machinery (not a verdict about the property)")
        rc = 3
    sys.exit(rc)


if __name__ == "__main__":
    main()
