"""Symbolic objects and symbolic-length lists of objects (Boogie-style: an object is an integer id, a field is a function of the id).

Used for the unbounded collections hvsrpy iterates over or builds (lists of recordings / windows).  Objects reached this way are
read-only in the verified functions; an attempt to write one of their fields makes the function undecided.
"""
import z3

from .core import I, R, B, ARef, Undecided, lit, as_int

_FUNCS = {}


def fld(cls, name, sort):
    key = (cls, name, str(sort))
    if key not in _FUNCS:
        _FUNCS[key] = z3.Function(f"fld_{cls}_{name}", I, sort)
    return _FUNCS[key]


def fld2(cls, name, sort):
    key = (cls, name, "data", str(sort))
    if key not in _FUNCS:
        _FUNCS[key] = z3.Function(f"fld_{cls}_{name}_at", I, I, sort)
    return _FUNCS[key]


# class -> field -> kind;  kinds: "real" | "int" | "bool" | ("obj", cls) | "arr" (1-D real array) | ("derived", fn(ex, st, sobj))
SCHEMA = {
    "TimeSeries": {
        "amplitude": "arr",
        "dt_in_seconds": "real",
        "n_samples": ("derived", lambda ex, st, o: arr_len("TimeSeries", "amplitude", o.id)),
        "fs": ("derived", lambda ex, st, o: 1 / fld("TimeSeries", "dt_in_seconds", R)(o.id)),
        "fnyq": ("derived", lambda ex, st, o: z3.RealVal("1/2") * (1 / fld("TimeSeries", "dt_in_seconds", R)(o.id))),
    },
    "HvsrTraditional": {
        "valid_peak_boolean_mask": "boolarr", "valid_window_boolean_mask": "boolarr",
        "_main_peak_frq": "arr", "_main_peak_amp": "arr", "n_curves": "int", "amplitude": "arr2", "frequency": "arr",
        "meta": ("derived", lambda ex, st, o: _opaque_meta(o)),
    },
    "HvsrCurve": {"frequency": "arr", "amplitude": "arr", "meta": ("derived", lambda ex, st, o: _opaque_meta(o))},
    "SeismicRecording3C": {
        "ns": ("obj", "TimeSeries"), "ew": ("obj", "TimeSeries"), "vt": ("obj", "TimeSeries"),
        "degrees_from_north": "real",
        # the recording's meta dictionary, opaque: one entry standing for "the entries of recording <id>"
        "meta": ("derived", lambda ex, st, o: _opaque_meta(o)),
    },
}


def _opaque_meta(o):
    from .core import DictV
    return DictV({"<entries of the recording's meta>": o.id})


def arr_term(cls, name):
    key = (cls, name, "array-term")
    if key not in _FUNCS:
        _FUNCS[key] = z3.Function(f"fld_{cls}_{name}_array", I, z3.ArraySort(I, R))
    return _FUNCS[key]


def arr_len(cls, name, oid):
    return fld(cls, name + "_len", I)(oid)


def arr_at(cls, name, oid, j):
    return fld2(cls, name, R)(oid, j)


class SObj:
    """Symbolic object: class name + integer id term."""

    def __init__(self, cls, oid, owner="param"):
        self.cls, self.id, self.owner = cls, oid, owner

    def __repr__(self):
        return f"SObj({self.cls},{self.id})"


def sobj_getattr(ex, st, o, attr, node=None):
    sch = SCHEMA.get(o.cls, {})
    if attr not in sch:
        key = f"{o.cls}.{attr}"
        if key in ex.registry:
            c = ex.registry[key]
            from .core import FuncV
            if isinstance(c, FuncV):       # method modelled directly (assumed / verified elsewhere)
                return FuncV(lambda ex_, s, args, kw, nd, _c=c, _v=o: _c.fn(ex_, s, [_v] + list(args), kw, nd), key)
            if c.is_property:
                return ex.call_contract(st, c, [o], {}, node)
            return FuncV(lambda ex_, s, args, kw, nd, _c=c, _v=o: ex_.call_contract(s, _c, [_v] + list(args), kw, nd), key)
        raise Undecided(f"field {o.cls}.{attr} of a symbolic object is not in the schema")
    kind = sch[attr]
    if kind == "real":
        return fld(o.cls, attr, R)(o.id)
    if kind == "int":
        return fld(o.cls, attr, I)(o.id)
    if kind == "bool":
        return fld(o.cls, attr, B)(o.id)
    if kind == "arr" and getattr(ex.k, "array_fields_as_terms", False):
        # the field's storage as one array-valued term of the object id (for contracts that pass it to opaque array functions)
        n = arr_len(o.cls, attr, o.id)
        return ex.alloc_arr(st, (n,), arr_term(o.cls, attr)(o.id), "real", owner=f"{o.owner}.{attr}", tag=f"{o.cls}_{attr}")
    if kind == "arr":
        n = arr_len(o.cls, attr, o.id)
        j = z3.Int("j!so")
        # array content as a view of the object's storage; owner marks it as not fresh
        key = ("sobj-arr", o.cls, attr, o.id.get_id())
        cache = st.env.setdefault("__sobj_arrays", {})
        if key in cache and cache[key].sid in st.heap:
            return cache[key]
        ref = ex.alloc_arr(st, (n,), z3.Lambda([j], arr_at(o.cls, attr, o.id, j)), "real", owner=f"{o.owner}.{attr}", tag=f"{o.cls}_{attr}")
        cache = dict(cache)
        cache[key] = ref
        st.env["__sobj_arrays"] = cache
        return ref
    if kind == "arr2":
        # 2-D real array field: rows x columns, content a function of (object, row, column)
        nr, nc = fld(o.cls, attr + "_rows", I)(o.id), fld(o.cls, attr + "_cols", I)(o.id)
        r, c = z3.Ints("r!so c!so")
        key = (o.cls, attr, "data3")
        if key not in _FUNCS:
            _FUNCS[key] = z3.Function(f"fld_{o.cls}_{attr}_at", I, I, I, R)
        from .core import L2
        return ex.alloc_arr(st, (nr, nc), L2(r, c, _FUNCS[key](o.id, r, c)), "real", owner=f"{o.owner}.{attr}", tag=f"{o.cls}_{attr}")
    if kind == "boolarr":
        n = arr_len(o.cls, attr, o.id)
        j = z3.Int("j!so")
        ref = ex.alloc_arr(st, (n,), z3.Lambda([j], fld2(o.cls, attr, B)(o.id, j)), "bool", owner=f"{o.owner}.{attr}", tag=f"{o.cls}_{attr}")
        # ghost: number of True entries (A-NP-SUM on a boolean mask), a function of the object
        st.heap[ref.sid].count_term = fld(o.cls, attr + "_count", I)(o.id)
        return ref
    if isinstance(kind, tuple) and kind[0] == "obj":
        return SObj(kind[1], fld(o.cls, attr, I)(o.id), owner=f"{o.owner}.{attr}")
    if isinstance(kind, tuple) and kind[0] == "derived":
        return kind[1](ex, st, o)
    raise Undecided(f"schema kind {kind}")


def wf_facts(cls, oid):
    """type invariants of a symbolic object (lengths non-negative, nested objects well formed)"""
    out = []
    for name, kind in SCHEMA.get(cls, {}).items():
        if kind == "arr":
            out.append(arr_len(cls, name, oid) >= 0)
        if isinstance(kind, tuple) and kind[0] == "obj":
            out += wf_facts(kind[1], fld(cls, name, I)(oid))
    return out


class SLRef:
    """Reference to a symbolic-length list of symbolic objects (or of scalars)."""

    def __init__(self, sid):
        self.sid = sid


class IdxStr(__import__("pyvc.core", fromlist=["StrV"]).StrV):
    """entry `index` of the symbolic-length list of opaque strings `list_sid`: opaque text, but it knows where it came from"""

    def __init__(self, list_sid, index):
        super().__init__("<entry of a list of strings>")
        self.list_sid, self.index = list_sid, index


STR_LIST = "<str>"        # class marker of a symbolic-length list of opaque strings (only the number of entries is tracked)


class SymListData:
    def __init__(self, length, arr, cls, owner="fresh"):
        self.length, self.arr, self.cls, self.owner = length, arr, cls, owner     # cls None => list of reals / ints (arr sort decides)


def new_symlist(ex, st, cls, length=None, arr=None, owner="fresh", name="list", elem_sort=None):
    sid = ex.new_sid(name)
    sort = I if cls is not None else (R if elem_sort is None else elem_sort)
    if length is None:
        length = z3.IntVal(0)
    if arr is None:
        if isinstance(sort, z3.ArraySortRef):
            arr = z3.K(I, z3.K(sort.domain(), z3.BoolVal(False) if sort.range() == B else z3.RealVal(0)))
        else:
            arr = z3.K(I, z3.IntVal(0) if sort == I else (z3.RealVal(0) if sort == R else z3.BoolVal(False)))
    st.heap[sid] = SymListData(length, arr, cls, owner)
    return SLRef(sid)


def symlist_get(ex, st, ref, i, node=None):
    d = st.heap[ref.sid]
    i = as_int(i)
    if node is not None:
        ex.safe(st, "list-index", z3.And(i >= 0, i < d.length), node)
    v = z3.Select(d.arr, i)
    if d.cls == STR_LIST:
        return IdxStr(ref.sid, i)
    if d.cls is not None:
        return SObj(d.cls, v, owner=d.owner)
    return v


def _opaque_elem(x):
    """strings in a symbolic-length list are opaque: only the number of entries is tracked (every string is the placeholder 0)"""
    from .core import StrV
    return z3.IntVal(0) if isinstance(x, StrV) else lit(x)


def symlist_append(ex, st, ref, x, node=None):
    d = st.heap[ref.sid]
    if d.owner != "fresh":
        st.writes.append((d.owner, "list.append", getattr(node, "lineno", 0)))
    from .core import StrV
    if d.cls == STR_LIST:
        if not isinstance(x, StrV):
            raise Undecided("append of a non-string to a list of strings")
        st.heap[ref.sid] = SymListData(d.length + 1, d.arr, d.cls, d.owner)
        return
    from .core import LRef
    if d.cls is None and isinstance(x, LRef) and isinstance(d.arr.sort().range(), z3.ArraySortRef) and d.arr.sort().range().range() == R \
            and all(not isinstance(y, (ARef, LRef, StrV)) for y in st.heap[x.sid].items):
        # a list of short lists of numbers ([x, y] pairs): the entry is the row of those numbers
        row = z3.K(I, z3.RealVal(0))
        for c, y in enumerate(st.heap[x.sid].items):
            from .core import real
            row = z3.Store(row, c, real(y))
        st.heap[ref.sid] = SymListData(d.length + 1, z3.Store(d.arr, d.length, row), d.cls, d.owner)
        return
    if d.cls is None and isinstance(x, ARef):
        # a list of arrays: the entry is the array's content (its length is not kept)
        da = ex.arr(st, x)
        if da.rank != 1 or d.arr.sort().range() != da.data.sort():
            raise Undecided("append of an array to a list of another element kind")
        st.heap[ref.sid] = SymListData(d.length + 1, z3.Store(d.arr, d.length, da.data), d.cls, d.owner)
        return
    if d.cls is not None:
        if not isinstance(x, SObj) or x.cls != d.cls:
            raise Undecided(f"append of {type(x).__name__} to a list of {d.cls}")
        v = x.id
    else:
        v = lit(x)
    st.heap[ref.sid] = SymListData(d.length + 1, z3.Store(d.arr, d.length, v), d.cls, d.owner)


def symlist_extend(ex, st, ref, other, node=None):
    d = st.heap[ref.sid]
    if d.owner != "fresh":
        st.writes.append((d.owner, "list.extend", getattr(node, "lineno", 0)))
    from .core import SeqV, LRef, StrV
    if d.cls == STR_LIST:
        if isinstance(other, SeqV):
            n = other.length
        elif isinstance(other, LRef) and all(isinstance(x, StrV) for x in st.heap[other.sid].items):
            n = len(st.heap[other.sid].items)
        elif isinstance(other, SLRef) and st.heap[other.sid].cls == STR_LIST:
            n = st.heap[other.sid].length
        else:
            raise Undecided("extend of a list of strings with this value")
        st.heap[ref.sid] = SymListData(d.length + n, d.arr, d.cls, d.owner)
        return
    if isinstance(other, SeqV) and d.cls is None:
        j = z3.Int("j!ext")
        arr = z3.Lambda([j], z3.If(j < d.length, z3.Select(d.arr, j), _opaque_elem(other.getter(ex, st, j - d.length))))
        st.heap[ref.sid] = SymListData(d.length + other.length, arr, d.cls, d.owner)
        return
    if not isinstance(other, SLRef):
        raise Undecided("extend with a non-symbolic list")
    o = st.heap[other.sid]
    j = z3.Int("j!ext")
    arr = z3.Lambda([j], z3.If(j < d.length, z3.Select(d.arr, j), z3.Select(o.arr, j - d.length)))
    st.heap[ref.sid] = SymListData(d.length + o.length, arr, d.cls, d.owner)


def symlist_havoc(ex, st, ref, name):
    d = st.heap[ref.sid]
    n = ex.fresh(f"{name}_len", I)
    st.pc.append(n >= 0)
    sort = d.arr.sort()
    st.heap[ref.sid] = SymListData(n, ex.fresh(f"{name}_items", sort), d.cls, d.owner)
    return ref


# derived attributes of *concrete* (ORef) objects; each mirrors a @property of the real class and is itself under contract
# (contracts/C18.py verifies TimeSeries.n_samples / fs / fnyq against exactly these definitions)
OREF_DERIVED = {
    "TimeSeries": {
        "n_samples": lambda ex, st, o: ex.arr(st, o.fields["amplitude"]).shape[0],
        "fs": lambda ex, st, o: 1 / o.fields["dt_in_seconds"],
        "fnyq": lambda ex, st, o: z3.RealVal("1/2") * (1 / o.fields["dt_in_seconds"]),
    },
}


# ---------------------------------------------------------------------------------------------------------------------
# Dictionary with symbolic (real-valued) keys and integer values: insertion-ordered key list + membership + value map (A-DICT)
class SDRef:
    def __init__(self, sid):
        self.sid = sid


class SymDictData:
    def __init__(self, has, val, keys, nk, owner="fresh"):
        self.has, self.val, self.keys, self.nk, self.owner = has, val, keys, nk, owner


def new_symdict(ex, st, owner="fresh", name="dict"):
    sid = ex.new_sid(name)
    st.heap[sid] = SymDictData(z3.K(R, z3.BoolVal(False)), z3.K(R, z3.IntVal(0)), z3.K(I, z3.RealVal(0)), z3.IntVal(0), owner)
    return SDRef(sid)


def symdict_wf(d):
    """well-formedness: listed keys are members, are pairwise distinct, and every member is listed"""
    t, u = z3.Ints("t!sd u!sd")
    x = z3.Real("x!sd")
    return [d.nk >= 0,
            z3.ForAll([t], z3.Implies(z3.And(t >= 0, t < d.nk), z3.Select(d.has, z3.Select(d.keys, t)))),
            z3.ForAll([t, u], z3.Implies(z3.And(t >= 0, t < u, u < d.nk), z3.Select(d.keys, t) != z3.Select(d.keys, u))),
            z3.ForAll([x], z3.Implies(z3.Select(d.has, x), z3.Exists([t], z3.And(t >= 0, t < d.nk, z3.Select(d.keys, t) == x))))]


def symdict_read(ex, st, ref, key, node):
    """d[key]: KeyError on a forked path if the key is absent"""
    from .core import ReturnRec, real
    d = st.heap[ref.sid]
    k = real(key)
    present = z3.Select(d.has, k)
    if not ex.spec_mode:
        miss = st.fork()
        miss.pc.append(z3.Not(present))
        ex.returns.append(ReturnRec(miss, None, "KeyError", getattr(node, "lineno", 0)))
        st.pc.append(present)
    return z3.Select(d.val, k)


def symdict_store(ex, st, ref, key, value, node):
    from .core import real
    d = st.heap[ref.sid]
    if d.owner != "fresh":
        st.writes.append((d.owner, "dict store", getattr(node, "lineno", 0)))
    k = real(key)
    present = z3.Select(d.has, k)
    st.heap[ref.sid] = SymDictData(z3.Store(d.has, k, z3.BoolVal(True)), z3.Store(d.val, k, as_int(value)),
                                   z3.If(present, d.keys, z3.Store(d.keys, d.nk, k)), z3.If(present, d.nk, d.nk + 1), d.owner)


def symdict_havoc(ex, st, ref, name):
    d = st.heap[ref.sid]
    nd = SymDictData(ex.fresh(f"{name}_has", z3.ArraySort(R, B)), ex.fresh(f"{name}_val", z3.ArraySort(R, I)), ex.fresh(f"{name}_keys", z3.ArraySort(I, R)),
                     ex.fresh(f"{name}_nk", I), d.owner)
    st.heap[ref.sid] = nd
    return ref


def symdict_keys(ex, st, ref):
    from .core import SeqV
    d = st.heap[ref.sid]
    return SeqV(d.nk, lambda ex_, st_, i, _d=d: z3.Select(_d.keys, i), owner="fresh", name="keys")


def symdict_items(ex, st, ref):
    from .core import SeqV, Tup
    d = st.heap[ref.sid]
    return SeqV(d.nk, lambda ex_, st_, i, _d=d: Tup((z3.Select(_d.keys, i), z3.Select(_d.val, z3.Select(_d.keys, i)))), owner="fresh", name="items")
