"""Axiomatised model of the Python builtins and numpy/scipy calls that hvsrpy's verified functions use.

Two kinds of entries (DESIGN section 7):
  *defined*     - exact pointwise meaning (np.abs, np.where, np.zeros, elementwise arithmetic, len, ...)
  *axiomatised* - uninterpreted function symbols (sqrt, sin, cos, log10, 10**x, exp, log, sums, argmin, ...);
                  the facts assumed about them are the named axiom families below, handed to the solver only
                  where a contract or lemma asks for them.  Every family used is reported as an assumption.
"""
import z3

from .core import (I, R, B, A2, L2, S2, MaskedV, ARef, ORef, LRef, Tup, StrV, NoneV, NONE, DictV, FuncV, ModV, SeqV, ArrData, ListData,
                   Undecided, lit, real, as_int, is_z3, zabs, zmax, zmin, coerce, truth)

AR = z3.ArraySort(I, R)
AI = z3.ArraySort(I, I)
AB = z3.ArraySort(I, B)

# ---- uninterpreted mathematics ------------------------------------------------------------------
SQRT = z3.Function("u_sqrt", R, R)
SIN = z3.Function("u_sin", R, R)
COS = z3.Function("u_cos", R, R)
LOG10 = z3.Function("u_log10", R, R)
POW10 = z3.Function("u_pow10", R, R)
EXP = z3.Function("u_exp", R, R)
LOG = z3.Function("u_log", R, R)
PI = z3.Real("u_pi")
ROUND = z3.Function("u_round", R, I)

# reductions over (array, length)
SUM = z3.Function("np_sum", AR, I, R)
MEAN = z3.Function("np_mean", AR, I, R)
AMAX = z3.Function("np_max", AR, I, R)
AMIN = z3.Function("np_min", AR, I, R)
ARGMIN = z3.Function("np_argmin", AR, I, I)
ARGMAX = z3.Function("np_argmax", AR, I, I)
COUNT = z3.Function("count_true", AB, I, I)      # number of True among the first n entries


def _x():
    return z3.Real("x!ax")


def ax_sqrt():
    x = _x()
    return [z3.ForAll([x], z3.Implies(x >= 0, z3.And(SQRT(x) >= 0, SQRT(x) * SQRT(x) == x)), patterns=[SQRT(x)])]


def ax_pi():
    return [PI > z3.RealVal("3.14159"), PI < z3.RealVal("3.1416")]


def ax_trig():
    x, y = z3.Reals("x!ax y!ax")
    return [
        z3.ForAll([x], SIN(x) * SIN(x) + COS(x) * COS(x) == 1, patterns=[SIN(x)]),
        z3.ForAll([x], SIN(x) * SIN(x) + COS(x) * COS(x) == 1, patterns=[COS(x)]),
        SIN(0) == 0, COS(0) == 1,
    ]


def ax_trig_add():
    x, y = z3.Reals("x!ax y!ax")
    return [
        z3.ForAll([x, y], COS(x + y) == COS(x) * COS(y) - SIN(x) * SIN(y), patterns=[COS(x + y)]),
        z3.ForAll([x, y], SIN(x + y) == SIN(x) * COS(y) + COS(x) * SIN(y), patterns=[SIN(x + y)]),
        z3.ForAll([x], COS(-x) == COS(x), patterns=[COS(-x)]),
        z3.ForAll([x], SIN(-x) == -SIN(x), patterns=[SIN(-x)]),
    ]


def ax_logexp():
    x, y = z3.Reals("x!ax y!ax")
    return [
        z3.ForAll([x], EXP(x) > 0, patterns=[EXP(x)]),
        z3.ForAll([x], LOG(EXP(x)) == x, patterns=[EXP(x)]),
        z3.ForAll([x], z3.Implies(x > 0, EXP(LOG(x)) == x), patterns=[LOG(x)]),
    ]


def ax_pow10():
    x = _x()
    return [z3.ForAll([x], POW10(x) > 0, patterns=[POW10(x)]),
            z3.ForAll([x], POW10(x) * POW10(-x) == 1, patterns=[POW10(x)]),
            POW10(0) == 1]


AXIOM_FAMILIES = {
    "A-SQRT": ax_sqrt, "A-PI": ax_pi, "A-TRIG": ax_trig, "A-TRIG-ADD": ax_trig_add, "A-LOGEXP": ax_logexp,
    "A-TRANSC-POW10": ax_pow10,
}


# ---- helpers ---------------------------------------------------------------------------------------
def _unary(fn_scalar, elem=None):
    def f(ex, st, args, kw, node):
        x = args[0]
        if isinstance(x, MaskedV):
            # element-wise function of a selection = the selection (same mask) of the element-wise function
            return MaskedV(ex.map1(st, x.arr, fn_scalar, elem), x.mask)
        if isinstance(x, ARef):
            return ex.map1(st, x, fn_scalar, elem)
        return fn_scalar(lit(x))
    return FuncV(f, getattr(fn_scalar, "__name__", "unary"))


def _np_sqrt(x):
    return SQRT(real(x))


def _np_abs(x):
    return zabs(x)


def _np_sin(x):
    return SIN(real(x))


def _np_cos(x):
    return COS(real(x))


def _np_log10(x):
    return LOG10(real(x))


def _np_log(x):
    return LOG(real(x))


def _np_exp(x):
    return EXP(real(x))


def _np_radians(x):
    return real(x) * PI / 180


def _np_power(ex, st, args, kw, node):
    base, e = args
    b = z3.simplify(real(base)) if not isinstance(base, ARef) else None
    if b is not None and z3.is_rational_value(b) and b.as_fraction() == 10:
        if isinstance(e, ARef):
            return ex.map1(st, e, lambda x: POW10(real(x)))
        return POW10(real(e))
    raise Undecided("np.power with base other than the literal 10")


def _shape_arg(ex, st, a):
    if isinstance(a, (Tup, tuple)):
        return tuple(as_int(x) for x in a)
    if isinstance(a, LRef):
        return tuple(as_int(x) for x in st.heap[a.sid].items)
    return (as_int(a),)


def _np_alloc(kind):
    def f(ex, st, args, kw, node):
        shape = _shape_arg(ex, st, args[0])
        elem = "real"
        dt = kw.get("dtype")
        if dt is not None:
            if isinstance(dt, FuncV) and dt.name in ("int", "bool", "float"):
                elem = {"int": "int", "bool": "bool", "float": "real"}[dt.name]
            else:
                raise Undecided("dtype argument")
        for s in shape:
            ex.safe(st, "alloc-nonneg", s >= 0, node)
        sort = {"real": R, "int": I, "bool": B}[elem]
        if kind == "empty":
            data = ex.fresh("empty", z3.ArraySort(I, sort) if len(shape) == 1 else A2(sort))
        else:
            v = {"zeros": {"real": z3.RealVal(0), "int": z3.IntVal(0), "bool": z3.BoolVal(False)},
                 "ones": {"real": z3.RealVal(1), "int": z3.IntVal(1), "bool": z3.BoolVal(True)}}[kind][elem]
            data = ex.lam1(lambda i: v) if len(shape) == 1 else ex.lam2(lambda i, j: v)
        return ex.alloc_arr(st, shape, data, elem, "fresh", tag=kind)
    return FuncV(f, "np." + kind)


def _np_like(kind):
    def f(ex, st, args, kw, node):
        d = ex.arr(st, args[0])
        sort = {"real": R, "int": I, "bool": B}[d.elem]
        if kind == "empty_like":
            data = ex.fresh("empty", z3.ArraySort(I, sort) if d.rank == 1 else A2(sort))
        elif kind == "full_like":
            v = lit(args[1])
            v = real(v) if d.elem == "real" else v
            data = ex.lam1(lambda i: v) if d.rank == 1 else ex.lam2(lambda i, j: v)
        else:
            v = {"zeros_like": 0, "ones_like": 1}[kind]
            v = z3.RealVal(v) if d.elem == "real" else (z3.IntVal(v) if d.elem == "int" else z3.BoolVal(bool(v)))
            data = ex.lam1(lambda i: v) if d.rank == 1 else ex.lam2(lambda i, j: v)
        return ex.alloc_arr(st, d.shape, data, d.elem, "fresh", tag=kind)
    return FuncV(f, "np." + kind)


def _np_array(ex, st, args, kw, node):
    """np.array(x): a *copy* (fresh storage) with the same content."""
    x = args[0]
    dt_ = kw.get("dtype")
    if dt_ is not None and not (isinstance(dt_, FuncV) and dt_.name in ("float", "np.double")):
        raise Undecided("np.array dtype")
    if isinstance(x, ARef):
        d = ex.arr(st, x)
        return ex.alloc_arr(st, d.shape, d.data, d.elem, "fresh", tag="copy")
    if isinstance(x, LRef):
        items = st.heap[x.sid].items
        if all(is_z3(lit(v)) for v in items):
            vals = [lit(v) for v in items]
            if any(z3.is_real(v) for v in vals):
                vals = [real(v) for v in vals]
                elem, sort = "real", R
            elif all(z3.is_bool(v) for v in vals):
                elem, sort = "bool", B
            else:
                elem, sort = "int", I
            a = z3.K(I, vals[0]) if vals else z3.K(I, z3.RealVal(0))
            for j, v in enumerate(vals):
                a = z3.Store(a, j, v)
            return ex.alloc_arr(st, (z3.IntVal(len(vals)),), a, elem, "fresh", tag="array")
        if items and all(isinstance(v, LRef) and st.heap[v.sid].items and all(is_z3(lit(y)) for y in st.heap[v.sid].items) for v in items) \
                and len({len(st.heap[v.sid].items) for v in items}) == 1:
            # a list of equally long lists of numbers: a 2-D array, row by row
            rows = None
            ncol = len(st.heap[items[0].sid].items)
            for j, v in enumerate(items):
                row = z3.K(I, z3.RealVal(0))
                for c, y in enumerate(st.heap[v.sid].items):
                    row = z3.Store(row, c, real(y))
                rows = z3.K(I, row) if rows is None else rows
                rows = z3.Store(rows, j, row)
            return ex.alloc_arr(st, (z3.IntVal(len(items)), z3.IntVal(ncol)), rows, "real", "fresh", tag="array2")
        if items and all(isinstance(v, ARef) and ex.arr(st, v).rank == 1 and ex.arr(st, v).elem == "real" for v in items):
            # a list of equally long 1-D arrays: a 2-D array with one row per list entry (numpy raises on ragged input)
            ds = [ex.arr(st, v) for v in items]
            for d in ds[1:]:
                if not z3.eq(z3.simplify(d.shape[0]), z3.simplify(ds[0].shape[0])):
                    ex.safe(st, "rows-same-length", d.shape[0] == ds[0].shape[0], node)
            rows = z3.K(I, ds[0].data)
            for j, d in enumerate(ds):
                rows = z3.Store(rows, j, d.data)
            return ex.alloc_arr(st, (z3.IntVal(len(ds)), ds[0].shape[0]), rows, "real", "fresh", tag="array2")
    if isinstance(x, SeqV) and getattr(x, "as_array", None):
        return x.as_array(ex, st)
    from . import objects
    if isinstance(x, objects.SLRef):
        d = st.heap[x.sid]
        if d.cls is None:
            elem = "real" if d.arr.sort().range() == R else ("int" if d.arr.sort().range() == I else "bool")
            return ex.alloc_arr(st, (d.length,), d.arr, elem, "fresh", tag="array")
    raise Undecided("np.array of this value")


def _np_where(ex, st, args, kw, node):
    if len(args) != 3:
        raise Undecided("np.where with one argument")
    c, a, b = args
    dc = ex.arr(st, c)
    if dc.rank != 1:
        raise Undecided("np.where rank")

    def at(v, i):
        if isinstance(v, ARef):
            return ex.sel1(ex.arr(st, v), i)
        return lit(v)
    i = z3.Int("i!w")
    x, y = coerce(at(a, i), at(b, i))
    body = z3.If(ex.sel1(dc, i), x, y)
    return ex.alloc_arr(st, dc.shape, z3.Lambda([i], body), ex.elem_kind(body))


def _reduce(fn):
    def f(ex, st, args, kw, node):
        if isinstance(args[0], MaskedV) and fn is SUM:
            return _masked_sum(ex, st, args[0], node)
        d = ex.arr(st, args[0])
        if d.rank != 1 or kw:
            raise Undecided("reduction with axis / rank 2")
        data = d.data
        if d.elem == "int":
            data = ex.lam1(lambda i: z3.ToReal(ex.sel1(d, i)))
        if d.elem == "bool":
            if fn is SUM:
                if d.count_term is not None:
                    return d.count_term
                return COUNT(d.data, d.shape[0])
            raise Undecided("reduction of bool array")
        return fn(data, d.shape[0])
    return FuncV(f, str(fn))


def _np_argext(fn):
    def f(ex, st, args, kw, node):
        d = ex.arr(st, args[0])
        if d.rank != 1 or d.elem not in ("real", "int"):
            raise Undecided("argmin/argmax of non numeric 1-D")
        if ex.spec_mode:
            raise Undecided("argmin/argmax inside a specification (use the quantified characterisation)")
        ex.safe(st, "argext-nonempty", d.shape[0] >= 1, node)
        # A-ARGMIN / A-ARGMAX: numpy returns the first index of the extremum.  The result is a fresh constant with that
        # (complete) characterisation - no function symbol over array-valued terms is introduced.
        r = ex.fresh("argmin" if fn is ARGMIN else "argmax", I)
        st.pc += [z3.simplify(x) for x in facts_argext(d.data, d.shape[0], r, fn is ARGMIN)]
        return r
    return FuncV(f, str(fn))


def facts_argext(data, n, r, is_min):
    k = z3.Int("k!am")
    a, b = z3.Select(data, r), z3.Select(data, k)
    return [z3.And(r >= 0, r < n),
            z3.ForAll([k], z3.Implies(z3.And(k >= 0, k < n), (a <= b) if is_min else (a >= b))),
            z3.ForAll([k], z3.Implies(z3.And(k >= 0, k < r), (b > a) if is_min else (b < a)))]


def _np_ext(is_min):
    def f(ex, st, args, kw, node):
        if isinstance(args[0], MaskedV):
            return _masked_ext(ex, st, args[0], is_min, node)
        d = ex.arr(st, args[0])
        if d.rank != 1 or kw or d.elem not in ("real", "int"):
            raise Undecided("min/max with axis / rank 2")
        if ex.spec_mode:
            raise Undecided("min/max of an array inside a specification (use the quantified characterisation)")
        ex.safe(st, "minmax-nonempty", d.shape[0] >= 1, node)
        r = ex.fresh("amin" if is_min else "amax", R if d.elem == "real" else I)
        st.pc += [z3.simplify(x) for x in facts_ext(d.data, d.shape[0], r, is_min)]
        return r
    return FuncV(f, "np.min" if is_min else "np.max")


def facts_ext(data, n, r, is_min):
    """A-NP-MIN / A-NP-MAX: the extremum bounds every element and is attained."""
    k = z3.Int("k!mx")
    b = z3.Select(data, k)
    return [z3.ForAll([k], z3.Implies(z3.And(k >= 0, k < n), (r <= b) if is_min else (r >= b))),
            z3.Exists([k], z3.And(k >= 0, k < n, b == r))]


def facts_argmin(data, n):
    """A-ARGMIN: first index of the minimum."""
    k = z3.Int("k!am")
    m = ARGMIN(data, n)
    return [z3.Implies(n >= 1, z3.And(m >= 0, m < n)),
            z3.ForAll([k], z3.Implies(z3.And(k >= 0, k < n), z3.Select(data, m) <= z3.Select(data, k))),
            z3.ForAll([k], z3.Implies(z3.And(k >= 0, k < m), z3.Select(data, k) > z3.Select(data, m)))]


def facts_argmax(data, n):
    k = z3.Int("k!am")
    m = ARGMAX(data, n)
    return [z3.Implies(n >= 1, z3.And(m >= 0, m < n)),
            z3.ForAll([k], z3.Implies(z3.And(k >= 0, k < n), z3.Select(data, m) >= z3.Select(data, k))),
            z3.ForAll([k], z3.Implies(z3.And(k >= 0, k < m), z3.Select(data, k) < z3.Select(data, m)))]


def compress(ex, st, v, mask, node):
    dv, dm = ex.arr(st, v), ex.arr(st, mask)
    if not z3.eq(z3.simplify(dv.shape[0]), z3.simplify(dm.shape[0])):
        ex.safe(st, "mask-length", dv.shape[0] == dm.shape[0], node)
    return MaskedV(v, mask)


def _masked_sum(ex, st, mv, node):
    dv, dm = ex.arr(st, mv.arr), ex.arr(st, mv.mask)
    if dv.elem != "bool":
        raise Undecided("sum over a boolean-mask selection of non-boolean values")
    if ex.spec_mode:
        raise Undecided("np.sum of a selection inside a specification")
    c = ex.fresh("count", I)
    k = z3.Int("k!ms")
    n = dv.shape[0]
    st.pc += [c >= 0, (c > 0) == z3.Exists([k], z3.And(k >= 0, k < n, z3.Select(dm.data, k), z3.Select(dv.data, k)))]
    return c


def _masked_ext(ex, st, mv, is_min, node):
    dv, dm = ex.arr(st, mv.arr), ex.arr(st, mv.mask)
    if ex.spec_mode:
        raise Undecided("max/min of a selection inside a specification")
    k = z3.Int("k!mx")
    n = dv.shape[0]
    # numpy raises ValueError on an empty selection
    ex.safe(st, "selection-nonempty", z3.Exists([k], z3.And(k >= 0, k < n, z3.Select(dm.data, k))), node)
    r = ex.fresh("sel_min" if is_min else "sel_max", R if dv.elem == "real" else I)
    b = z3.Select(dv.data, k)
    st.pc += [z3.ForAll([k], z3.Implies(z3.And(k >= 0, k < n, z3.Select(dm.data, k)), (r <= b) if is_min else (r >= b))),
              z3.Exists([k], z3.And(k >= 0, k < n, z3.Select(dm.data, k), b == r))]
    return r


def _np_logical_and(ex, st, args, kw, node):
    return ex.map2(st, args[0], args[1], lambda x, y: z3.And(x, y), node, elem="bool")


def _np_where1(ex, st, args, kw, node):
    """np.where(cond) with one argument: tuple with the increasing array of the indices where cond holds (A-NP-WHERE)."""
    if len(args) != 1:
        return _np_where(ex, st, args, kw, node)
    d = ex.arr(st, args[0])
    if d.elem != "bool" or d.rank != 1:
        raise Undecided("np.where(cond) of non-bool")
    n = d.shape[0]
    cnt = ex.fresh("n_where", I)
    idx = ex.fresh("where_idx", z3.ArraySort(I, I))
    t, u, k = z3.Ints("t!w u!w k!w")
    st.pc += [cnt >= 0,
              z3.ForAll([t], z3.Implies(z3.And(t >= 0, t < cnt), z3.And(idx[t] >= 0, idx[t] < n, z3.Select(d.data, idx[t])))),
              z3.ForAll([t, u], z3.Implies(z3.And(t >= 0, t < u, u < cnt), idx[t] < idx[u])),
              z3.ForAll([k], z3.Implies(z3.And(k >= 0, k < n, z3.Select(d.data, k)), z3.Exists([t], z3.And(t >= 0, t < cnt, idx[t] == k))))]
    return Tup((ex.alloc_arr(st, (cnt,), idx, "int", "fresh", tag="where"),))


ROUNDI = z3.Function("u_roundi", R, I)


def ax_round():
    x = _x()
    return [z3.ForAll([x], z3.And(z3.ToReal(ROUNDI(x)) - x <= z3.RealVal("1/2"), x - z3.ToReal(ROUNDI(x)) <= z3.RealVal("1/2")), patterns=[ROUNDI(x)])]


def _np_round(ex, st, args, kw, node):
    """np.round: nearest integer (A-ROUND: |round(x) - x| <= 1/2; ties are not specified)"""
    x = args[0]
    f = lambda v: z3.ToReal(ROUNDI(real(v)))
    if isinstance(x, ARef):
        return ex.map1(st, x, f)
    return f(x)


def _np_diff(ex, st, args, kw, node):
    d = ex.arr(st, args[0])
    if d.rank != 1:
        raise Undecided("np.diff rank")
    n = z3.simplify(z3.If(d.shape[0] >= 1, d.shape[0] - 1, z3.IntVal(0)))
    return ex.alloc_arr(st, (n,), ex.lam1(lambda i: ex.sel1(d, i + 1) - ex.sel1(d, i)), d.elem, "fresh", tag="diff")


def _np_arange(ex, st, args, kw, node):
    if len(args) != 1 or kw:
        raise Undecided("np.arange with start/step")
    n = as_int(args[0])
    return ex.alloc_arr(st, (n,), ex.lam1(lambda i: i), "int", "fresh", tag="arange")


def compress_rows(ex, st, v, mask, node):
    """a[mask] for a 2-D array and a 1-D boolean mask over its rows: the selected rows in order, kept symbolic (A-NP-MASK)"""
    dv, dm = ex.arr(st, v), ex.arr(st, mask)
    if not z3.eq(z3.simplify(dv.shape[0]), z3.simplify(dm.shape[0])):
        ex.safe(st, "mask-length", dv.shape[0] == dm.shape[0], node)
    return MaskedV(v, mask)


def mask_count(d):
    """number of True entries of a boolean array: the term np.sum(mask) evaluates to"""
    return d.count_term if d.count_term is not None else COUNT(d.data, d.shape[0])


def masked_flatten(ex, st, mv, node):
    """a[mask].flatten(): the selected rows one after the other (C order).  The rows are enumerated by the increasing sequence of the True
    indices (the characterisation np.where gets, A-NP-WHERE); their number is the term np.sum(mask) evaluates to (A-NP-SUM)."""
    dv, dm = ex.arr(st, mv.arr), ex.arr(st, mv.mask)
    if ex.spec_mode:
        raise Undecided("flatten of a selection inside a specification")
    if dv.rank != 2:
        raise Undecided("flatten of a 1-D selection")
    n, m = dv.shape
    cnt = mask_count(dm)
    idx = ex.fresh("selected_rows", z3.ArraySort(I, I))
    flat = ex.fresh("flattened", z3.ArraySort(I, R))
    t, u, k, c = z3.Ints("t!fl u!fl k!fl c!fl")
    st.pc += [cnt >= 0,
              z3.ForAll([t], z3.Implies(z3.And(t >= 0, t < cnt), z3.And(idx[t] >= 0, idx[t] < n, z3.Select(dm.data, idx[t])))),
              z3.ForAll([t, u], z3.Implies(z3.And(t >= 0, t < u, u < cnt), idx[t] < idx[u])),
              z3.ForAll([k], z3.Implies(z3.And(k >= 0, k < n, z3.Select(dm.data, k)), z3.Exists([t], z3.And(t >= 0, t < cnt, idx[t] == k)))),
              z3.ForAll([t, c], z3.Implies(z3.And(t >= 0, t < cnt, c >= 0, c < m), flat[t * m + c] == ex.sel2(dv, idx[t], c))),
              # the instance for the first selected row, stated separately (t*m + c is not a usable trigger)
              z3.ForAll([c], z3.Implies(z3.And(cnt >= 1, c >= 0, c < m), flat[c] == ex.sel2(dv, idx[0], c)))]
    return ex.alloc_arr(st, (cnt * m,), flat, dv.elem, "fresh", tag="flatten")


# ---- python builtins -------------------------------------------------------------------------------
def _len(ex, st, args, kw, node):
    x = args[0]
    if isinstance(x, MaskedV):
        return mask_count(ex.arr(st, x.mask))        # number of selected entries / rows
    if isinstance(x, ARef):
        return ex.arr(st, x).shape[0]
    if isinstance(x, LRef):
        return z3.IntVal(len(st.heap[x.sid].items))
    if isinstance(x, (Tup, tuple)):
        return z3.IntVal(len(x))
    if isinstance(x, SeqV):
        return x.length
    from . import objects
    if isinstance(x, objects.SLRef):
        return st.heap[x.sid].length
    if isinstance(x, objects.SDRef):
        return st.heap[x.sid].nk
    if isinstance(x, DictV):
        return z3.IntVal(len(x.items))
    if isinstance(x, StrV):
        return z3.IntVal(len(x.s))
    raise Undecided(f"len of {type(x).__name__}")


def _abs(ex, st, args, kw, node):
    x = args[0]
    if isinstance(x, ARef):
        return ex.map1(st, x, zabs)
    return zabs(x)


def _int(ex, st, args, kw, node):
    x = lit(args[0])
    if z3.is_int(x):
        return x
    if z3.is_bool(x):
        return as_int(x)
    # truncation toward zero
    return z3.If(x >= 0, z3.ToInt(x), -z3.ToInt(-x))


def _float(ex, st, args, kw, node):
    return real(args[0])


def _minmax(sel):
    def f(ex, st, args, kw, node):
        if len(args) == 1:
            x = args[0]
            if isinstance(x, ARef):
                return _np_ext(sel == "min").fn(ex, st, [x], {}, node)
            if isinstance(x, LRef):
                args = st.heap[x.sid].items
            elif isinstance(x, (Tup, tuple)):
                args = list(x)
            elif isinstance(x, SeqV):
                if ex.spec_mode:
                    raise Undecided("min/max of a sequence inside a specification")
                ex.safe(st, "minmax-nonempty", x.length >= 1, node)
                probe = lit(x.getter(ex, st, z3.IntVal(0)))
                r = ex.fresh("seq_min" if sel == "min" else "seq_max", probe.sort())
                t = z3.Int("t!mm")
                e_t = lit(x.getter(ex, st, t))
                st.pc += [z3.ForAll([t], z3.Implies(z3.And(t >= 0, t < x.length), (r <= e_t) if sel == "min" else (r >= e_t))),
                          z3.Exists([t], z3.And(t >= 0, t < x.length, e_t == r))]
                return r
            else:
                raise Undecided("min/max of this iterable")
        out = lit(args[0])
        for a in args[1:]:
            out = zmin(out, a) if sel == "min" else zmax(out, a)
        return out
    return FuncV(f, sel)


def _tuple(ex, st, args, kw, node):
    x = args[0]
    if isinstance(x, (Tup, tuple)):
        return Tup(x)
    if isinstance(x, LRef):
        return Tup(st.heap[x.sid].items)
    raise Undecided("tuple() of this value")


def _list(ex, st, args, kw, node):
    if not args:
        return ex.alloc_list(st, [])
    x = args[0]
    if isinstance(x, (Tup, tuple)):
        return ex.alloc_list(st, list(x))
    if isinstance(x, LRef):
        return ex.alloc_list(st, list(st.heap[x.sid].items))
    if type(x) is StrV and not x.s.startswith("<"):
        return ex.alloc_list(st, [StrV(ch) for ch in x.s])         # list('abc'): its characters
    raise Undecided("list() of this value")


def _dict(ex, st, args, kw, node):
    items = {}
    if args:
        x = args[0]
        if not isinstance(x, DictV):
            raise Undecided("dict() of non-dict")
        items.update(x.items)
    items.update(kw)
    return DictV(items)


def _isinstance(ex, st, args, kw, node):
    from .core import ClsV
    from . import objects
    v, c = args
    classes = list(c) if isinstance(c, (Tup, tuple)) else [c]
    builtin_types = ("dict", "list", "str", "int", "float", "tuple", "bool")        # modelled by their constructor functions
    if not all(isinstance(x, ClsV) or (isinstance(x, FuncV) and x.name in builtin_types) for x in classes):
        raise Undecided("isinstance with a class that is not modelled")
    names = {x.name for x in classes}
    if isinstance(v, NoneV):
        return z3.BoolVal(False)
    if isinstance(v, ARef):
        return z3.BoolVal("ndarray" in names)
    if isinstance(v, ORef):
        return z3.BoolVal(st.heap[v.oid].cls in names)
    if isinstance(v, objects.SObj):
        return z3.BoolVal(v.cls in names)
    if isinstance(v, (objects.SLRef, LRef)):
        return z3.BoolVal("list" in names)
    if isinstance(v, StrV):
        return z3.BoolVal("str" in names)
    if isinstance(v, (Tup, tuple)):
        return z3.BoolVal("tuple" in names)
    if isinstance(v, SeqV):
        return z3.BoolVal("list" in names)
    if isinstance(v, DictV):
        return z3.BoolVal("dict" in names)
    if is_z3(lit(v)):
        x = lit(v)
        kind = "bool" if z3.is_bool(x) else ("int" if z3.is_int(x) else "float")       # a symbolic number is a Python int / float (numpy scalars are not modelled)
        return z3.BoolVal(kind in names or (kind == "bool" and "int" in names))
    raise Undecided("isinstance of this value")


def _getattr(ex, st, args, kw, node):
    o, name = args[0], args[1]
    if not isinstance(name, StrV):
        raise Undecided("getattr with a symbolic name")
    return ex.getattr(st, o, name.s, node)


def _list_append(ex, st, args, kw, node):
    l, x = args
    ld = st.heap[l.sid]
    if ld.owner != "fresh":
        st.writes.append((ld.owner, "list.append", node.lineno))
    ld.items.append(x)
    return NONE


def _list_extend(ex, st, args, kw, node):
    l, x = args
    ld = st.heap[l.sid]
    if ld.owner != "fresh":
        st.writes.append((ld.owner, "list.extend", node.lineno))
    if isinstance(x, LRef):
        ld.items.extend(st.heap[x.sid].items)
    elif isinstance(x, (Tup, tuple)):
        ld.items.extend(x)
    else:
        raise Undecided("extend with symbolic sequence")
    return NONE


def _dict_get(ex, st, args, kw, node):
    d, k = args[0], args[1]
    default = args[2] if len(args) > 2 else NONE
    if not isinstance(k, StrV):
        raise Undecided("dict.get with non-constant key")
    return d.items.get(k.s, default)


def _dict_keys(ex, st, args, kw, node):
    return Tup(StrV(k) for k in args[0].items)


def _str_lower(ex, st, args, kw, node):
    return StrV(args[0].s.lower())


def _str_endswith(ex, st, args, kw, node):
    return z3.BoolVal(args[0].s.endswith(args[1].s))


def _arr_tolist(ex, st, args, kw, node):
    """a Python list of the elements: modelled as a fresh sequence with the same content (a list of floats is only ever read back element-wise)"""
    d = ex.arr(st, args[0])
    if d.rank != 1:
        raise Undecided("tolist() of a 2-D array")
    r = ex.alloc_arr(st, d.shape, d.data, d.elem, "fresh", tag="tolist")
    st.heap[r.sid].pylist = True
    return r


def _arr_copy(ex, st, args, kw, node):
    d = ex.arr(st, args[0])
    return ex.alloc_arr(st, d.shape, d.data, d.elem, "fresh", tag="copy")


def _arr_astype(ex, st, args, kw, node):
    d = ex.arr(st, args[0])
    t = args[1]
    if isinstance(t, FuncV) and t.name == "int" and d.elem == "int":
        return ex.alloc_arr(st, d.shape, d.data, "int", "fresh", tag="astype")
    if isinstance(t, FuncV) and t.name == "int" and d.elem == "real" and d.rank == 1:
        # truncation toward zero
        tr = lambda v: z3.If(v >= 0, z3.ToInt(v), -z3.ToInt(-v))
        return ex.alloc_arr(st, d.shape, ex.lam1(lambda i: tr(ex.sel1(d, i))), "int", "fresh", tag="astype")
    raise Undecided("astype")


def _arr_any(ex, st, args, kw, node):
    d = ex.arr(st, args[0])
    if d.elem != "bool":
        raise Undecided(".any() of non-bool")
    if d.rank == 2:
        r, c = z3.Ints("r!any c!any")
        return z3.Exists([r, c], z3.And(r >= 0, r < d.shape[0], c >= 0, c < d.shape[1], ex.sel2(d, r, c)))
    k = z3.Int("k!any")
    return z3.Exists([k], z3.And(k >= 0, k < d.shape[0], ex.sel1(d, k)))


def _arr_reshape(ex, st, args, kw, node):
    """1-D -> 2-D reshape (C order): element (r, c) is element r*ncols + c"""
    d = ex.arr(st, args[0])
    shp = args[1] if len(args) == 2 else Tup(args[1:])
    if d.rank != 1 or not isinstance(shp, (Tup, tuple)) or len(shp) != 2:
        raise Undecided("reshape other than 1-D -> (rows, columns)")
    a, b = as_int(shp[0]), as_int(shp[1])
    ex.safe(st, "reshape-size", a * b == d.shape[0], node)
    return ex.alloc_arr(st, (a, b), ex.lam2(lambda r, c: ex.sel1(d, r * b + c)), d.elem, d.owner, view_of=args[0].sid)


ARRAY_METHODS = {"tolist": _arr_tolist, "copy": _arr_copy, "astype": _arr_astype, "any": _arr_any, "reshape": _arr_reshape}
def _list_index(ex, st, args, kw, node):
    """items.index(x) on a concrete list of concrete strings / numerals: the first position, ValueError when absent"""
    from .core import PyRaise
    l, x = args
    items = st.heap[l.sid].items

    def key(v):
        if type(v) is StrV and not v.s.startswith("<"):
            return ("s", v.s)
        if getattr(v, "concrete_text", None) is not None:
            return ("s", v.concrete_text)
        z = z3.simplify(lit(v)) if is_z3(lit(v)) else None
        if z is not None and (z3.is_int_value(z) or z3.is_rational_value(z)):
            return ("n", z.as_fraction() if z3.is_rational_value(z) else z.as_long())
        raise Undecided("list.index on values that are not concrete")
    kx = key(x)
    for j, it in enumerate(items):
        if key(it) == kx:
            return z3.IntVal(j)
    raise PyRaise("ValueError", "list.index: the value is not in the list")


LIST_METHODS = {"append": _list_append, "extend": _list_extend, "index": _list_index}
def _str_startswith(ex, st, args, kw, node):
    t = getattr(args[0], "startswith_term", None)       # an opaque string may carry the (uninterpreted) answer to this question
    if t is not None:
        return t(args[1])
    return z3.BoolVal(args[0].s.startswith(args[1].s))


def _str_split(ex, st, args, kw, node):
    """s.split(sep): an opaque list of strings"""
    m = getattr(ex.k, "str_split_model", None) if ex.k is not None else None
    if m is not None:
        return m(ex, st, args, kw, node)       # a contract may say how many parts a particular line has (one title per column)
    from . import objects
    n = ex.fresh("n_parts", I)
    st.pc.append(n >= 1)
    return objects.new_symlist(ex, st, objects.STR_LIST, length=n, name="split")


def _dict_copy(ex, st, args, kw, node):
    return DictV(dict(args[0].items))


def _dict_pop(ex, st, args, kw, node):
    d, k = args[0], args[1]
    if not isinstance(k, StrV) or k.s not in d.items:
        raise Undecided("dict.pop with a key that is not a constant present in the dictionary")
    if d.owner != "fresh":
        st.writes.append((d.owner, f"dict.pop({k.s!r})", node.lineno))
    return d.items.pop(k.s)


def _str_join(ex, st, args, kw, node):
    """sep.join(strings): an opaque string (string content is not modelled)"""
    return StrV("<joined>")


def deep_copy(ex, st, v):
    """copy.deepcopy of a value made of numbers, strings, None, arrays, lists, tuples and dictionaries with constant keys: equal content, fresh storage at
    every level (A-DEEPCOPY)"""
    if isinstance(v, ARef):
        d = ex.arr(st, v)
        r = ex.alloc_arr(st, d.shape, d.data, d.elem, "fresh", tag="deepcopy")
        st.heap[r.sid].pylist = d.pylist
        return r
    if isinstance(v, LRef):
        return ex.alloc_list(st, [deep_copy(ex, st, x) for x in st.heap[v.sid].items])
    if isinstance(v, DictV):
        return DictV({k: deep_copy(ex, st, x) for k, x in v.items.items()})
    if isinstance(v, Tup):
        return Tup(deep_copy(ex, st, x) for x in v)
    if isinstance(v, (NoneV, StrV)) or is_z3(lit(v)):
        return v
    raise Undecided(f"deepcopy of a {type(v).__name__}")


DEEPCOPY = FuncV(lambda ex, st, args, kw, node: deep_copy(ex, st, args[0]), "deepcopy")


def _dict_items(ex, st, args, kw, node):
    return Tup(Tup((StrV(k), v)) for k, v in args[0].items.items())       # (key, value) pairs in insertion order


def _dict_values(ex, st, args, kw, node):
    return Tup(v for v in args[0].items.values())


DICT_METHODS = {"get": _dict_get, "keys": _dict_keys, "pop": _dict_pop, "copy": _dict_copy, "items": _dict_items, "values": _dict_values}
STR_METHODS = {"lower": _str_lower, "endswith": _str_endswith, "join": _str_join, "startswith": _str_startswith, "split": _str_split}

# A-NAN: NaN is a distinguished real constant; only storing it and testing for it (isnan) are meaningful - a contract that lets it reach
# arithmetic or an ordering comparison would be wrong about IEEE semantics, so such contracts must keep it out by precondition
NAN = z3.Real("u_NaN")

NP = ModV("np", {
    "sqrt": _unary(_np_sqrt), "abs": _unary(_np_abs), "absolute": _unary(_np_abs), "sin": _unary(_np_sin),
    "cos": _unary(_np_cos), "log10": _unary(_np_log10), "log": _unary(_np_log), "exp": _unary(_np_exp),
    "radians": _unary(_np_radians), "power": FuncV(_np_power, "np.power"), "pi": PI,
    "empty": _np_alloc("empty"), "zeros": _np_alloc("zeros"), "ones": _np_alloc("ones"),
    "empty_like": _np_like("empty_like"), "zeros_like": _np_like("zeros_like"), "ones_like": _np_like("ones_like"),
    "full_like": _np_like("full_like"),
    "array": FuncV(_np_array, "np.array"), "where": FuncV(_np_where1, "np.where"),
    "logical_and": FuncV(_np_logical_and, "np.logical_and"), "arange": FuncV(_np_arange, "np.arange"),
    "round": FuncV(_np_round, "np.round"), "diff": FuncV(_np_diff, "np.diff"),
    "sum": _reduce(SUM), "mean": _reduce(MEAN), "max": _np_ext(False), "min": _np_ext(True),
    "argmin": _np_argext(ARGMIN), "argmax": _np_argext(ARGMAX),
    "nan": NAN, "isnan": _unary(lambda x: real(x) == NAN, "bool"), "double": FuncV(_float, "np.double"),
})

def _zip(ex, st, args, kw, node):
    """zip of symbolic sequences as a value (live view: elements are read from the heap when they are asked for)"""
    from . import objects
    parts = []
    for a in args:
        if isinstance(a, ARef):
            d = ex.arr(st, a)
            if d.rank != 1:
                raise Undecided("zip over a 2-D array")
            parts.append((d.shape[0], (lambda ex_, st_, i, _a=a: ex_.sel1(st_.heap[_a.sid], i))))
        elif isinstance(a, SeqV):
            parts.append((a.length, a.getter))
        elif isinstance(a, objects.SLRef):
            parts.append((st.heap[a.sid].length, (lambda ex_, st_, i, _a=a: objects.symlist_get(ex_, st_, _a, i))))
        else:
            raise Undecided("zip() as a value over concrete sequences")
    n = parts[0][0]
    for p in parts[1:]:
        n = zmin(n, p[0])
    return SeqV(z3.simplify(n), lambda ex_, st_, i: Tup(p[1](ex_, st_, i) for p in parts), owner="fresh", name="zip")


def _range(ex, st, args, kw, node):
    a = [as_int(x) for x in args]
    if len(a) == 1:
        lo, hi = z3.IntVal(0), a[0]
    elif len(a) == 2:
        lo, hi = a
    else:
        raise Undecided("range with step")
    return SeqV(z3.simplify(z3.If(hi > lo, hi - lo, z3.IntVal(0))), lambda ex_, st_, i, _lo=lo: i + _lo, owner="fresh", name="range")


BUILTINS = {
    "np": NP, "range": FuncV(_range, "range"), "zip": FuncV(_zip, "zip"),
    "len": FuncV(_len, "len"), "abs": FuncV(_abs, "abs"), "int": FuncV(_int, "int"), "float": FuncV(_float, "float"),
    "bool": FuncV(lambda ex, st, a, k, n: truth(a[0]), "bool"),
    "min": _minmax("min"), "max": _minmax("max"), "tuple": FuncV(_tuple, "tuple"), "list": FuncV(_list, "list"),
    "dict": FuncV(_dict, "dict"), "isinstance": FuncV(_isinstance, "isinstance"), "getattr": FuncV(_getattr, "getattr"),
    "True": z3.BoolVal(True), "False": z3.BoolVal(False),
    # spec-level names for the uninterpreted mathematics
    "sqrt": SQRT, "sin": SIN, "cos": COS, "log10": LOG10, "pow10": POW10, "exp": EXP, "log": LOG, "pi": PI,
}


def facts_amax(data, n):
    """A-NP-MAX: the maximum is attained and bounds every element (n >= 1)."""
    k = z3.Int("k!mx")
    m = AMAX(data, n)
    return [z3.ForAll([k], z3.Implies(z3.And(k >= 0, k < n), z3.Select(data, k) <= m)),
            z3.Implies(n >= 1, z3.Exists([k], z3.And(k >= 0, k < n, z3.Select(data, k) == m)))]


def facts_amin(data, n):
    k = z3.Int("k!mn")
    m = AMIN(data, n)
    return [z3.ForAll([k], z3.Implies(z3.And(k >= 0, k < n), z3.Select(data, k) >= m)),
            z3.Implies(n >= 1, z3.Exists([k], z3.And(k >= 0, k < n, z3.Select(data, k) == m)))]
