"""PyVC - verification-condition generator for a subset of Python, run on the real hvsrpy source.

See /verif/DESIGN.md section 3. Runs under python3-vt (z3-solver); never imports hvsrpy, it parses it.
"""
