"""Contract objects (sidecar specifications) and the tasks a property check is made of."""
import z3

from .core import I, R, B, A2, ARef, ORef, StrV, NONE, Tup, lit, Undecided


class Contract:
    """Specification of one function.

    params      : list of parameter names in positional order (``self`` included for methods)
    defaults    : dict name -> python value for parameters with defaults (used by bind at call sites)
    requires / ensures : lists of spec strings (Python expressions + forall/exists/implies/old/ite)
    raises      : dict ExceptionName -> spec string, *exactly* the condition under which it is raised
    raises_only_if : dict ExceptionName -> spec string that holds whenever it is raised (one direction only)
                  (checked in both directions: raise sites imply it, normal returns imply its negation)
    loops       : dict loop ordinal (AST order inside the function) -> list of invariant strings;
                  the ghost iteration counter is ``_k<ordinal>`` (also ``_k``)
    measures    : dict loop ordinal -> decreases expression (while loops)
    ghost       : dict name -> z3 function / python callable usable in specs and visible to the body
    make_inputs : callable(ex, st) -> list of z3 facts; creates the symbolic parameters in st.env
    make_result : callable(ex, st, env) -> symbolic result value at call sites (modular use)
    havoc       : callable(ex, st, env) applied at call sites for the callee's frame
    modifies    : list of owner tags the body may write to (frame); everything else must be fresh storage
    """

    def __init__(self, qual, params, requires=(), ensures=(), raises=None, loops=None, measures=None, ghost=None,
                 make_inputs=None, make_result=None, havoc=None, defaults=None, is_property=False, modifies=(),
                 axioms=(), trace_op=None, stable_shapes=(), list_havoc=None, obj_havoc=None, cases=None,
                 notes="", assumed=False, sym_lists=None, float_model=False, sym_dicts=(), raises_only_if=None, ensures_on_raise=None):
        self.qual, self.params = qual, list(params)
        self.short = qual.split(".", 2)[-1] if qual.count(".") >= 2 else qual
        self.requires, self.ensures = list(requires), list(ensures)
        self.raises = dict(raises or {})
        self.raises_only_if = dict(raises_only_if or {})
        self.ensures_on_raise = dict(ensures_on_raise or {})   # ExceptionName -> specs that hold in the state in which that exception leaves the function      # ExceptionName -> condition that holds whenever it is raised (no converse claimed)
        self.loops = {int(k): list(v) for k, v in (loops or {}).items()}
        self.measures = dict(measures or {})
        self.ghost = dict(ghost or {})
        self.make_inputs, self.make_result, self.havoc = make_inputs, make_result, havoc
        self.defaults = dict(defaults or {})
        self.is_property = is_property
        self.modifies = list(modifies)
        self.axioms = list(axioms)
        self.trace_op = trace_op
        self.stable_shapes = tuple(stable_shapes)
        self.list_havoc = dict(list_havoc or {})
        self.obj_havoc = dict(obj_havoc or {})
        self.cases = cases          # optional list of (label, make_inputs) alternatives (None-patterns etc.)
        self.notes = notes
        self.assumed = assumed      # True: external function, contract is an axiom (trusted base)
        self.float_model = float_model          # IEEE rounding of real / and + modelled with relative error 2**-53
        self.sym_dicts = tuple(sym_dicts)        # local names holding dictionaries with symbolic (numeric) keys
        self.sym_lists = dict(sym_lists or {})   # local list name -> element class ("TimeSeries", ..., or "real"/"int"/"bool")

    def bind(self, ex, st, args, kwargs):
        env = {}
        if len(args) > len(self.params):
            raise Undecided(f"too many arguments for {self.qual}")
        for p, a in zip(self.params, args):
            env[p] = a
        for k, v in kwargs.items():
            if k not in self.params:
                raise Undecided(f"unexpected keyword {k} for {self.qual}")
            env[k] = v
        for p in self.params:
            if p not in env:
                if p in self.defaults:
                    d = self.defaults[p]
                    env[p] = NONE if d is None else (StrV(d) if isinstance(d, str) else (Tup(NONE if x is None else lit(x) for x in d) if isinstance(d, tuple) else lit(d)))
                else:
                    raise Undecided(f"missing argument {p} for {self.qual}")
        return env


class FunctionTask:
    """Verify the body of ``contract.qual`` (read from /repo) against ``contract``."""

    def __init__(self, contract, registry=None, module_env=None, label=None, clauses=None):
        self.contract, self.registry, self.module_env = contract, registry or {}, module_env or {}
        self.label = label or contract.qual
        self.clauses = clauses or []     # property clauses this task carries (for the evidence)


class LemmaTask:
    """Pure obligation over spec functions: hyps |- goal (both z3), optionally named axioms."""

    def __init__(self, name, hyps, goal, note="", uses=()):
        self.name, self.hyps, self.goal, self.note, self.uses = name, list(hyps), goal, note, list(uses)


class StructTask:
    """Obligation decided on the AST itself (registries map names to the right function objects etc.).

    check(loader) -> list of (name, ok: bool, detail)."""

    def __init__(self, name, check, note="", textual=False):
        # textual: the expectation is a literal shape of the source (an expression spelled a certain way, statements in a certain order).
        # A mismatch there means "the source no longer has the shape this argument was made for" - it is reported as UNDECIDED and directs
        # the native evaluation, it is not a violation by itself (a harmless rewrite would trip it).  Non-textual structural obligations
        # (registries and dispatch tables by key, frame / alias analysis, module-level state) are decided as they stand.
        self.name, self.check, self.note, self.textual = name, check, note, textual


# ---------------------------------------------------------------- symbolic input builders
def sym_arr1(ex, st, name, n, elem="real", owner=None):
    sort = {"real": R, "int": I, "bool": B}[elem]
    data = z3.Const(name, z3.ArraySort(I, sort))
    return ex.alloc_arr(st, (n,), data, elem, owner or f"param:{name}", tag=name)


def sym_arr2(ex, st, name, r, c, elem="real", owner=None):
    sort = {"real": R, "int": I, "bool": B}[elem]
    data = z3.Const(name, A2(sort))
    return ex.alloc_arr(st, (r, c), data, elem, owner or f"param:{name}", tag=name)


def sym_obj(ex, st, cls, fields, owner):
    return ex.alloc_obj(st, cls, fields, owner)
