"""Frame (ownership) obligations decided on the AST: which parameters can a function write to?

A small flow-insensitive-per-variable, flow-sensitive-per-statement may-alias analysis over the real source:
every expression is mapped to the set of *parameters it may share mutable storage with* ("origins"); arithmetic, numpy
constructors, copy constructors and literals are fresh (empty set); attribute access, subscripts/slices (numpy views), iteration
variables, containers built from aliases and unknown calls keep the origins of their operands.  A *write* is an augmented
assignment, an attribute/subscript store, a call of a known mutator method, or passing a value to a function whose summary says it
writes that parameter.  Summaries (writes / return-aliases per parameter) are computed to a fixpoint over the module's functions,
so the obligations are modular: a caller is checked against the callee's summary.

This is deliberately conservative (may-alias): an obligation that fails here is a *frame violation candidate* which the native
harness replays; it never proves more than "no write can reach storage owned by parameter p".
"""
import ast

from . import loader

FRESH_CALLS = {
    # numpy / builtins that allocate their result
    "np.array", "np.empty", "np.zeros", "np.ones", "np.abs", "np.absolute", "np.sqrt", "np.where", "np.radians", "np.cos", "np.sin", "np.log", "np.log10",
    "np.exp", "np.real", "np.conjugate", "np.mean", "np.sum", "np.nansum", "np.max", "np.min", "np.percentile", "np.isnan", "np.full_like", "np.ones_like",
    "np.zeros_like", "np.empty_like", "np.geomspace", "np.arange", "np.linspace", "np.fft.rfft", "np.fft.rfftfreq", "np.fft.irfft", "rfft", "np.diff", "np.round",
    "np.argmin", "np.argmax", "np.cov", "np.concatenate", "np.vstack", "np.sort", "np.power", "np.logical_and", "np.logical_or", "np.sign", "np.dot",
    "len", "int", "float", "str", "bool", "min", "max", "sum", "abs", "range", "enumerate", "zip", "tuple", "sorted", "isinstance", "deepcopy", "copy.deepcopy",
    "tukey", "butter", "sosfiltfilt", "detrend", "find_peaks", "json.loads", "json.load", "dict", "list", "set",
    # hvsrpy constructors: every one of them copies its array arguments (TimeSeries.__init__: np.array; HvsrCurve._check_input: np.array) - C18 / C04 contracts
    "TimeSeries", "TimeSeries.from_timeseries", "SeismicRecording3C", "SeismicRecording3C.from_seismic_recording_3c", "HvsrTraditional", "HvsrAzimuthal",
    "HvsrDiffuseField", "HvsrCurve", "Psd", "HvsrTraditionalSingleAzimuthProcessingSettings",
}
# dict()/list() are shallow: the container is fresh but its elements are not -> handled as "container of operands" below
SHALLOW = {"dict", "list", "tuple", "sorted", "zip", "enumerate", "set"}
MUTATORS = {"window", "detrend", "butterworth_filter", "trim", "orient_sensor_to", "append", "extend", "sort", "update", "pop", "remove", "insert", "clear",
            "update_peaks_bounded", "fill", "resize", "setdefault", "load"}
READONLY_METHODS = {"split", "time", "is_similar", "mean_curve", "std_curve", "mean_fn_frequency", "mean_fn_amplitude", "std_fn_frequency", "std_fn_amplitude",
                    "nth_std_curve", "nth_std_fn_frequency", "nth_std_fn_amplitude", "mean_curve_peak", "cov_fn", "get", "keys", "values", "items", "tolist", "copy",
                    "flatten", "astype", "reshape", "any", "all", "lower", "endswith", "startswith", "format", "join", "search", "finditer", "groups", "index",
                    "mean_curve_by_azimuth", "mean_curve_peak_by_azimuth", "_compute_statistical_weights", "ptp", "mean", "max", "min", "sum"}
FRESH_METHODS = {"tolist", "copy", "flatten", "astype", "mean_curve", "std_curve", "nth_std_curve", "split", "time", "mean", "sum", "max", "min", "lower", "format", "join"}


SCALAR_ATTRS = {"n_samples", "dt_in_seconds", "fs", "fnyq", "degrees_from_north", "n_curves", "size", "shape", "ndim", "n_azimuths", "processing_method",
                "preprocessing_method", "method_to_combine_horizontals", "handle_dissimilar_time_steps_by", "azimuth_in_degrees",
                "ppth_percentile_for_rotdpp_computation", "window_length_in_seconds", "detrend", "differentiate", "orient_to_degrees_from_north",
                "ignore_dissimilar_time_step_warning", "hvsrpy_version", "peak_frequency", "peak_amplitude", "real", "imag"}


def dotted(e):
    if isinstance(e, ast.Name):
        return e.id
    if isinstance(e, ast.Attribute):
        b = dotted(e.value)
        return None if b is None else b + "." + e.attr
    return None


def strip(labels):
    """element / attribute of a value: whatever it is or contains may be the result itself"""
    return {l.lstrip("~") for l in labels}


def contain(labels):
    """a fresh container holding these values: it is not itself parameter storage, it only refers to it"""
    return {"~" + l.lstrip("~") for l in labels}


def direct(labels):
    return {l for l in labels if not l.startswith("~")}


class Summary:
    def __init__(self, params):
        self.params = params
        self.writes = {}          # param -> list of (lineno, description)
        self.returns = set()      # params the return value may alias


class Analyzer:
    def __init__(self, module, extra_fresh=()):
        self.module = module
        src, tree = loader.load_module(module)
        self.funcs = {}
        for n in tree.body:
            if isinstance(n, ast.FunctionDef):
                self.funcs[n.name] = n
            if isinstance(n, ast.ClassDef):
                for m in n.body:
                    if isinstance(m, ast.FunctionDef):
                        self.funcs[f"{n.name}.{m.name}"] = m
        self.registries = {}
        for n in tree.body:      # dict registries name -> function names (dispatch through a registry = call of any of its values)
            if isinstance(n, ast.Assign) and isinstance(n.value, ast.Dict) and all(isinstance(v, ast.Name) for v in n.value.values) and n.value.values:
                for t in n.targets:
                    if isinstance(t, ast.Name):
                        self.registries[t.id] = sorted({v.id for v in n.value.values})
        self.summ = {}
        self.fresh = set(FRESH_CALLS) | set(extra_fresh)
        self.scalars = set()      # local names assumed to hold immutable numbers (sidecar hint, listed in the evidence)

    def params_of(self, fn):
        a = fn.args
        return [x.arg for x in a.posonlyargs + a.args + a.kwonlyargs] + ([a.vararg.arg] if a.vararg else []) + ([a.kwarg.arg] if a.kwarg else [])

    def solve(self, max_rounds=8):
        for name, fn in self.funcs.items():
            self.summ[name] = Summary(self.params_of(fn))
        for _ in range(max_rounds):
            changed = False
            for name, fn in self.funcs.items():
                s = self.analyze_fn(name, fn)
                old = self.summ[name]
                if {k: len(v) for k, v in s.writes.items()} != {k: len(v) for k, v in old.writes.items()} or s.returns != old.returns:
                    changed = True
                self.summ[name] = s
            if not changed:
                break
        return self.summ

    # ------------------------------------------------------------------
    def analyze_fn(self, name, fn):
        s = Summary(self.params_of(fn))
        env = {p: {p} for p in s.params}
        self._run(fn.body, env, s)
        self._run(fn.body, env, s)      # second pass: loop-carried aliases
        return s

    def origins(self, e, env):
        if e is None:
            return set()
        if isinstance(e, ast.Name):
            if e.id in self.scalars:
                return set()
            return set(env.get(e.id, set()))
        if isinstance(e, (ast.Constant, ast.JoinedStr, ast.Compare, ast.BoolOp)):
            return set()
        if isinstance(e, ast.UnaryOp):
            return set()
        if isinstance(e, ast.BinOp):
            # numpy arithmetic allocates; list concatenation / replication keeps the elements
            if isinstance(e.op, (ast.Add, ast.Mult)) and (isinstance(e.left, (ast.List, ast.ListComp)) or isinstance(e.right, (ast.List, ast.ListComp))):
                return self.origins(e.left, env) | self.origins(e.right, env)
            return set()
        if isinstance(e, ast.Attribute):
            if e.attr in SCALAR_ATTRS:
                return set()          # immutable numbers / strings: sharing them shares no mutable storage
            return strip(self.origins(e.value, env))
        if isinstance(e, ast.Subscript):
            return strip(self.origins(e.value, env))
        if isinstance(e, ast.Starred):
            return self.origins(e.value, env)
        if isinstance(e, (ast.Tuple, ast.List, ast.Set)):
            out = set()
            for x in e.elts:
                out |= self.origins(x, env)
            return contain(out)
        if isinstance(e, ast.Dict):
            out = set()
            for x in list(e.keys) + list(e.values):
                out |= self.origins(x, env)
            return contain(out)
        if isinstance(e, ast.IfExp):
            return self.origins(e.body, env) | self.origins(e.orelse, env)
        if isinstance(e, (ast.ListComp, ast.GeneratorExp, ast.SetComp, ast.DictComp)):
            env2 = dict(env)
            for g in e.generators:
                self._bind(g.target, strip(self.origins(g.iter, env2)), env2)
            if isinstance(e, ast.DictComp):
                return contain(self.origins(e.key, env2) | self.origins(e.value, env2))
            return contain(self.origins(e.elt, env2))
        if isinstance(e, ast.Lambda):
            return set()
        if isinstance(e, ast.Call):
            return self.call_origins(e, env)
        return set()

    def call_origins(self, e, env):
        name = dotted(e.func)
        args = list(e.args) + [k.value for k in e.keywords]
        if name in SHALLOW:
            out = set()
            for a in args:
                out |= self.origins(a, env)
            return contain(out)
        if name in self.fresh:
            return set()
        if isinstance(e.func, ast.Name) and e.func.id in self.funcs:
            return self._returns_of(e.func.id, e, env)
        if isinstance(e.func, ast.Attribute):
            if e.func.attr in FRESH_METHODS:
                return set()
            if e.func.attr == "get":
                return strip(self.origins(e.func.value, env))
            if e.func.attr in ("items", "values", "keys"):
                return contain(self.origins(e.func.value, env))
            # method of the same module (Class.method) called on an object
            for fname in self.funcs:
                if fname.endswith("." + e.func.attr):
                    return self._returns_of(fname, e, env, receiver=e.func.value)
        if isinstance(e.func, ast.Subscript):
            reg = dotted(e.func.value)
            if reg in self.registries:
                out = set()
                for f in self.registries[reg]:
                    if f in self.funcs:
                        out |= self._returns_of(f, e, env)
                return out
        # unknown call: the result may alias any argument (and the receiver)
        out = set()
        for a in args:
            out |= self.origins(a, env)
        if isinstance(e.func, ast.Attribute):
            out |= self.origins(e.func.value, env)
        return out

    def _actuals(self, fname, e, env, receiver=None):
        fn = self.funcs[fname]
        params = self.params_of(fn)
        actual = {}
        pos = list(e.args)
        if receiver is not None:
            actual[params[0]] = self.origins(receiver, env)
            plist = params[1:]
        else:
            plist = params
            if plist and plist[0] in ("self", "cls") and "." in fname and receiver is None:
                plist = plist[1:]
        for p, a in zip(plist, pos):
            actual[p] = self.origins(a, env)
        for k in e.keywords:
            if k.arg in params:
                actual[k.arg] = self.origins(k.value, env)
        return actual

    def _returns_of(self, fname, e, env, receiver=None):
        actual = self._actuals(fname, e, env, receiver)
        out = set()
        for p in self.summ.get(fname, Summary([])).returns:
            if p.startswith("~"):
                out |= contain(actual.get(p[1:], set()))
            else:
                out |= actual.get(p, set())
        return out

    def _bind(self, target, orig, env):
        if isinstance(target, ast.Name):
            env[target.id] = set(orig)
        elif isinstance(target, (ast.Tuple, ast.List)):
            for t in target.elts:
                self._bind(t, orig, env)
        elif isinstance(target, ast.Starred):
            self._bind(target.value, orig, env)

    def _write(self, s, orig, line, what):
        for p in direct(orig):
            s.writes.setdefault(p, [])
            if (line, what) not in s.writes[p]:
                s.writes[p].append((line, what))

    def _calls_in(self, e):
        return [x for x in ast.walk(e) if isinstance(x, ast.Call)]

    def _effects_of_calls(self, e, env, s):
        for c in self._calls_in(e):
            name = dotted(c.func)
            if isinstance(c.func, ast.Attribute) and c.func.attr in MUTATORS:
                self._write(s, self.origins(c.func.value, env), c.lineno, f".{c.func.attr}(...) on {ast.unparse(c.func.value)}")
            if name == "setattr" and c.args:
                self._write(s, self.origins(c.args[0], env), c.lineno, "setattr")
            targets = []
            if isinstance(c.func, ast.Name) and c.func.id in self.funcs:
                targets = [(c.func.id, None)]
            elif isinstance(c.func, ast.Subscript) and dotted(c.func.value) in self.registries:
                targets = [(f, None) for f in self.registries[dotted(c.func.value)] if f in self.funcs]
            elif isinstance(c.func, ast.Attribute):
                targets = [(f, c.func.value) for f in self.funcs if f.endswith("." + c.func.attr) and c.func.attr not in READONLY_METHODS]
            for fname, recv in targets:
                actual = self._actuals(fname, c, env, recv)
                for p, ws in self.summ.get(fname, Summary([])).writes.items():
                    if ws and p in actual:
                        # the callee may reach inside a container it is handed: conservative
                        self._write(s, strip(actual[p]), c.lineno, f"{fname}() writes its parameter {p} ({ws[0][1]} at line {ws[0][0]})")

    def _run(self, stmts, env, s):
        for st in stmts:
            if isinstance(st, ast.Assign):
                self._effects_of_calls(st.value, env, s)
                orig = self.origins(st.value, env)
                for t in st.targets:
                    if isinstance(t, (ast.Attribute, ast.Subscript)):
                        self._write(s, self.origins(t.value, env), st.lineno, f"store to {ast.unparse(t)}")
                        # the stored value becomes reachable from the base object
                        b = t
                        while isinstance(b, (ast.Attribute, ast.Subscript)):
                            b = b.value
                        if isinstance(b, ast.Name):
                            env[b.id] = set(env.get(b.id, set())) | contain(orig)
                    elif isinstance(t, (ast.Tuple, ast.List)) and isinstance(st.value, (ast.Tuple, ast.List)) and len(t.elts) == len(st.value.elts):
                        for tt, vv in zip(t.elts, st.value.elts):
                            self._bind(tt, self.origins(vv, env), env)
                    elif isinstance(t, (ast.Tuple, ast.List)):
                        self._bind(t, strip(orig), env)
                    else:
                        self._bind(t, orig, env)
            elif isinstance(st, ast.AugAssign):
                self._effects_of_calls(st.value, env, s)
                t = st.target
                base = t.value if isinstance(t, (ast.Attribute, ast.Subscript)) else t
                self._write(s, self.origins(t if isinstance(t, ast.Name) else base, env), st.lineno, f"in-place {ast.unparse(t)} {type(st.op).__name__}=")
            elif isinstance(st, ast.Expr):
                self._effects_of_calls(st.value, env, s)
            elif isinstance(st, ast.Return):
                if st.value is not None:
                    self._effects_of_calls(st.value, env, s)
                    s.returns |= {p for p in self.origins(st.value, env) if p.lstrip("~") in s.params}
            elif isinstance(st, ast.For):
                self._effects_of_calls(st.iter, env, s)
                self._bind(st.target, strip(self.origins(st.iter, env)), env)
                self._run(st.body, env, s)
                self._bind(st.target, strip(self.origins(st.iter, env)), env)
                self._run(st.body, env, s)
                self._run(st.orelse, env, s)
            elif isinstance(st, ast.While):
                self._effects_of_calls(st.test, env, s)
                self._run(st.body, env, s)
                self._run(st.body, env, s)
            elif isinstance(st, ast.If):
                self._effects_of_calls(st.test, env, s)
                e1, e2 = dict(env), dict(env)
                self._run(st.body, e1, s)
                self._run(st.orelse, e2, s)
                for k in set(e1) | set(e2):
                    env[k] = set(e1.get(k, set())) | set(e2.get(k, set()))
            elif isinstance(st, ast.With):
                for it in st.items:
                    self._effects_of_calls(it.context_expr, env, s)
                self._run(st.body, env, s)
            elif isinstance(st, ast.Try):
                self._run(st.body, env, s)
                for h in st.handlers:
                    self._run(h.body, env, s)
                self._run(st.orelse, env, s)
                self._run(st.finalbody, env, s)
            elif isinstance(st, ast.Raise):
                pass
            elif isinstance(st, ast.Delete):
                for t in st.targets:
                    if isinstance(t, ast.Subscript):
                        self._write(s, self.origins(t.value, env), st.lineno, f"del {ast.unparse(t)}")
            elif isinstance(st, ast.FunctionDef):
                pass


def frame_obligations(module, functions, forbidden_params, extra_fresh=(), allowed=(), scalars=()):
    """-> list of (name, ok, detail): function `f` never writes storage reachable from parameter `p` (except `allowed` (f, p, substring))"""
    an = Analyzer(module, extra_fresh)
    an.scalars = set(scalars)
    summ = an.solve()
    out = []
    for f in functions:
        if f not in summ:
            out.append((f"{module}.{f} exists", False, "function not found"))
            continue
        for p in forbidden_params:
            if p not in summ[f].params:
                continue
            ws = [w for w in summ[f].writes.get(p, []) if not any(a[0] == f and a[1] == p and a[2] in w[1] for a in allowed)]
            out.append((f"frame[{module.split('.')[-1]}.{f}: no write reaches storage of parameter `{p}`]", not ws,
                        "; ".join(f"line {ln}: {what}" for ln, what in ws[:4])))
    return out


def module_state_obligations(module):
    """No function of `module` writes module-level mutable state (caches, registries): results must not depend on earlier calls."""
    src, tree = loader.load_module(module)
    globals_ = set()
    for n in tree.body:
        if isinstance(n, ast.Assign):
            for t in n.targets:
                if isinstance(t, ast.Name):
                    globals_.add(t.id)
    out = []
    bad = []

    def locals_of(fn):
        loc = {a.arg for a in fn.args.args + fn.args.kwonlyargs + fn.args.posonlyargs}
        for x in ast.walk(fn):
            if isinstance(x, ast.Name) and isinstance(x.ctx, ast.Store):
                loc.add(x.id)
            if isinstance(x, (ast.For, ast.comprehension)):
                for y in ast.walk(x.target):
                    if isinstance(y, ast.Name):
                        loc.add(y.id)
        return loc

    def visit(fn, qual):
        loc = locals_of(fn)
        declared_global = set()
        for x in ast.walk(fn):
            if isinstance(x, (ast.Global, ast.Nonlocal)):
                declared_global |= set(x.names)
                bad.append((qual, x.lineno, f"global {', '.join(x.names)}"))
        for x in ast.walk(fn):
            tgt = None
            if isinstance(x, ast.Assign):
                tgt = x.targets
            elif isinstance(x, ast.AugAssign):
                tgt = [x.target]
            for t in tgt or []:
                if isinstance(t, (ast.Subscript, ast.Attribute)):
                    b = t
                    while isinstance(b, (ast.Subscript, ast.Attribute)):
                        b = b.value
                    if isinstance(b, ast.Name) and b.id in globals_ and (b.id not in loc or b.id in declared_global):
                        bad.append((qual, x.lineno, f"store into module-level {b.id}"))
            if isinstance(x, ast.Call) and isinstance(x.func, ast.Attribute) and x.func.attr in MUTATORS | {"setdefault", "__setitem__"}:
                b = x.func.value
                while isinstance(b, (ast.Subscript, ast.Attribute)):
                    b = b.value
                if isinstance(b, ast.Name) and b.id in globals_ and (b.id not in loc or b.id in declared_global):
                    bad.append((qual, x.lineno, f".{x.func.attr}() on module-level {b.id}"))
    # module-level *mutable* objects (dict / list / set displays or constructor calls) must not escape into objects the functions hand out:
    # `obj.attr = GLOBAL`, `obj[k] = GLOBAL`, `return GLOBAL` make every holder share (and later write) the same state
    mutable_globals = set()
    for n in tree.body:
        if isinstance(n, ast.Assign) and (isinstance(n.value, (ast.Dict, ast.List, ast.Set, ast.DictComp, ast.ListComp, ast.SetComp))
                                          or (isinstance(n.value, ast.Call) and isinstance(n.value.func, ast.Name) and n.value.func.id in ("dict", "list", "set", "defaultdict", "OrderedDict"))):
            for t in n.targets:
                if isinstance(t, ast.Name):
                    mutable_globals.add(t.id)

    def visit_escape(fn, qual):
        loc = locals_of(fn)
        for x in ast.walk(fn):
            if isinstance(x, ast.Assign) and isinstance(x.value, ast.Name) and x.value.id in mutable_globals and x.value.id not in loc:
                if any(isinstance(t, (ast.Attribute, ast.Subscript)) for t in x.targets):
                    bad.append((qual, x.lineno, f"module-level mutable {x.value.id} stored into an object (shared by reference)"))
            if isinstance(x, ast.Return) and isinstance(x.value, ast.Name) and x.value.id in mutable_globals and x.value.id not in loc:
                bad.append((qual, x.lineno, f"module-level mutable {x.value.id} returned (shared by reference)"))
    for n in tree.body:
        if isinstance(n, ast.FunctionDef):
            visit(n, n.name)
            visit_escape(n, n.name)
        if isinstance(n, ast.ClassDef):
            for m in n.body:
                if isinstance(m, ast.FunctionDef):
                    visit(m, f"{n.name}.{m.name}")
                    visit_escape(m, f"{n.name}.{m.name}")
    out.append((f"no-hidden-state[{module}: no function writes module-level state]", not bad,
                "; ".join(f"{q} line {ln}: {w}" for q, ln, w in bad[:4])))
    return out
