"""Re-reads the real source under /repo on every run and hands out function ASTs by qualified name."""
import ast
import hashlib
import os

REPO = os.environ.get("HVSRPY_REPO", "/repo")

_cache = {}


def module_path(module):
    return os.path.join(REPO, *module.split(".")) + ".py"


def load_module(module):
    path = module_path(module)
    if path not in _cache:
        with open(path, "r", encoding="utf-8") as f:
            src = f.read()
        _cache[path] = (src, ast.parse(src, filename=path))
    return _cache[path]


def find(qual):
    """qual = 'hvsrpy.smoothing.linear_rectangular' or 'hvsrpy.timeseries.TimeSeries.split'.
    Returns (node, info) where info has file, lines, sha256 of the function's source text, decorators."""
    parts = qual.split(".")
    for cut in range(len(parts) - 1, 0, -1):
        module = ".".join(parts[:cut])
        if os.path.exists(module_path(module)):
            rest = parts[cut:]
            break
    else:
        raise KeyError(f"no module for {qual}")
    src, tree = load_module(module)
    node = tree
    for name in rest:
        for ch in node.body:
            if isinstance(ch, (ast.FunctionDef, ast.ClassDef)) and ch.name == name:
                node = ch
                break
        else:
            raise KeyError(f"{name} not found in {module} (looking for {qual})")
    seg = ast.get_source_segment(src, node)
    decos = []
    for d in getattr(node, "decorator_list", []):
        decos.append(ast.unparse(d))
    info = dict(qualname=qual, file=module_path(module), lines=[node.lineno, node.end_lineno],
                sha256=hashlib.sha256(seg.encode()).hexdigest(), decorators=decos)
    return node, info


def module_assign(module, name):
    """AST value of a module-level assignment `name = ...`."""
    src, tree = load_module(module)
    for ch in tree.body:
        if isinstance(ch, ast.Assign) and any(isinstance(t, ast.Name) and t.id == name for t in ch.targets):
            return ch.value
    raise KeyError(f"{module}.{name}")


def strip_docstring(fn):
    body = fn.body
    if body and isinstance(body[0], ast.Expr) and isinstance(body[0].value, ast.Constant) and isinstance(body[0].value.value, str):
        return body[1:]
    return body
