"""Which functions of /repo/hvsrpy have a function contract, which do not:  python3-vt tools/coverage.py [-u]"""
import ast, os, glob, importlib, sys
sys.path.insert(0, os.path.dirname(os.path.dirname(os.path.abspath(__file__))))
from pyvc.contract import FunctionTask
REPO = os.environ.get("HVSRPY_REPO", "/repo")
allf = {}
for f in glob.glob(REPO + '/hvsrpy/*.py'):
    t = ast.parse(open(f).read()); mod = os.path.basename(f)[:-3]
    for n in t.body:
        if isinstance(n, ast.FunctionDef):
            allf["hvsrpy.%s.%s" % (mod, n.name)] = n.end_lineno - n.lineno
        if isinstance(n, ast.ClassDef):
            for m in n.body:
                if isinstance(m, ast.FunctionDef):
                    allf["hvsrpy.%s.%s.%s" % (mod, n.name, m.name)] = m.end_lineno - m.lineno
cov = {}
for i in range(1, 21):
    m = importlib.import_module('contracts.C%02d' % i)
    for t in m.TASKS:
        if isinstance(t, FunctionTask):
            cov.setdefault(t.contract.qual, set()).add('C%02d' % i)
unknown = sorted(k for k in cov if k not in allf)
print(len(allf), "functions,", len([k for k in cov if k in allf]), "under contract;", "contract names not found in the source:", unknown)
if "-u" in sys.argv:
    for k in sorted(allf):
        if k not in cov:
            print("  ", k, allf[k])
else:
    for k in sorted(cov):
        print("  ", k, ",".join(sorted(cov[k])))
