#!/bin/bash
# usage: tools/mutcheck.sh <Cxx> <patch.diff> [-R]   applies the patch to /repo, runs the quick check, restores /repo
id=$1; patch=$2; rev=$3
cd /repo || exit 9
if [ -n "$(git status --porcelain --untracked-files=no)" ]; then echo "/repo not clean"; exit 9; fi
git apply $rev "$patch" || { echo "patch does not apply"; exit 9; }
cd /verif && python3-vt -m pyvc.check $id --tier quick 2>&1 | grep -v "^UNDECIDED" | cut -c1-300
rc=${PIPESTATUS[0]}
cd /repo && git checkout -q -- . 
echo "rc=$rc"
