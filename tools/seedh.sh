#!/bin/bash
# usage: tools/seedh.sh Cxx-n [tier] [seeds...]  - native harness of the property against a scratch copy of /repo with the seeded change applied
s=$1; tier=${2:-quick}; shift; shift; seeds=${@:-0 1}
pid=${s%%-*}
tmp=$(mktemp -d /tmp/seedh.XXXX)
rsync -a --exclude .git --exclude __pycache__ /repo/ $tmp/
patch -s -p1 -d $tmp -i /verif/seeded/$s/patch.diff || { echo "patch does not apply"; rm -rf $tmp; exit 9; }
for sd in $seeds; do echo "== $s seed $sd"; VERIF_SEED=$sd HVSRPY_REPO=$tmp /verif/tools/runh.sh $pid $tier $tmp 2>&1 | grep -v conda | grep "FAIL\|Error\|Traceback" | cut -c1-400 | head -5; done
rm -rf $tmp
