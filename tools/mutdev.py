#!/usr/bin/env python3
"""Prover-only run against a changed scratch copy of /repo (never touches /repo):
   tools/mutdev.py Cxx <task filter> --patch file.diff | --sub <relpath> <old> <new> [--sub ...]"""
import os, shutil, subprocess, sys, tempfile

cid, flt = sys.argv[1], sys.argv[2]
rest = sys.argv[3:]
tmp = tempfile.mkdtemp(prefix="mutdev.")
try:
    subprocess.check_call(["rsync", "-a", "--exclude", ".git", "--exclude", "__pycache__", os.environ.get("MUTDEV_BASE", "/repo") + "/", tmp + "/"])
    i = 0
    while i < len(rest):
        if rest[i] == "--patch":
            subprocess.check_call(["patch", "-s", "-p1", "-d", tmp, "-i", os.path.abspath(rest[i + 1])])
            i += 2
        elif rest[i] == "--sub":
            p = os.path.join(tmp, rest[i + 1])
            s = open(p).read()
            if s.count(rest[i + 2]) != 1:
                sys.exit(f"pattern occurs {s.count(rest[i + 2])} times in {rest[i + 1]}: {rest[i + 2]!r}")
            open(p, "w").write(s.replace(rest[i + 2], rest[i + 3]))
            i += 4
        else:
            sys.exit("bad args")
    env = dict(os.environ, HVSRPY_REPO=tmp)
    r = subprocess.run(["python3-vt", "tools/dev.py", cid, flt], env=env, cwd="/verif", capture_output=True, text=True)
    for ln in (r.stdout + r.stderr).splitlines():
        print(ln[:260])
finally:
    shutil.rmtree(tmp, ignore_errors=True)
