"""Mutation self-test of the contracts (prover only, scratch copies of /repo, never /repo itself):  python3 tools/selfmut.py [-j 4] [filter]

Each entry of tools/mutants.json is (contracts module, task-label filter, file, old text, new text, note).  The mutated function must fail at least one
obligation of the filtered tasks (refuted, candidate, unknown or the function undecided); an entry whose tasks all still discharge is a hole in a contract.
The unchanged tree is run first for the same filters: everything must discharge there.
"""
import json
import os
import shutil
import subprocess
import sys
import tempfile
from concurrent.futures import ThreadPoolExecutor

HERE = os.path.dirname(os.path.dirname(os.path.abspath(__file__)))
args = sys.argv[1:]
jobs = 4
if "-j" in args:
    jobs = int(args[args.index("-j") + 1])
    del args[args.index("-j"):args.index("-j") + 2]
flt = args[0] if args else ""
MUT = [m for m in json.load(open(os.path.join(HERE, "tools", "mutants.json"))) if flt in m["module"] + " " + m["filter"] + " " + m["note"]]


def run(module, task_filter, repo):
    env = dict(os.environ, HVSRPY_REPO=repo)
    r = subprocess.run(["python3-vt", "tools/dev.py", module, task_filter], env=env, cwd=HERE, capture_output=True, text=True, timeout=1800)
    lines = [l for l in (r.stdout + r.stderr).splitlines() if "WARNING conda" not in l]
    tasks = [l for l in lines if ": " in l and " obligations, " in l]
    und = [l for l in lines if l.startswith("UNDECIDED")]
    bad = [l for l in lines if l.startswith("    ") and l.split()[0] in ("refuted", "unknown", "candidate", "skipped")]
    all_ok = bool(tasks) and not und and not bad and all(l.split(" obligations, ")[0].split()[-1] == l.split(" obligations, ")[1].split()[0] for l in tasks)
    kinds = sorted({l.split()[0] for l in bad} | ({"undecided-function"} if und else set()))
    return all_ok, kinds, len(tasks) + len(und)


def one(m):
    tmp = tempfile.mkdtemp(prefix="selfmut.")
    try:
        subprocess.check_call(["rsync", "-a", "--exclude", ".git", "--exclude", "__pycache__", "/repo/", tmp + "/"])
        p = os.path.join(tmp, m["file"])
        s = open(p).read()
        if s.count(m["old"]) != 1:
            return m, "STALE", f"pattern occurs {s.count(m['old'])} times (the source changed: update tools/mutants.json)"
        open(p, "w").write(s.replace(m["old"], m["new"]))
        ok, kinds, n = run(m["module"], m["filter"], tmp)
        if n == 0:
            return m, "NO-TASK", "the filter selects no task"
        return m, ("SURVIVED" if ok else "killed"), ",".join(kinds)
    finally:
        shutil.rmtree(tmp, ignore_errors=True)


base = {}
for key in sorted({(m["module"], m["filter"]) for m in MUT}):
    ok, kinds, n = run(key[0], key[1], "/repo")
    base[key] = ok
    if not ok:
        print("UNCHANGED TREE NOT FULLY DISCHARGED:", key, kinds)
res = []
with ThreadPoolExecutor(max_workers=jobs) as pool:
    for m, verdict, detail in pool.map(one, MUT):
        print(f"{verdict:9s} {m['module']:16s} {m['filter'][:60]:60s} {m['note'][:70]:70s} {detail}", flush=True)
        res.append(verdict)
print(f"{res.count('killed')} killed, {res.count('SURVIVED')} survived, {res.count('STALE')} stale, {res.count('NO-TASK')} without task; unchanged tree ok for {sum(base.values())}/{len(base)} filters")
sys.exit(0 if not res.count("SURVIVED") and all(base.values()) else 1)
