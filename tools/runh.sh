#!/bin/bash
# usage: tools/runh.sh Cxx [tier] [repo]  - run the native harness alone and summarise
id=$1; tier=${2:-quick}; repo=${3:-/repo}
cd /verif && PYTHONPATH=$repo:/verif MPLBACKEND=Agg /venv/bin/python -W ignore -m bounded.$id --tier $tier --seed ${VERIF_SEED:-0} --out /tmp/h_$id.json 2>&1 | tail -5
python3 - <<PY
import json
d=json.load(open('/tmp/h_$id.json'))
for c in d['clauses']:
    print(c['name'][:90], 'cases', c['cases'], 'nontrivial', c['nontrivial'], 'skipped', c['skipped'])
    for f in c['failures']:
        print('    FAIL', f.get('function'), '|', f['message'][:700], '|', f.get('signature'))
print('wall', round(d['wall_s'],1))
PY
