"""Run checks against the seeded changes:  python3 tools/seedrun.py [C01-1 C02 ...] [--also C05]

For each seeded change: git -C /repo apply, run the quick check of the property it breaks (plus --also), git checkout.
Writes seeded/RESULTS.json and updates detected_by in each meta.json.  /repo must be clean before and is clean after.
"""
import json
import os
import subprocess
import sys
import time

HERE = os.path.dirname(os.path.dirname(os.path.abspath(__file__)))
args = [a for a in sys.argv[1:] if not a.startswith("--")]
also = []
if "--also" in sys.argv:
    also = sys.argv[sys.argv.index("--also") + 1].split(",")
    args = [a for a in args if a not in sys.argv[sys.argv.index("--also") + 1]]
seeds = sorted(os.listdir(os.path.join(HERE, "seeded")))
seeds = [s for s in seeds if os.path.isdir(os.path.join(HERE, "seeded", s))]
if args:
    seeds = [s for s in seeds if any(s == a or s.startswith(a + "-") for a in args)]
resfile = os.path.join(HERE, "seeded", "RESULTS.json")
results = json.load(open(resfile)) if os.path.exists(resfile) else {}


def sh(cmd, **kw):
    return subprocess.run(cmd, shell=True, capture_output=True, text=True, **kw)


if sh("git -C /repo status --porcelain --untracked-files=no").stdout.strip():
    print("/repo is not clean")
    sys.exit(9)
for s in seeds:
    d = os.path.join(HERE, "seeded", s)
    meta = json.load(open(os.path.join(d, "meta.json")))
    pids = [meta["breaks_property"]] + [a for a in also if a != meta["breaks_property"]]
    r = sh(f"git -C /repo apply {d}/patch.diff")
    if r.returncode:
        print(s, "patch does not apply:", r.stderr[:200])
        continue
    try:
        out = {}
        for pid in pids:
            t = time.time()
            p = sh(f"cd {HERE} && python3-vt -m pyvc.check {pid} --tier quick", timeout=3600)
            viol = [l for l in p.stdout.split("\n") if l.startswith("VIOLATION")]
            out[pid] = dict(rc=p.returncode, violations=viol, wall_s=round(time.time() - t, 1),
                            summary=[l for l in p.stdout.split("\n") if l.startswith("[")][:1],
                            undecided=len([l for l in p.stdout.split("\n") if l.startswith("UNDECIDED")]))
            print(s, pid, "rc=", p.returncode, f"{time.time() - t:.0f}s", viol[:3])
    finally:
        sh("git -C /repo checkout -- .")
    results[s] = out
    det = [pid for pid, o in out.items() if o["rc"] == 1]
    meta["detected_by"] = [f"{pid}: " + "; ".join(v.split("replay=")[1] for v in out[pid]["violations"][:3]) for pid in det] or None
    meta["checked_at_verif_commit"] = sh(f"git -C {HERE} rev-parse --short HEAD").stdout.strip()
    json.dump(meta, open(os.path.join(d, "meta.json"), "w"), indent=1)
    json.dump(results, open(resfile, "w"), indent=1)
