"""Parallel sweep of the seeded changes on scratch copies (never touches /repo):  python3 tools/seedrun_par.py [-j 4] [C01-1 C02 ...]

For each seeded change: copy /repo (without .git) and /verif (without .git / seeded / replays) to a scratch directory, apply the patch to the
copy, run the quick check of the property it breaks there (HVSRPY_REPO points the loader and the native harness at the copy), remove the scratch.
Writes seeded/RESULTS.json and updates detected_by in each meta.json.  A patch that no longer applies to the current /repo is reported as such.
"""
import json
import os
import shutil
import subprocess
import sys
import tempfile
import time
from concurrent.futures import ThreadPoolExecutor

HERE = os.path.dirname(os.path.dirname(os.path.abspath(__file__)))
args = sys.argv[1:]
jobs = 4
if "-j" in args:
    jobs = int(args[args.index("-j") + 1])
    del args[args.index("-j"):args.index("-j") + 2]
seeds = sorted(s for s in os.listdir(os.path.join(HERE, "seeded")) if os.path.isdir(os.path.join(HERE, "seeded", s)))
if args:
    seeds = [s for s in seeds if any(s == a or s.startswith(a + "-") for a in args)]
resfile = os.path.join(HERE, "seeded", "RESULTS.json")
results = json.load(open(resfile)) if os.path.exists(resfile) else {}
commit = subprocess.run(["git", "-C", HERE, "rev-parse", "--short", "HEAD"], capture_output=True, text=True).stdout.strip()


def sh(cmd, **kw):
    return subprocess.run(cmd, shell=True, capture_output=True, text=True, **kw)


def one(s):
    d = os.path.join(HERE, "seeded", s)
    meta = json.load(open(os.path.join(d, "meta.json")))
    pid = meta["breaks_property"]
    tmp = tempfile.mkdtemp(prefix=f"seedpar.{s}.")
    try:
        sh(f"rsync -a --exclude .git --exclude __pycache__ /repo/ {tmp}/repo/")
        sh(f"rsync -a --exclude .git --exclude seeded --exclude replays --exclude __pycache__ {HERE}/ {tmp}/verif/")
        r = sh(f"patch -s -p1 -d {tmp}/repo -i {d}/patch.diff")
        if r.returncode:
            return s, pid, dict(rc=None, error="patch does not apply to the current /repo: " + (r.stdout + r.stderr)[:300])
        t = time.time()
        env = dict(os.environ, HVSRPY_REPO=f"{tmp}/repo")
        try:
            p = subprocess.run(["python3-vt", "-m", "pyvc.check", pid, "--tier", "quick"], cwd=f"{tmp}/verif", env=env, capture_output=True, text=True, timeout=3600)
        except subprocess.TimeoutExpired:
            return s, pid, dict(rc=None, error="timeout")
        out = p.stdout.split("\n")
        viol = [l for l in out if l.startswith("VIOLATION")]
        return s, pid, dict(rc=p.returncode, violations=viol, wall_s=round(time.time() - t, 1), summary=[l for l in out if l.startswith("[")][:1],
                            undecided=len([l for l in out if l.startswith("UNDECIDED")]), error=(p.stderr[-400:] if p.returncode not in (0, 1) else None))
    finally:
        shutil.rmtree(tmp, ignore_errors=True)


with ThreadPoolExecutor(max_workers=jobs) as pool:
    for s, pid, o in pool.map(one, seeds):
        print(s, pid, "rc=", o.get("rc"), o.get("wall_s"), (o.get("violations") or [o.get("error")])[:2], flush=True)
        results[s] = {pid: o}
        d = os.path.join(HERE, "seeded", s)
        meta = json.load(open(os.path.join(d, "meta.json")))
        meta["detected_by"] = ([f"{pid}: " + "; ".join(v.split("replay=")[1] for v in o["violations"][:3])] if o.get("rc") == 1 else None)
        if meta.get("superseded"):
            o["superseded"] = meta["superseded"]
        meta["checked_at_verif_commit"] = commit
        if o.get("error") and o.get("rc") is None:
            meta["note_on_current_tree"] = o["error"]
        json.dump(meta, open(os.path.join(d, "meta.json"), "w"), indent=1)
        json.dump(results, open(resfile, "w"), indent=1)
def _superseded(s):
    return bool(json.load(open(os.path.join(HERE, "seeded", s, "meta.json"))).get("superseded"))


missed = [s for s in seeds if results.get(s) and list(results[s].values())[0].get("rc") != 1 and not _superseded(s)]
print("missed:", missed, "| no longer property-breaking after a repair (silence is right):", [s for s in seeds if _superseded(s)])
