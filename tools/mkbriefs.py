#!/usr/bin/env python3
"""Briefs and scratch worktrees for a round of independently written property-breaking changes:  python3 tools/mkbriefs.py /tmp/mutN

For every property: /tmp/mutN/Cxx/brief.txt (the property's title and statement, the rules of the exercise, the mechanisms already tried on that property - taken
from seeded/Cxx-*/meta.json - and the deliverables), /tmp/mutN/Cxx/out/ and a detached worktree of /repo at /tmp/mutN/Cxx/wt.  The sub-agent gets only
"read /tmp/mutN/Cxx/brief.txt and do what it says": nothing from /verif.  Afterwards: MUT_BASE=/tmp/mutN MUT_ROUND=<name> python3 tools/ingest_seed.py Cxx K N,
tools/seedrun_par.py, and `git -C /repo worktree remove --force` for every worktree.
"""
import glob
import json
import os
import subprocess
import sys

HERE = os.path.dirname(os.path.dirname(os.path.abspath(__file__)))
base = sys.argv[1]
props = {}
for line in open(os.path.join(HERE, "properties.jsonl")):
    d = json.loads(line)
    props[d["id"]] = d

TEMPLATE = """You are helping to test a verification setup for the Python library hvsrpy (horizontal-to-vertical spectral ratio processing of seismic recordings). You work ONLY in your own scratch git worktree of the library at {wt} (never touch /repo or /verif, never commit, never use `git stash` - other people's worktrees share the stash). Write your deliverables to {out}/.

The property under test ({pid}: {title}):

\"\"\"{statement}\"\"\"

Your task: invent TWO different, realistic changes to the library source (files under {wt}/hvsrpy/, not the tests) that BREAK this property, of the kind a maintainer could plausibly commit - a refactoring slip, an 'optimisation' or cache, a vectorisation, a changed default, a boundary or off-by-one error, an aliasing / shared-state mistake, a wrong variable in a rarely taken branch, an in-place operation, an ordering assumption and so on. Each change must:
  1. keep the package importable and leave the result of the existing test suite unchanged. Run it with:  cd {wt} && PYTHONPATH={wt} MPLBACKEND=Agg /venv/bin/python -m pytest -q -p no:cacheprovider --timeout=900   (about 90 s; on the clean tree exactly 3 tests fail - test_read_single_on_minishark, test_notebook_example_hvsr_cli, test_notebook_example_psd_and_self_noise - and 157 pass; with your change the same 157 must still pass);
  2. need something specific to manifest - particular inputs, options, a particular history of calls, an unusual but legal argument - so that it is NOT visible on every ordinary input (a change that breaks the first thing anyone tries is not interesting);
  3. be a genuine violation of the property as stated (read the code the property depends on first; say in the notes which sentence of the property is violated and why);
  4. use a mechanism different from these, which were already tried in earlier rounds (choose other functions, other branches or other kinds of mistake where you can; changes in rarely visited parts of the code the property depends on are especially welcome - helper functions, alternative input types, error paths, options nobody uses, interactions between two features):
{tried}

Deliverables, for K = 1 and 2, in {out}/:
  - changeK.diff : output of `git -C {wt} diff` with only that change applied (it must apply with `git apply` to a clean checkout of the same commit);
  - changeK_demo.py : a standalone script that exits with status 0 on the UNCHANGED library and with status 1 when the change is applied (print what differs). It is run as  `cd /tmp && PYTHONPATH=<some checkout of the library> MPLBACKEND=Agg /venv/bin/python changeK_demo.py`, so it must import hvsrpy from PYTHONPATH, must not depend on the current directory, and must locate any data file relative to hvsrpy's own location (e.g. pathlib.Path(hvsrpy.__file__).parent / 'test' / 'data' / ...) or build its inputs itself (synthetic recordings are fine and usually better). Keep it under a minute. Check the property directly (an independent computation of what the property promises), not a comparison with numbers copied from the unchanged library;
  - changeK_notes.md : what the change is (file, function), why it breaks the property, exactly what is needed for it to manifest, and what kind of mistake it imitates.

Procedure: make change 1 in the worktree, run the test suite and your demo (expect exit 1), save the diff, then `git -C {wt} checkout -- .` and check the demo exits 0 on the clean tree; then the same for change 2. Leave the worktree clean (`git -C {wt} status --short` empty) when you finish. Python to use: /venv/bin/python (it has numpy, scipy, obspy, matplotlib, pandas, shapely). There is no network. Report briefly at the end what the two changes are and the observed exit codes / test results."""

for pid, p in sorted(props.items()):
    tried = []
    for d in sorted(glob.glob(os.path.join(HERE, "seeded", pid + "-*")), key=lambda x: int(x.split("-")[-1])):
        m = json.load(open(os.path.join(d, "meta.json")))
        lines = [x.strip().lstrip("# ").strip() for x in m.get("needs_to_manifest", []) if x.strip()]
        first = lines[0] if lines else ""
        if len(first) < 60 and len(lines) > 1:
            nxt = [x for x in lines[1:] if not x.lower().startswith(("what", "## "))]
            if nxt:
                first = first + " - " + nxt[0]
        tried.append(f"  - {os.path.basename(m['files_changed'][0])}: {first[:260]}")
    wt, out = f"{base}/{pid}/wt", f"{base}/{pid}/out"
    os.makedirs(out, exist_ok=True)
    open(f"{base}/{pid}/brief.txt", "w").write(TEMPLATE.format(wt=wt, out=out, pid=pid, title=p["title"], statement=p["statement"], tried="\n".join(tried)))
    if not os.path.isdir(wt):
        r = subprocess.run(f"git -C /repo worktree add --detach {wt} HEAD", shell=True, capture_output=True, text=True)
        assert r.returncode == 0, r.stderr
print("briefs and worktrees under", base)
