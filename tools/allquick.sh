#!/bin/bash
# every quick check on the working tree, several side by side:  tools/allquick.sh [seed] [C01 ...]
seed=${1:-0}; shift
ids=${@:-C01 C02 C03 C04 C05 C06 C07 C08 C09 C10 C11 C12 C13 C14 C15 C16 C17 C18 C19 C20}
one() { s=$1; c=$2; t0=$(date +%s)
  out=$(VERIF_SEED=$s python3-vt -m pyvc.check $c --tier quick 2>&1); rc=$?
  echo "seed=$s $c rc=$rc $(( $(date +%s) - t0 ))s $(echo "$out" | grep -c '^UNDECIDED') undecided $(echo "$out" | grep -E '^\[C' | sed 's/.*functions=/functions=/' | cut -c1-90) $(echo "$out" | grep -E '^(VIOLATION|KNOWN)' | head -3 | cut -c1-220 | tr '\n' ' ')"; }
export -f one
printf "%s\n" $ids | xargs -P 4 -I{} bash -c "one $seed {}"
