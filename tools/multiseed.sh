#!/bin/bash
# every quick check on the unchanged tree for several seeds:  tools/multiseed.sh "0 1 2 3" [C01 C02 ...]
seeds=${1:-"0 1 2 3"}; shift
ids=${@:-C01 C02 C03 C04 C05 C06 C07 C08 C09 C10 C11 C12 C13 C14 C15 C16 C17 C18 C19 C20}
for s in $seeds; do for c in $ids; do
  out=$(VERIF_SEED=$s python3-vt -m pyvc.check $c --tier quick 2>&1); rc=$?
  echo "seed=$s $c rc=$rc $(echo "$out" | grep -c '^UNDECIDED') undecided $(echo "$out" | grep '^VIOLATION' | head -2 | cut -c1-200)"
done; done
