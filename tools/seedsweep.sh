#!/bin/bash
# usage: tools/seedsweep.sh "C01 C02" "0 1 2 3" [tier]   -> prints failures per harness/seed (excluding known F-9 clauses)
for id in $1; do for s in $2; do
  out=$(cd /verif && PYTHONPATH=/repo:/verif MPLBACKEND=Agg /venv/bin/python -W ignore -m bounded.$id --tier ${3:-quick} --seed $s --out /tmp/sw_${id}_$s.json 2>&1 | tail -2)
  python3 - <<PY
import json
d=json.load(open('/tmp/sw_${id}_$s.json'))
bad=[(c['name'][:60],f['signature'],f['message'][:200]) for c in d['clauses'] for f in c['failures'] if not str(f.get('signature','')).startswith('F-')]
print('$id seed $s', 'OK' if not bad else bad, round(d['wall_s'],1))
PY
done; done
