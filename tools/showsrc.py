"""print python files without docstrings / licence / blank lines (reading aid only)"""
import ast,sys
for f in sys.argv[1:]:
    src=open(f).read()
    tree=ast.parse(src)
    lines=src.split("\n")
    drop=set()
    for n in ast.walk(tree):
        if isinstance(n,(ast.FunctionDef,ast.ClassDef,ast.Module)):
            b=n.body
            if b and isinstance(b[0],ast.Expr) and isinstance(b[0].value,ast.Constant) and isinstance(b[0].value.value,str):
                for l in range(b[0].lineno,b[0].end_lineno+1): drop.add(l)
    print("=====",f)
    for i,l in enumerate(lines,1):
        if i<17 or i in drop: continue
        if l.strip()=="" : continue
        print(f"{i}:{l}")
