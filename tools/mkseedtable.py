"""prints the markdown table 'seeded change -> which check catches it' from seeded/RESULTS.json"""
import json, os
HERE = os.path.dirname(os.path.dirname(os.path.abspath(__file__)))
R = json.load(open(os.path.join(HERE, "seeded", "RESULTS.json")))
print("| seeded change | file | what it does | caught by |")
print("|---|---|---|---|")
for sid in sorted(R):
    meta = json.load(open(os.path.join(HERE, "seeded", sid, "meta.json")))
    notes = open(os.path.join(HERE, "seeded", sid, "notes.md")).read().strip().split("\n")
    title = [l for l in notes if l.strip()][0].lstrip("# ").strip()
    cells = []
    for pid, o in R[sid].items():
        kinds = set()
        for v in o["violations"]:
            base = os.path.basename(v.split("replay=")[1].split()[0])
            kinds.add("structural / frame obligation" if base.startswith("struct_") else
                      "native evaluation of the contract" if base.startswith(("bounded_", "cross-check_")) else "refuted PyVC obligation (replayed natively)")
        cells.append(f"{pid}: " + ("; ".join(sorted(kinds)) if o["rc"] == 1 else ("no longer property-breaking after " + ("3d8a081" if "3d8a081" in str(o.get("superseded")) else "07c0314") + " (silence is right)" if o.get("superseded") else "**missed**")))
    print(f"| {sid} | {', '.join(f.replace('hvsrpy/', '') for f in meta['files_changed'])} | {title[:120]} | {' / '.join(cells)} |")
