"""dev runner: python3-vt tools/dev.py C02 [filter] [-v] -- per-task verdicts (every task in its own process, as in the check)"""
import sys, time, importlib
sys.path.insert(0, "/verif")
from pyvc import verify, solve
mod = importlib.import_module("contracts." + sys.argv[1])
flt = sys.argv[2] if len(sys.argv) > 2 and not sys.argv[2].startswith("-") else ""
t0 = time.time()
tasks = [t for t in mod.TASKS if not flt or flt in getattr(t, "label", getattr(t, "name", "?"))]
for d in verify.run_isolated(tasks, timeout_s=20, cover_timeout=5):
    label = d["label"]
    if d["undecided"]:
        print("UNDECIDED", label, d["undecided"]); continue
    vs, cs = d["verdicts"], d["covers"]
    bad = [v for v in vs if v.status != "discharged"]
    print(f"{label}: {len(vs)} obligations, {len(vs)-len(bad)} discharged, covers sat={sum(c.status=='satisfiable' for c in cs)}/{len(cs)}  t={time.time()-t0:.1f}s")
    for v in bad:
        print("   ", v.status, v.name, v.detail, (v.model or "")[:300].replace("\n", " "))
    for c in cs:
        if c.status != "satisfiable":
            print("    cover", c.status, c.name)
    if "-v" in sys.argv:
        for v in sorted(vs, key=lambda v: -v.time_s)[:12]:
            print(f"    {v.time_s:6.2f}s {v.backend:22s} {v.name}  [{v.detail}]")
