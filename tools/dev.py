"""dev runner: python3-vt tools/dev.py C02 [filter] -- prints every obligation verdict"""
import sys, time, importlib
sys.path.insert(0, "/verif")
from pyvc import verify, solve
mod = importlib.import_module("contracts." + sys.argv[1])
flt = sys.argv[2] if len(sys.argv) > 2 else ""
t0 = time.time()
for task in mod.TASKS:
    label = getattr(task, "label", getattr(task, "name", "?"))
    if flt and flt not in label:
        continue
    r = verify.run_task(task)
    if r.undecided:
        print("UNDECIDED", label, r.undecided); continue
    vs = solve.discharge(r.obls, timeout_s=20)
    cs = solve.discharge(r.covers, timeout_s=5)
    bad = [v for v in vs if v.status != "discharged"]
    print(f"{label}: {len(vs)} obligations, {len(vs)-len(bad)} discharged, covers sat={sum(c.status=='satisfiable' for c in cs)}/{len(cs)}  t={time.time()-t0:.1f}s")
    for v in bad:
        print("   ", v.status, v.name, v.detail, (v.model or "")[:300].replace("\n", " "))
    for c in cs:
        if c.status != "satisfiable":
            print("    cover", c.status, c.name)
    if "-v" in sys.argv:
        for v in sorted(vs, key=lambda v: -v.time_s)[:12]:
            print(f"    {v.time_s:6.2f}s {v.backend:22s} {v.name}  [{v.detail}]")
