"""Generates /verif/MANIFEST.json from the claims table below (run: python3 tools/mkmanifest.py)."""
import json
import os
import subprocess

HERE = os.path.dirname(os.path.dirname(os.path.abspath(__file__)))
props = [json.loads(l) for l in open(os.path.join(HERE, "properties.jsonl"))]

# id -> (level category, level text, level note (trusted base), technique, design ref)
CLAIMS = {}
NOT_BUILT = {}


def claim(pid, category, text, note, technique, ref):
    CLAIMS[pid] = (category, text, note, technique, ref)


exec(open(os.path.join(HERE, "tools", "claims.py")).read())

fix_commits = subprocess.run(["git", "-C", "/repo", "log", "--format=%h %s"], capture_output=True, text=True).stdout.strip().split("\n")
fix_commits = [c for c in fix_commits if c.split(" ", 1)[1].startswith("fix:")]

checks = []
for p in props:
    pid = p["id"]
    if pid not in CLAIMS:
        continue
    cat, text, note, tech, ref = CLAIMS[pid]
    checks.append(dict(
        property_id=pid,
        quick_cmd=f"python3-vt -m pyvc.check {pid} --tier quick",
        thorough_cmd=f"python3-vt -m pyvc.check {pid} --tier thorough",
        evidence_file=f"/verif/evidence/{pid}.json",
        replay_cmd_template="python3-vt -m pyvc.check --replay {path}",
        engine="pyvc",
        level_claimed=dict(category=cat, text=text, design_ref=ref),
        level_note=note,
        technique=tech,
    ))
na = []
for p in props:
    if p["id"] not in CLAIMS:
        na.append(dict(property_id=p["id"], reason=NOT_BUILT.get(p["id"], "not built yet (framework under construction; see DESIGN.md section 5 for the planned contract)")))

m = dict(
    version=1,
    setup_cmd="python3-vt -m compileall -q pyvc contracts >/dev/null 2>&1; python3-vt -m pyvc.check --selfcheck",
    hooks=dict(guard="HVSRPY_VERIF",
               enable="none needed: contracts are sidecar files under /verif/contracts; the source under /repo is parsed (and imported by the native harness), never instrumented; the guard variable is unused",
               baseline_off_cmd="cd /repo && /venv/bin/python -m pytest -ra -q -p no:cacheprovider --timeout=900 --continue-on-collection-errors",
               source_commits=[c.split(" ")[0] for c in fix_commits], add_only=True),
    engines=[dict(name="pyvc", path="pyvc/", serves_properties=sorted(CLAIMS),
                  kind_free_text="contract-based deductive verification: AST->SMT verification-condition generator over the real hvsrpy source "
                                 "(re-read on every run) with sidecar contracts in contracts/; back ends z3 5.1, cvc5 1.0.3, z3 4.8; refuting mode + "
                                 "native replay; bounded/ holds the run-time evaluation of the same contracts (CPython cross-check, bounded stand-ins)")],
    checks=checks,
    not_applicable=na,
    notes="source_commits lists the unguarded 'fix:' commits (genuine defects, see known_findings.json and DESIGN.md section 6); no hook commits exist.",
)
json.dump(m, open(os.path.join(HERE, "MANIFEST.json"), "w"), indent=1)
print("claimed:", sorted(CLAIMS), "not applicable:", [x["property_id"] for x in na])
