# claims table, exec'd by tools/mkmanifest.py  (claim(id, category, text, trusted-base note, technique, DESIGN ref))
TB = ("Trusted: Python floats treated as mathematical reals (A-REAL); PyVC's semantics of the Python subset (A-PY); axiomatised numpy/scipy "
      "contracts (elementwise ops, allocation, fft, tukey, percentile, sqrt/sin/cos/log10/10**x as uninterpreted functions with the named "
      "axioms); numba's compilation of the @njit kernels; the PyVC engine and the SMT solvers themselves. ")

claim("C01", "other",
      "Proof (PyVC obligations discharged by z3/cvc5 on the source re-read from /repo): the five combine-horizontals formulas and single_azimuth "
      "pointwise for all vectors, nextpow2 (smallest power-of-two multiple above n, with termination measure), prepare_fft_settings for all four "
      "fft_settings shapes (n >= every record length: zero padding, never truncation), the three registries incl. every alias and the dispatch "
      "functions (structural, from the AST), and the homogeneity / common-factor / closed-form lemmas over the spec functions. Bounded "
      "(labelled, not counted as proved): the numeric pipeline taper -> |rfft| -> combine -> smooth -> divide of process() for all methods is "
      "compared with an independent numpy evaluation on generated windows, because rfft / tukey / percentile are external."
      "The pipeline clauses place Savitzky-Golay centre frequencies off the FFT grid as well as on it.",
      TB + "Bounded clause: 1-3 windows of 40-300 samples, 4 time steps, all methods and aliases, 7 operators, 4 taper widths, 4 fft_settings shapes.",
      "contract-based deductive verification (AST->SMT VCs, z3+cvc5) + bounded native contract evaluation", "DESIGN.md 5/C01")

claim("C02", "other",
      "Proof (every obligation discharged by z3/cvc5 on the source re-read from /repo): each of the six windowed kernels (Konno-Ohmachi, Parzen, "
      "linear/log rectangular, linear/log triangular) returns, for every grid, spectrum (any number of rows), centre-frequency vector and "
      "bandwidth > 0, out[r,c] = SP(r,c)/SW(c) under its published support and weight (ghost sums with one-step unfolding; inner/outer loop "
      "invariants; zero for fc < 1e-6 or an empty window; every index in bounds; inputs not written); the compiled Savitzky-Golay core returns "
      "the symmetric weighted sum over 2h+1 samples divided by the normaliser for admitted centre indices and 0 at the edges, with every index "
      "proved in bounds; the Savitzky-Golay driver raises ValueError iff the window length is even or the grid is non-uniform, builds "
      "coef(i) = (3m^2-7-20i^2)/4, norm = m(m^2-4)/3 and the rounded grid index of each centre frequency, and hands exactly these to the core. "
      "Lemmas (base/step pairs over the ghost sums, per kernel): non-negative weights on the support, a constant spectrum is reproduced, the "
      "output lies between the smallest and largest contributing sample, linearity, row independence; Savitzky-Golay: closed forms of sum i^2 "
      "and sum i^4, coefficients sum to the normaliser, second moment vanishes (cubic reproduction). Bounded (labelled): compiled (numba) == "
      "interpreted source by differential runs - numba's translation is outside any contract on Python source."
      "Integer-valued and single-precision spectra must be smoothed to the weighted average of their values (dtype independence, all six kernels).",
      TB + "sin/log10/10**x uninterpreted (log10(y)=0 <=> y=1, log10(10^x)=x, monotone log10 as named instances); A-ROUND (|round(x)-x| <= 1/2); "
      "the induction schema itself is applied by hand to the proved base/step lemmas (A-INDUCTION).",
      "contract-based deductive verification with loop invariants over ghost sums (z3+cvc5) + bounded differential check of compiled kernels", "DESIGN.md 5/C02")

claim("C03", "other",
      "Proof: prepare_records_with_inconsistent_dt, for all three policies and every list of recordings with any arrangement of time steps - "
      "the dictionary built holds exactly the distinct steps, each with its count (ghost counting function CNT(d,i), dictionary with float "
      "keys modelled as membership / value / insertion-ordered key list, try/except KeyError routed), 'resampling' returns the list itself, "
      "'keeping smallest' returns exactly the recordings whose step is the minimum in original order as the same objects "
      "(result[CNT(d,i)] is records[i]), 'keeping majority' the same for a step with maximal count, the early break is justified by the "
      "monotonicity of CNT, and the returned dictionary is {step: count}; check_nyquist_frequency raises ValueError iff some centre frequency "
      "exceeds 1/(2 dt). Bounded (labelled): one curve per retained recording, in input order, each equal (rtol 1e-10) to the curve of that "
      "recording processed alone, Nyquist refusal - evaluated natively for every arrangement of up to 3 time steps over 1-4 recordings "
      "(non-involutive groupings first), 4 methods x 3 policies. Also proved: the row bookkeeping of traditional_hvsr_processing, "
      "traditional_single_azimuth_hvsr_processing and traditional_rotdpp_hvsr_processing for every number of recordings and every arrangement of time steps - nested loop invariants "
      "over the dictionary's groups and the recordings (group offsets OFF(t) as prefix sums of the counts, positions OFF(group)+CNT(step,i)), "
      "the scatter through hvsr_indices_to_order and the final gather - giving: row i of the result is the smoothed spectral ratio computed "
      "from kept recording i alone, the frequency vector is the centre frequencies, ValueError only if some centre frequency exceeds a "
      "recording's Nyquist frequency. In that proof the numerical stages (window, rfft, modulus, combination, smoothing) are uninterpreted "
      "array functions (their contracts are C01/C02/C10/C18) and the callee prepare_records_with_inconsistent_dt is used through its "
      "proved contract. For RotDpp the row is the percentile over the azimuths (np.percentile: uninterpreted, assumed to depend at column j only "
      "on column j of the rows it is given) of the smoothed rotated horizontal spectra over the smoothed vertical spectrum, with a third loop "
      "invariant over the azimuths. azimuthal_hvsr_processing: one single-azimuth result per requested azimuth, in order, each computed with "
      "that azimuth, the caller's window / smoothing / time-step policy and the caller's own fft_settings dictionary (callee = the proved "
      "single-azimuth driver as an opaque function of the settings it is handed).",
      TB + "A-DICT (insertion-ordered dict), A-NP-MAX; monotonicity / strictness / range of the counting and offset functions are axioms justified by "
      "proved base/step lemmas (A-INDUCTION); A-COUNT-TOTAL (the per-step counts add up to the number of recordings) and smoothed vertical spectra "
      "non-zero are assumed in the driver proofs; smoothing is assumed row-wise (each output row a function of the same input row: what C02 proves "
      "row by row).",
      "contract-based deductive verification (symbolic dictionary, ghost counting function, loop invariants; z3+cvc5) + bounded exhaustive-arrangement native evaluation", "DESIGN.md 5/C03")

claim("C08", "other",
      "Proof, for all grids, curves, limits and window counts (four None-patterns of the range; scipy filters absent / empty / present): "
      "_search_range_to_index_range returns the half-open index range [first index nearest f_low, first index nearest f_high + 1); "
      "_find_peak_unbounded returns (None, None) iff scipy keeps no candidate and otherwise frequency and amplitude at the same candidate index of "
      "maximal amplitude; _find_peak_bounded (callees by contract) returns the highest local maximum strictly inside that index range, absent only "
      "when the range holds no strict local maximum; HvsrCurve.update_peaks_bounded stores exactly that (NaN when absent, nothing recomputed when "
      "range and filters are the stored ones); HvsrTraditional.update_peaks_bounded does so for every window by a loop invariant over the rows, "
      "with both masks False and NaN for a window without a peak and every window kept when none has a peak; HvsrTraditional.mean_curve_peak "
      "returns the highest local maximum of the mean curve in the stored range, ValueError only when there is none. With scipy filters present "
      "only 'frequency and amplitude of one sample strictly inside the range' is claimed. Cross-check/bounded (labelled): every azimuth of "
      "HvsrAzimuthal, HvsrDiffuseField.mean_curve_peak and the objects above over histories of 1-4 range updates, against an independent "
      "local-maximum oracle."
      "Ranges are also handed over as lists that the caller overwrites afterwards.",
      TB + "A-ARGMIN/A-ARGMAX (first index of the extremum), A-FIND-PEAKS (scipy.signal.find_peaks: increasing interior indices, not lower than "
      "their neighbours, every strict local maximum present); A-NAN (NaN is a distinguished constant that is only stored and tested).",
      "contract-based deductive verification (z3+cvc5) of the peak-search call chain from the index range up to the per-window update, callees by contract + native contract evaluation over update histories", "DESIGN.md 5/C08")

claim("C10", "other",
      "Proof: TimeSeries.split under a relative-error model of IEEE division/addition (|delta| <= 2**-53): the number k of sample intervals per "
      "window equals m whenever L/dt is within m*2**-50 of an integer m <= 10**6 (a length that is an exact multiple of the nominal step counts in "
      "full although dt = fl(1/fs)), equals floor(L/dt) whenever L/dt is at least 2e-6 away from every integer; ValueError iff the record has "
      "fewer than k samples; otherwise N // k windows, window j holds the record's samples j*k .. min(j*k+k, N-1) unaltered (k+1 samples, "
      "boundary sample shared, only a last window ending with the record is one short), same dt, discarded tail < k; loop invariant over a "
      "symbolic-length list of window objects; record not modified. SeismicRecording3C.split: window j of the recording consists of windows j "
      "of the three components of the same split, orientation carried over (TimeSeries.split through its contract); SeismicRecording3C.trim / "
      "detrend / window / butterworth_filter apply the TimeSeries method once to each of ns, ew, vt with the caller's arguments. hvsr_preprocess, for every "
      "number of recordings and of windows per recording (orientation set or None, window length and detrend mode set): the result is the "
      "windows of all recordings in order, and each window's content is DETREND(WINDOW_j(BUTTER(ORIENT(content of its recording)))) - the "
      "documented order of the steps, as a term over uninterpreted step functions kept in a ghost content map that the method models update "
      "(nested loop invariants; window offsets as prefix sums with base/step lemmas). Bounded (labelled): the same pipeline against scipy "
      "numerically (what each step computes), the configurations without split / detrend, psd_preprocess.",
      TB + "Float model only for / and + inside split; int/int quotients below 2**53 treated as exact. scipy butter/sosfiltfilt/detrend external.",
      "contract-based deductive verification (floating-point error model for split; ghost content map for the step order; z3+cvc5) + bounded native pipeline comparison", "DESIGN.md 5/C10")

claim("C04", "other",
      "Proof: SeismicRecording3C.orient_sensor_to is, for every recording and every pair of orientations, the pointwise rotation ns' = ew sin(d) + ns cos(d), "
      "ew' = ew cos(d) - ns sin(d) (clockwise from north), leaves the vertical, dt and the deployed orientation untouched and stores the new "
      "orientation; SeismicRecording3C.__init__ normalises any orientation into [0,360) congruent modulo 360 and copies the components; "
      "single_azimuth (C01). Lemmas over those contracts and named A-TRIG instances: energy preservation, composition, invertibility, "
      "360-degree residues, polarisation recovery, single azimuth = north component after orienting, 180-degree antiperiodicity, rotation "
      "invariance of |NS|^2+|EW|^2. HvsrAzimuthal._check_input accepts an azimuth iff it lies in [0, 180] (ValueError otherwise) and anything but an HvsrTraditional is a TypeError. "
      "Bounded (labelled): the processing-level consequences (azimuthal = stack of single-azimuth results, RotDpp "
      "within [min,max] over azimuths and non-decreasing in the percentile, rotation-invariant methods and diffuse field independent of "
      "orientation, preprocessing orients every record incl. target 0) evaluated natively."
      "Added after the second round of seeded changes: the SeismicRecording3C.split contract (orientation carried over) is discharged here too, and a bounded clause checks that windows, copies and reloaded recordings keep the orientation of their source (re-orienting them recovers polarised motion)."
      "The stack / RotDpp clause runs with four tapers; the azimuthal_hvsr_processing contract (one single-azimuth run per azimuth with the caller's settings, proved with C03) is discharged here too.",
      TB + "cos/sin uninterpreted; only the named identities (Pythagoras, angle addition, parity, periodicity) are assumed, each lemma lists the instances it uses.",
      "contract-based deductive verification (z3+cvc5, nonlinear real lemmas over trig axioms) + bounded native evaluation of processing-level consequences", "DESIGN.md 5/C04")

claim("C05", "other",
      "Proof: _nanmean_weighted and _nanstd_weighted, for every NaN-free sample of any size >= 2 passed without explicit weights (what the "
      "HvsrTraditional peak accessors pass), return S(g)/n resp. exp(S(log)/n) and sqrt(SS(g, mean) / ((1 - 1/n) n)) - arithmetic / geometric "
      "mean and the n-1 sample standard deviation of g(values) about their mean, g = identity or log, for 'normal', 'lognormal' and "
      "'log-normal' (the sums over the sample are named, np.nansum over the elements trusted; the NaN-aware weight construction is executed "
      "symbolically under the NaN-free precondition; the pre/post function maps are checked structurally); _nth_std_factory returns mean + n "
      "std (normal) / exp(log mean + n std) (lognormal, for both spellings) and raises "
      "NotImplementedError for any other name; the DISTRIBUTION_MAP aliases (structural); +-n symmetry lemmas. Cross-check / bounded "
      "(labelled): every statistic of HvsrTraditional (means, sample standard deviations, +-n values, covariance, mean / std / nth-std "
      "curves, mean-curve peak, for 'normal', 'lognormal' and 'log-normal') equals the textbook estimator applied to exactly the accepted "
      "windows after random histories (peak-range updates, frequency-domain rejection, manual rejections, mask replacement), equals the "
      "statistic of an object built from the accepted windows alone, accessors are read-only, lognormal frequency/period consistency. The "
      "mask selections of the accessors, the curve statistics (axis=0), np.cov and the explicitly weighted (azimuthal) uses are bounded only. "
      "Known finding F-9 is reported by its own clause."
      "A further bounded clause: the fn statistics ignore accepted windows that have no peak in the range (mean / std / n-th std over the accepted windows that have one)."
      "After a peak-range update the accepted windows, the accepted peaks and the windows that have a peak are the same set (checked natively; the update_peaks_bounded contract of C08 is discharged here too).",
      TB + "numpy nansum / cov external; the cross-check bound: 4-11 windows x 20-50 samples, up to 6 history steps per object.",
      "contract-based deductive verification of the distribution-dependent formulas + native evaluation of the estimator contracts over mask histories", "DESIGN.md 5/C05")

claim("C11", "other",
      "Proof: HvsrAzimuthal._compute_statistical_weights returns, in azimuth-major order, the weight 1/(A n_a) for each of the n_a accepted "
      "windows of azimuth a, for any number of azimuths and windows (loop invariant over ghost prefix sums OFF(a); np.sum of a mask is the "
      "ghost count of the object); the algebraic steps 'n_a weights of 1/(A n_a) sum to 1/A' and 'A = 1 gives the n-1 denominator'; "
      "mean_curve_by_azimuth and mean_curve_peak_by_azimuth return, for every number of azimuths, row / entry a = the mean curve / mean-curve "
      "peak of hvsrs[a] for the distribution asked for (per-azimuth accessors opaque: C05 / C08); the weighted estimators the azimuthal "
      "statistics call - _nanmean_weighted with explicit weights = sum w g(v) / sum w (exp of it for lognormal) and "
      "_nanstd_weighted(denominator='cheng') = sqrt(sum w (g(v) - mean)^2 / (1 - sum w^2)) for NaN-free samples and weights (sample sums "
      "named, np.nansum trusted). "
      "Cross-check / bounded (labelled): every azimuthal statistic (means, Cheng standard deviations with 1 - sum w^2, weighted covariance "
      "and its diagonal = std^2, mean / std / nth-std curves, per-azimuth mean curves, mean-curve peak) against independent weighted "
      "estimators over mask histories incl. redistributing accepted windows between azimuths, azimuth-order independence, single-azimuth "
      "= traditional, equal counts = pooled unweighted. Known finding F-9 reported by its own clause.",
      TB + "np.cov(aweights=) external; A-PERM (order independence is sampled, not proved).",
      "contract-based deductive verification of the weight construction (loop invariant over ghost prefix sums) + native evaluation of the weighted-estimator contracts", "DESIGN.md 5/C11")

claim("C06", "other",
      "Proof: _frequency_domain_window_rejection under contract for every number of windows, every pair of masks, every n and every "
      "max_iterations >= 1, with the statistics accessors as uninterpreted functions of the mask they read and their distribution argument: "
      "the masks after the call are the published accept/reject step applied `result` times (ghost mask sequences with one-step axioms, "
      "extensional array equality), `result` is the first iteration at which the published stopping rule holds (zero guards first, then both "
      "relative-difference tests) or max_iterations, no window is re-accepted, at most max_iterations iterations, only the two masks are "
      "written. The entry point frequency_domain_window_rejection on an azimuthal object with any number of azimuths: every azimuth gets the "
      "peak search in the requested range first and the iteration second, with the caller's n, max_iterations and distributions (object state "
      "as one abstract content per object in a ghost map), and the largest iteration count is returned (running-maximum invariant). "
      "Structural obligations on the driver are kept. Bounded / cross-check (labelled): the whole entry point including peak "
      "search set-up equals an independent re-implementation of Cox et al. (2020) for all four distribution pairs, n in {0.5..2.5}, "
      "max_iterations in {1,2,3,50}, two kinds of search range, crafted exact-zero cases; window-order and amplitude-scale invariance; the "
      "azimuthal maximum. That the accessors return the textbook statistics is C05's obligation, not repeated here."
      "A further cross-check clause runs the library on curve sets that separate the published iteration from plausible slips (re-accepting, a stale mean curve, bounds moving within an iteration); the sets are found with the reference alone, with a quota per slip.",
      TB + "Cases whose decision sits on a bound within rounding (or whose convergence quantities are zero only up to rounding) are set aside by the oracle.",
      "contract on the real driver discharged by z3/cvc5 (accessors abstracted by their contracts) + structural obligations + bounded native comparison with an independent re-implementation", "DESIGN.md 5/C06")

claim("C13", "other",
      "Proof: maximum_value_window_rejection, for three component subsets x normalised / absolute thresholds x (no object, a traditional "
      "object, an azimuthal object with two azimuths) and any number of records of any lengths: with MX(r) the largest absolute sample of "
      "record r over the examined components (ghost function with its complete characterisation; the code's nested np.max / comparison "
      "chain is proved equal to it) and GM = max_r MX(r) when normalised, the returned list is the order-preserving subsequence of the same "
      "objects with MX(r) (/GM) < threshold (ghost kept-count KC, result[KC(r)] is records[r]), and an attached object ends with both masks "
      "equal to that selection on every azimuth, whatever masks it carried before. sta_lta_window_rejection (components ns+ew+vt or vt; no "
      "object or a traditional object): a record is kept iff on every examined component every short-term average divided by the long-term "
      "average lies within [min, max], with p = floor(sta_seconds/dt) samples per average, q = n // p averages over the first p q samples and the "
      "long-term average over the first min(floor(lta_seconds/dt), p q) samples (the averages are named functions of the samples: reshape, "
      "slicing and abs are executed symbolically and matched against their definitions, np.mean over samples trusted); the for-else / break "
      "structure gives the same subsequence / mask bookkeeping; IndexError only if an averaging length exceeds the record. Bounded "
      "(labelled): the STA/LTA contract natively for every admissible number of samples per STA/LTA: kept iff all ratios of all "
      "examined components lie inside the limits (cases within 1e-9 of a limit set aside), object identity and order, records unmodified, "
      "masks, amplitude scales 1e-13..1e5, conjunction over components, monotonicity in the limits; and the maximum-value contract natively "
      "incl. call sequences.",
      TB + "A-NP-MAX/A-NP-ABS; azimuthal case proved for two azimuths (concrete list unrolled); monotonicity of KC from a proved step lemma (A-INDUCTION).",
      "contract-based deductive verification of both rejection functions (symbolic record lists, ghost max / kept-count functions, named averages; z3+cvc5) + bounded native evaluation of both contracts", "DESIGN.md 5/C13")

claim("C16", "other",
      "Proof (every obligation discharged by z3/cvc5 on the source re-read from /repo): sesame.peak_index returns the index of the highest local "
      "maximum (through C08's contract of _find_peak_unbounded); trim_curve returns the inclusive range of the first samples nearest "
      "min(range) and max(range); reliability criteria i-iii and clarity criteria i-vi - incl. the closed intervals [f0/4, f0], [f0, 4 f0], the "
      "+-5 % rule for the peaks of A*sigma_A and A/sigma_A, and the five-band (epsilon, theta) table - equal the SESAME (2004) criteria evaluated "
      "on the peak of the mean curve, for every positive curve with a peak, every window length/count/fn std, the untrimmed call and the three "
      "limited search-range patterns (trim_curve replaced by its contract), verbose in {0,1,2}; sigma_A identity exp(log a + s)/a = exp(s) and "
      "the monotonicity lemmas for ii and v. Cross-check (bounded): end-to-end verdicts incl. trimming against an independent transcription "
      "of the guideline, exact band edges, all verbosity levels.",
      TB + "exp/log uninterpreted with A-LOGEXP; boolean-mask selection / np.where / np.max of a selection axiomatised (A-NP-MASK, A-NP-WHERE); "
      "band-edge convention: an edge belongs to the higher (stricter) band.",
      "contract-based deductive verification (AST->SMT VCs with if-merging, masked-selection model; z3+cvc5) + native cross-check", "DESIGN.md 5/C16")

claim("C17", "other",
      "Proof: _rpds_single_component for every number of equal-length windows, every even FFT length and every bin - the accumulator equals the "
      "sum over the windows of the bin's power (ghost prefix sum, loop invariant; the loop variable rebound to a windowed copy is modelled), and "
      "the result is that sum divided by the taper's mean square (the function's own local), the number of samples, the sampling rate and the "
      "number of windows, times two; lemma: this chain equals 2 S / (mean(taper^2) N fs W). window / rfft / conjugate / real are uninterpreted "
      "there. Lemmas over that spec: Welch averaging (the density of W windows is the average of the single-window densities, W = 2, 3) and k^2 "
      "amplitude scaling. Bounded (labelled; complex FFT output and external rfft/irfft/freqs): _rpds_single_component equals the spec bin by "
      "bin numerically, satisfies Parseval on the bins strictly between 0 Hz "
      "and Nyquist (tapered mean square minus the share of those two bins, normalised by the taper's mean square), leaves its inputs "
      "unmodified; rpsd per component with smoothing on and off; diffuse-field HVSR = sqrt(S(Pns+Pew)/S(Pvt)) of exactly the retained windows "
      "(minority time step first / last / absent); psd_preprocess = filter -> (constant detrend, taper) -> division by a flat response with "
      "the mean removed -> filter -> spectral derivative -> split -> detrend."
      "Amplitudes down to 1e-10 (the diffuse-field ratio does not depend on the unit) and requested FFT lengths below the window length (raised, never used to truncate) are part of the rpsd / diffuse-field clause.",
      "Trusted: numpy/scipy FFT, taper, filters, freqs; floats as reals for the lemmas. Bounds: 1-4 windows of 64-300 samples, 4 steps, 4 tapers, 3 FFT lengths, scales 1e-4..1e3.",
      "contract-based deductive verification of the PSD accumulation / scaling function (z3+cvc5) + lemmas + bounded native evaluation of the PSD / preprocessing contracts", "DESIGN.md 5/C17")

claim("C18", "other",
      "Proof: TimeSeries.__init__ and TimeSeries.from_timeseries give the new object fresh sample storage with element-wise equal content (so "
      "copies, split windows and stored components - all built through them, see C04's SeismicRecording3C.__init__ and C10's split - share no "
      "storage with their source); the properties n_samples, fs, fnyq and time(); TimeSeries.trim raises IndexError iff start < 0, start >= end "
      "or end beyond the last sample, and otherwise keeps exactly the samples from the first one nearest start through the first one nearest "
      "end (inclusive, start index <= end index). SeismicRecording3C._to_dict puts every sample of every component, the time step and the orientation into the dictionary handed to json, and _from_dict builds a recording carrying exactly the samples, time step and (reduced mod 360) orientation of the dictionary it is given; an orientation in [0, 360) is unchanged by the reduction (lemma). "
      "Bounded (labelled): JSON save/load restores every sample bit for bit, dt, the orientation "
      "modulo 360 and the meta content after random sequences of trim / filter / detrend / taper / re-orientation (json is external); "
      "np.shares_memory on every copy / split / component pair plus a behavioural edit test; record-level trim.",
      TB + "A-NP-ALLOC (np.array copies), A-ARGMIN, A-JSON-FLOAT (repr(float) round trip, exercised not proved).",
      "contract-based deductive verification (z3+cvc5) + bounded native persistence / aliasing checks", "DESIGN.md 5/C18")

claim("C09", "other",
      "Frame obligations discharged on the AST of the real source (may-alias ownership analysis, modular through per-function write / "
      "return-alias summaries computed to a fixpoint): for process() and the 17 functions it reaches, no augmented assignment, attribute or "
      "item store, mutator-method call or callee can write storage reachable from the recordings, time series or spectra passed in; of the "
      "settings object only fft_settings is written. Bounded (labelled): deep snapshots (samples, dt, orientation, metadata) around "
      "process() for 11 methods x tapers x azimuth sets, a second identical call returns identical values, a returned result (values and "
      "meta) is unchanged when recordings and settings are mutated afterwards, 36 jobs interleaved in random orders return what they "
      "return alone (hidden state between calls). Known finding F-15 (fft_settings={'n': None} is not kept across calls) reported by its own clause."
      "The module-level-state obligation includes escape of module-level mutables (stored into an object or returned); the interleaved-jobs clause has one job longer than the 32768 FFT floor.",
      "Trusted: the analysis' table of allocating calls and copying constructors (the latter proved in C18/C04), scalar hints for index/count locals, numpy determinism.",
      "frame/ownership obligations by may-alias analysis of the AST (contract frames) + bounded native snapshot checks", "DESIGN.md 5/C09")

claim("C15", "other",
      "Structural obligations discharged on the AST of the real source: each of the 12 settings constructors assigns exactly the public "
      "attributes it lists in attrs (nothing silently not saved, nothing twice), stores every argument that can be mutable through deepcopy / "
      "np.array (fresh at every level, so no state is shared with default-argument objects, with the caller or between objects) and stores or "
      "forwards every argument; Settings.attr_dict hands out deep copies of exactly self.attrs, save dumps it, load assigns every key of the "
      "file unconditionally (None included); the type-dispatching reader's discriminator table selects the eight classes and loads. Bounded "
      "(labelled; json is external): real save/load and reader round trips of random legal attribute values (arrays, lists, tuples, None, "
      "dicts; set by constructor and by assignment) for the 8 classes compared by content, processing / preprocessing with the reloaded "
      "settings identical, and cross-object / caller-argument / later-default independence by mutating every attribute in place or by assignment."
      "Fractional azimuth sets are among the legal values."
      "Legal in-place edits made after attr_dict / == / repr were evaluated must be saved; numpy double / int64 / bool_ scalars are legal attribute values.",
      "Trusted: deepcopy / np.array allocate at every level; json; the table of immutable (number/string/boolean/None) parameters; the AST matcher.",
      "structural contract obligations on constructor/serialisation ASTs + bounded native round-trip and aliasing checks", "DESIGN.md 5/C15")

claim("C12", "other",
      "Structural obligations on the AST: write_hvsr_object_to_file never rebinds its `hvsr` parameter, stores hvsr.frequency / "
      "hvsr.mean_curve(distribution_mc) / hvsr.std_curve(distribution_mc) in columns 0, -2, -1 in every branch and works on a deep copy of the "
      "meta dictionary; read_hvsr_object_from_file runs the peak search with the stored range before installing the stored masks, by plain "
      "assignment. Bounded (labelled; savetxt/loadtxt/json/regex are external): real write/read round trips - traditional after random "
      "histories (range updates, FDWRA, manual, mask replacement, accepted windows without a peak), azimuthal (1-4 azimuths incl. non-integer, "
      "unequal counts, ranges, masks), diffuse field - comparing frequencies, curves bit for bit, masks, search range, peaks and every statistic, "
      "plus the file's columns against the written object."
      "The azimuthal histories include the library's own frequency-domain rejection with a search range (defect F-17, repaired)."
      "Histories also include statistics read before windows are rejected, peak-search filters in a dictionary the caller edits afterwards, and azimuths in non-ascending order.",
      "Trusted: numpy text I/O at '%.18e', json, the header regex; the AST matcher.",
      "structural contract obligations on writer/reader ASTs + bounded native round trips", "DESIGN.md 5/C12")

claim("C07", "other",
      "Proof: _check_npts raises ValueError iff header and found counts differ; _arrange_traces (the component assignment of the miniSEED / SAC / "
      "GCF readers) for three traces and all 64 combinations of channel-code endings E / N / Z / other - (ns, ew, vt) are the traces whose codes "
      "end in N, E, Z whatever their order, every other combination is refused with ValueError (the function reads only the last letter, so the "
      "case split is exhaustive; TimeSeries.from_trace opaque). Structural: read() decides the broadcasting of "
      "degrees_from_north and of obspy_read_kwargs each from its own type and zips names, options and orientations in order; the reader "
      "registry and its order. Bounded (labelled; regular expressions and obspy are external): SAF, MiniShark and PEER files written from a "
      "grammar - all 6 channel / file orders, NORTH_ROT present / absent, 12 PEER component-code layouts incl. counter-clockwise and "
      "equidistant azimuths, explicit degrees_from_north incl. 0, gain and conversion factor, both line endings, unequal PEER lengths, count "
      "mismatches - and miniSEED (one and three files) / SAC (both byte orders) written with obspy in all 6 trace / file orders with 4 "
      "channel-naming variants, the GCF example, duplicated component, unrecognised file; read() with scalar / list / tuple / array / numpy "
      "scalar / 0 orientations and per-recording options: components hold exactly the stored samples (single precision for the integer text "
      "formats), the file's time step and the right orientation."
      "Explicit degrees_from_north=0 / 0.0 is part of every format's clause."
      "Count mismatches are written in both directions (missing and surplus samples); SAC triples with mixed byte order are read.",
      "Trusted: re, obspy (also used to write the binary test files), float32 rounding; GCF only from the one example file (obspy cannot write GCF).",
      "contract proofs of the count check and of the trace-to-component assignment (exhaustive case split) + structural obligations + bounded grammar-based native reader checks", "DESIGN.md 5/C07")

claim("C14", "other",
      "Proof: _statistics for every number of generators and realisations - mean = sum_r nw_r ROWSUM(r) / N and stddev = sqrt((sum_r nw_r "
      "ROWSS(r, mean) / N) / (1 - sum_r nw_r^2 / N)) with nw = weights / sum(weights) (two loops with ghost prefix sums; the sums over one row of "
      "realisations are named, np.sum over the columns trusted). Lemmas: the normalised weights (hence every Monte-Carlo statistic) are unchanged "
      "when all weights are multiplied by a constant; the zero-variance closed form of the weighted mean. The geometric half is outside what contracts over an SMT back end decide (planar "
      "Voronoi / polygon clipping by scipy and shapely) and is carried by a bounded stand-in: weights equal the nearest-sensor area fractions of "
      "the boundary's convex hull computed by an independent half-plane (Sutherland-Hodgman) clipping, are non-negative and sum to one, the "
      "returned indices are the sensors strictly inside the boundary, all invariant under sensor order, translation up to 1e4 x the extent and "
      "scaling by 1e-3..1e3. Bounded also: montecarlo_fn / _statistics equal the weighted mean and reliability-weighted standard deviation of "
      "the realisations in the requested space for all four generator / spatial combinations, are reproducible for a seeded generator, "
      "invariant to weight scale, and reduce to the closed form for zero standard deviations; unknown distribution names raise."
      "Integer-valued and list inputs must give what the same numbers as floats give."
      "The same HvsrSpatial object is asked about two boundaries that keep different sensors.",
      "Trusted: scipy.spatial.Voronoi, shapely, numpy Generator; the clipping oracle. Bounds: 4-11 sensors inside 4 hull families, 2-7 generators x 1-400 realisations.",
      "contract-based deductive verification of the weighted statistics function + lemmas (z3+cvc5) + bounded native comparison of the geometric half with an independent clipping oracle", "DESIGN.md 5/C14")

claim("C19", "other",
      "Structural obligations on the real source remove the schedule quantifier instead of exploring it: _process_hvsr replaces both settings "
      "arguments by deep copies before their first use, reads only its own file and runs read -> preprocess -> process -> write(<stem>.csv); "
      "cli loads both settings objects from file and issues exactly one Pool.starmap task per file name; none of the 13 modules on the path "
      "writes module-level state. A task's output is therefore a function of its file and of the settings content as loaded, whatever the "
      "chunking, order or worker count (A-POOL). Bounded (labelled, samples schedules): the real entry point on 3 generated miniSEED files "
      "(different sampling rates and lengths) for 6 / 61 order x --nproc x settings-family schedules (quick / thorough), every CSV byte-identical to the "
      "single-file pipeline run in a fresh interpreter with freshly loaded settings."
      "A third settings family carries an fft_settings dictionary with 70 s windows (the long file needs a longer FFT than the others)."
      "One schedule uses different --distribution_mc and --distribution_fn.",
      "Trusted: A-POOL, deepcopy, numpy/scipy determinism, the AST matcher.",
      "structural contract obligations (history independence by construction) + bounded runs of the real CLI", "DESIGN.md 5/C19")

claim("C20", "other",
      "Frame obligations discharged on the AST (may-alias ownership analysis with per-function summaries): none of the 14 plotting / summary "
      "functions writes storage reachable from the HVSR object, the recordings, the mask or the keyword dictionaries passed in; every "
      "DEFAULT_KWARGS entry is copied before a helper mutates it; no module-level state is written; plot_pre_and_post_rejection - the one "
      "writer - saves copies of both masks and restores each from its own copy in a finally block, nothing writes the masks afterwards. "
      "Routing obligations (structural): accepted / rejected curves come from valid_window and its complement, peak markers from valid_peak and "
      "its complement, the mean / +-1 std curves, the mean-curve peak marker and the fn band are mean_curve, nth_std_curve(+-1), "
      "mean_curve_peak and nth_std_fn_frequency(-+1) with distribution_mc / distribution_fn as stated, each option guards exactly its helper. "
      "Bounded (labelled): the artists matplotlib actually holds (Agg) and the summary table (period row = lognormal median and log-std of "
      "1/fn) equal the object's state for traditional / azimuthal / diffuse objects in random accept/reject states, deep snapshots around every "
      "public function incl. the raising configuration.",
      "Trusted: matplotlib, pandas, IPython.display; the alias analysis' tables; the AST matcher.",
      "frame/ownership obligations by may-alias analysis + structural routing obligations + bounded inspection of rendered artists", "DESIGN.md 5/C20")


# ---------------------------------------------------------------------------------------------------------------------------------------
# session 4: functions brought under contract since the texts above were written (appended to the level text; technique replaced where the deciding method changed)
S4 = {
 "C01": ("Also proved (session 4): diffuse_field_hvsr_processing - sqrt(S(P_ns + P_ew) / S(P_vt)) at the requested centre frequencies from the three densities of the same kept "
         "recordings with the published FFT length, one operator call on the two rows (callees prepare_fft_settings, prepare_records_with_inconsistent_dt, check_nyquist_frequency, "
         "_rpds_single_component through their contracts, stages opaque). Bounded additions: a common factor between 1e-9 and 1e6 on all three components leaves every curve of every "
         "processing path unchanged; RotDpp and azimuthal azimuth lists with repeated values, directions equal modulo 180 and any order.", None, None),
 "C03": ("Also proved (session 4): HvsrCurve._check_input - a fresh double copy when no value is NaN or negative, ValueError otherwise ('finite non-negative amplitudes').", None, None),
 "C05": ("Also proved (session 4): the statistic accessors of HvsrTraditional - peak_frequencies / peak_amplitudes are the selections of the peak vectors by the *peak* mask; "
         "mean_fn_*, std_fn_* hand exactly those selections and the distribution asked for to the estimators; cov_fn is the ddof=1 covariance of the two selections (of their "
         "logarithms for both lognormal spellings), both selected by the same mask; mean_curve is the accepted row itself when exactly one window is accepted and otherwise the "
         "column-wise mean estimator over the rows selected by the *window* mask; std_curve likewise and ValueError iff fewer than two windows are accepted; nth_std_fn_* and "
         "nth_std_curve combine the mean and the standard deviation of the same quantity and distribution (estimators as uninterpreted functions of the selection they receive). "
         "_nanmean_weighted / _nanstd_weighted with axis=0 on the accepted rows: column-wise arithmetic / geometric mean and n-1 sample standard deviation (column sums named); "
         "_nth_std_factory on curves. Remaining bounded: that a[mask] is the sub-sequence where mask is True (A-NP-MASK), np.cov, the NaN-carrying uses.", None,
         "contract-based deductive verification of the estimators and of every statistic accessor (mask routing) + native evaluation of the estimator contracts over mask histories"),
 "C06": ("Also proved (session 4): the entry point on a traditional object (one search in the requested range, one run of the iteration, its count returned, no other object touched); "
         "HvsrAzimuthal.update_peaks_bounded (every azimuth searched with the caller's range and filters, the range recorded on the parent, the filters dictionary copied) - the model the "
         "azimuthal entry proof used for it is now a discharged contract.", None, None),
 "C07": ("Also proved (session 4): _read_minishark and _read_saf around their regular expressions (matches as opaque strings with identities, int()/float() of them uninterpreted): "
         "MiniShark columns vt, ns, ew each divided by gain and conversion factor; SAF components from the columns the header names; time step 1/fs; orientation = the value given "
         "(an explicit 0 included), else NORTH_ROT / NORTH_ROT + 90 by the channel rule, else 0; ValueError iff the row count differs from the header (files with surplus rows overrun "
         "the buffer: native only) or a list of files is given. _read_gcf and _read_mseed (one / three files): exactly three traces, handed to _arrange_traces in file order, "
         "(ns, ew, vt) to the constructor, orientation default 0 (obspy opaque).", None,
         "contract proofs of the text readers around their regular expressions, of the obspy wrappers, the count check and the trace-to-component assignment + structural obligations + bounded grammar-based native files"),
 "C08": ("Also proved (session 4): HvsrDiffuseField.mean_curve (the curve itself) and mean_curve_peak (highest local maximum in the range *given*), HvsrAzimuthal.mean_curve_peak, the "
         "first-azimuth properties (frequency, _search_range_in_hz, _find_peaks_kwargs) and HvsrAzimuthal.update_peaks_bounded (fan-out). Bounded addition: a full-range diffuse-field query "
         "after a bounded update.", None, None),
 "C09": ("Function contracts the frame argument rests on are discharged here too (session 4): TimeSeries.__init__ / from_timeseries / SeismicRecording3C.from_seismic_recording_3c own "
         "fresh sample storage; TimeSeries.window writes its own samples in place; detrend / butterworth_filter rebind to new arrays. Bounded addition: recordings of mixed time steps "
         "under the three policies (dropped and kept recordings untouched, metadata included).", None,
         "frame/ownership obligations by may-alias analysis of the AST + function contracts of the copy / in-place primitives + bounded native snapshot checks"),
 "C10": ("Also proved (session 4): TimeSeries.detrend / window / butterworth_filter (which scipy routine gets which arguments; window multiplies by the Tukey taper of the series' own "
         "length IN PLACE, the others rebind to new arrays; (None, fh) low-pass, (fl, None) high-pass, both band-pass, neither nothing) - the models the wrapper proofs used; the "
         "SeismicRecording3C wrappers also for an object whose metadata already carries the entry of an identical earlier call.", None, None),
 "C11": ("Also proved (session 4): every statistic accessor of HvsrAzimuthal - the per-azimuth selections in list order (peak vectors through the peak masks for the fn statistics, "
         "column c of the amplitude rows through the window masks for the curves), the weights of _compute_statistical_weights, the distribution asked for, denominator 'cheng'; cov_fn "
         "with aweights; +-n values; _flatten_list is the block concatenation with the prefix-sum offsets of the weights (why values and weights are aligned). The weighted estimators are "
         "uninterpreted functions of (distribution, per-azimuth selections, weights) there; their formulas are the statistics.py contracts. Bounded additions: azimuth lists with 0 and 180 / "
         "repeated values, exact zeros in rejected windows.", None,
         "contract-based deductive verification of the weight construction, the weighted estimators and every azimuthal accessor (selection / weight routing) + native evaluation over mask histories"),
 "C12": ("Proved (session 4) on the executed bodies, np.savetxt / np.loadtxt / json and all text opaque: write_hvsr_object_to_file for traditional, azimuthal and diffuse-field objects - "
         "which numbers reach np.savetxt in which column (frequencies; curves in order, azimuth by azimuth at the prefix-sum offsets; the object's own mean / std curve for distribution_mc "
         "through the accessor contracts) and which masks reach the JSON header; the object is not written. read_hvsr_object_from_file for traditional, diffuse-field and azimuthal files - "
         "columns -> curves (azimuthal: one group per stored mask list, azimuth from the first title of the group, object shapes), the search with the stored range and filters runs before "
         "the stored masks are installed unchanged, the remaining header entries become meta. Defect F-19 (neighbouring equal azimuths merged on reading) found and repaired. Bounded "
         "additions: high-to-low frequency vectors.", None,
         "contract-based deductive verification of writer and reader (external I/O opaque, column offsets as ghost prefix sums) + structural obligations + bounded native round trips"),
 "C14": ("Also proved (session 4): montecarlo_fn for the four generator / spatial combinations - one row of draws per generator (rng.normal opaque, call counter as ghost state), the "
         "space conversion (exp / log / none), _statistics on the realisations in the spatial space with the caller's weights (through an extensionality instance of its contract), mean "
         "returned in linear space, realisations returned in linear space; NotImplementedError for other names. HvsrSpatial._cull_points keeps exactly the sensors the boundary contains, in order, and "
         "returns their positions in `coordinates` (kept-count ghost function; shapely's contains opaque); _voronoi_weights = cell area / boundary area with the indices handed on (areas opaque).", None, None),
 "C15": ("Also proved (session 4): read_settings_object_from_file for 12 stored discriminators (a default-constructed object of the class named, which then loads the same file; "
         "NotImplementedError otherwise), Settings.save (json.dump receives attr_dict), Settings.load (every stored entry, nulls and nested dictionaries included, becomes the attribute "
         "of that name; others untouched). Bounded addition: nearly geometric centre-frequency vectors.", None,
         "structural contract obligations on constructor/serialisation ASTs + contract proofs of the dispatching reader, save and load + bounded native round-trip and aliasing checks"),
 "C17": ("Also proved (session 4): _rpds_single_component as repaired for F-18 (every window scaled by its own taper mean square and sample count: the Welch average also when the final "
         "window is one sample short); rpsd (each component's density from that component's windows, optional single operator call on three rows, frequency axes) and "
         "diffuse_field_hvsr_processing; psd_preprocess in 5 configurations (orient, filter, [constant detrend, taper], [response removal on ns/ew/vt, filter], [derivative on ns/ew/vt], "
         "split, detrend each window; ghost component contents).", None, None),
 "C18": ("Also proved (session 4): SeismicRecording3C.from_seismic_recording_3c (ns -> ns, ew -> ew, vt -> vt through from_timeseries, fresh storage), save (json.dump receives _to_dict()) "
         "and load (_from_dict of what json.load returns). Bounded addition: a second save of the same recording after an in-place taper.", None, None),
 "C19": ("Also proved (session 4): _process_hvsr on its executed body with the stages opaque - the file <stem>.csv receives PROCESS(PREPROCESS(READ([[fname]]), own copy), own copy) with the "
         "caller's two distribution options; the settings objects handed in never reach a stage.", None,
         "contract proof of the worker's data flow + structural contract obligations (history independence by construction) + bounded runs of the real CLI"),
 "C20": ("Also proved (session 4), Axes / pandas as recorders and the accessors opaque: _plot_mean_hvsr_curve, _plot_nth_std_hvsr_curve, _plot_peak_mean_hvsr_curve, "
         "_plot_nth_std_frequency_range draw the accessor the statement names for the distribution asked for; plot_single_panel_hvsr_curves calls every helper once with the option that "
         "belongs to it (distribution_mc for curves and the mean-curve peak, distribution_fn for the fn band); summarize_hvsr_statistics tabulates the object's fn statistics, the period "
         "row holding the reciprocal median and the same log-standard deviation; _plot_individual_hvsr_curves draws one line per selected window (window mask / its complement), in order, each "
         "carrying that window's curve against the object's frequency vector; _plot_peak_individual_hvsr_curve draws the peaks selected by the peak mask / its complement, nothing when "
         "none; plot_pre_and_post_rejection shows the first panel all windows and peaks accepted, the second the object's own masks, and leaves both masks with their content at entry on "
         "the normal exit and when a panel raises (try/finally executed symbolically; the repaired defect F-13 is a post-on-raise obligation). Bounded addition: contour markers with a bounded search range.", None,
         "frame/ownership obligations by may-alias analysis + contract proofs of the drawing helpers, the single-panel driver and the summary table + structural routing obligations + bounded inspection of rendered artists"),
 "C02": ("Bounded addition (session 4): band-limited frequency axes whose first sample is a genuine spectral sample.", None, None),
 "C04": ("Bounded addition (session 4): azimuth lists in any order and with repeated values.", None, None),
 "C13": ("Bounded additions (session 4): windows of unequal length (shortest first), attached objects containing windows without a peak.", None, None),
 "C16": ("Bounded addition (session 4): fn_std exactly 0.", None, None),
}
# later additions of session 4 (appended to the S4 texts; one entry per property, sentences separated by blanks)
S4_MORE = {
 "C01": "Dispatch proved semantically (contracts/dispatch.py): process() and traditional_hvsr_processing_base() return what the table entry of the settings' key returns for the caller's "
        "recordings and the caller's settings object, that entry is called exactly once and no other entry at all - 4 + 12 keys, table entries symbolic, any body (the textual "
        "obligation on the spelling of the two bodies remains as a second, undecided-on-rewrite witness).",
 "C03": "process() under contract: the driver registered for the settings' processing method is called once with the caller's own list (hence its order) and settings object and its result "
        "is returned unchanged (4 methods).",
 "C10": "preprocess() under contract: the routine registered for the settings' preprocessing method is called once with the caller's recordings and settings; result returned unchanged.",
 "C19": "The two dispatchers the worker calls (preprocess, process) are under contract: the registered routine, once, with the caller's arguments.",
}
S4_MORE["C07"] = ("Also under contract: _read_sac - each of the three files is read in the first byte order obspy accepts (little, then big; obspy may fail: CAN_READ(file, order) is a "
                 "named condition and the call forks on it), the first traces go to _arrange_traces in file-name order and its (ns, ew, vt) to the recording, an exception leaves the "
                 "function exactly when some file reads in neither order, a single name is refused; read_single - the readers of the table are consulted in table order without gap "
                 "or repeat, the recording is what the first accepting reader returns for the caller's file entry, options and orientation, an exception leaves the function only "
                 "when no reader accepts (4 configurations of options / orientation given or not).")
S4_MORE["C15"] = ("Settings.attr_dict on its executed body (a number, an array, a dictionary holding an array and a number, None, a list, and an attribute that is not listed): exactly "
                 "the listed names in the listed order, arrays as lists of the same values also inside a dictionary, numbers / None / lists by value, and no array or list of the "
                 "result is storage of the object (deep copy at every level).")
S4_MORE["C19"] += (" cli() on its executed body: one pool, one starmap for the worker, one task per file name in the order given, task i = (file name i, the object read from the "
                  "preprocessing settings file, the object read from the processing settings file, the options with the caller's values), pool of min(files, workers) "
                  "processes and chunks of max(1, files // workers) for --nproc given and default; nothing is started under --no_figure --no_file.")
_CTOR_T = ("HvsrTraditional.__init__ under contract (2-D curves and a single curve, metadata given or not): the object holds the caller's frequencies and curves row by row in the "
           "order given in storage of its own, accepts every window, keeps a private deep copy of the metadata and finds its peaks once, without arguments, when all of that is in "
           "place; ValueError exactly when an input fails _check_input or the lengths disagree.")
_CTOR_A = ("HvsrAzimuthal.__init__ under contract: entry i is a new HvsrTraditional built from the frequencies, curves and metadata of the caller's entry i (loop invariant over the "
           "attribute-held lists), in the caller's order, as many as the shorter of the two lists; azimuth i is the caller's; ValueError exactly when an azimuth lies outside "
           "[0, 180] or an entry is not similar to the first; peaks found once when the lists are complete.")
_CTOR_C = "HvsrCurve.__init__ under contract: the caller's frequencies and amplitudes in own storage, equal lengths required, the peak found once with the defaults."
S4_MORE["C03"] += " " + _CTOR_T
S4_MORE["C05"] = _CTOR_T
S4_MORE["C08"] = _CTOR_C + " " + _CTOR_T
S4_MORE["C11"] = _CTOR_A
S4_MORE["C12"] = "The constructors the reader rebuilds the objects with are under contract. " + _CTOR_T + " " + _CTOR_A + " " + _CTOR_C
S4_MORE["C07"] += (" TimeSeries.from_trace: exactly the trace's samples, in order, in the time series' own storage, with the trace's sampling interval (either spelling: obspy keeps "
                  "delta = 1 / sampling_rate).")
S4_MORE["C07"] += (" _read_peer under contract (10 direction-key configurations x orientation given or not): per file the samples in file order (loop invariant), the header's NPTS "
                  "and DT, ValueError when a count or a time step disagrees; the arrangement for concrete keys against an independently written statement of the PEER convention "
                  "(UP / VER vertical, the horizontal closest to north modulo 360 is north and its azimuth the orientation; letter codes ending Z / N / E; anything else refused); "
                  "all three components cut to the shortest.")
S4_MORE["C20"] = ("Azimuthal contour under contract: _azimuthal_mesh_from_hvsr (three azimuths) - frequency along the columns, the object's azimuths down the rows with a closing row at "
                 "180 degrees, row r the mean curve of azimuth r for the distribution asked for and the closing row that of the first azimuth; plot_azimuthal_contour_2d - one "
                 "filled contour of exactly those three grids in that order, one marker line of the per-azimuth mean-curve peak frequencies (same distribution) against the "
                 "object's azimuth list, frequency axis from the first to the last frequency, nothing written to the object.")
S4_MORE["C14"] = ("The public layer of HvsrSpatial under contract: __init__ (the sensors in the order given in own storage; fewer than three or not (N, 2) refused), spatial_weights "
                 "((weights, indices) exactly as _voronoi_weights returns them for the caller's boundary; another method refused), bounded_voronoi (clipped by the mask made from "
                 "the caller's boundary), _boundary_to_mask (the convex hull of exactly the boundary rows taken as points (x, y); not (N, 2) refused).")
S4_MORE["C20"] += (" plot_seismic_recordings_3c under contract (three axes given, a list of recordings of symbolic length, with and without normalisation and mask): axis a shows component a "
                  "of every recording in order, one line each carrying the samples divided by one common factor (1 without normalisation; positive with it when some sample is "
                  "non-zero), against the recording's own time vector shifted so that the recordings follow one another; accepted style exactly for the recordings the mask accepts "
                  "(all without a mask); a mask of another length is refused; the recordings are not written.")
S4_MORE["C05"] += (" _distribution_factory on its executed body: for six spellings (any case) x mean / std the pair handed out is the entry of the canonical distribution and of the "
                  "calculation asked for in the two tables (symbolic); an unknown distribution or calculation is refused.")
S4_MORE["C15"] += " write_settings_object_to_file: exactly one save() of the object given under the name given."
S4_MORE["C20"] += (" summarize_spatial_statistics: the table holds the statistics handed in (mean, standard deviation, -1 / +1 values in the requested space; lognormal period row = the "
                  "reciprocals with the same log-standard deviation); any other distribution refused.")
S4_MORE["C17"] = ("instrument_response.py under contract (contracts/instr.py; spectra and transfer functions opaque complex values): _domain_transform and "
                 "_remove_instrument_response transform the series' own samples with the published FFT length (its own length when none is published), multiply by one transfer "
                 "function, tell the inverse transform the same length, cut to the series' length and keep the time step, in a new series; an unknown transform is refused; "
                 "_differentiate / _integrate call the transform of that name on the caller's series and settings. Psd.__init__ / Psd._check_input under contract.")
S4_MORE["C15"] += (" The twelve settings constructors on their executed bodies, base constructors inlined through super().__init__ (21 configurations): attrs lists exactly the constructor's "
                  "parameters, once each; attribute p holds the content of argument p; no list, dictionary or array reachable from the new object is storage of an argument - hence "
                  "nothing shared with callers, with default-argument objects or, through either, with another settings object (the structural obligations on the AST remain as a "
                  "second witness).")
S4_MORE["C20"] += (" plot_azimuthal_contour_3d: one surface over the mesh helper's grids (frequency in log10), one scatter of the per-azimuth peaks for the same distribution closed at 180 "
                  "degrees by the first azimuth's peak. plot_azimuthal_summary (all parts on): the 3-D surface, the 2-D contour and the single panel each on its own axes for the caller's "
                  "object and distribution_mc, the fn band for distribution_fn, every switched-on part forwarded, the mean-curve peak once more for distribution_mc.")
S4_MORE["C20"] += (" plot_voronoi: one filled polygon per tessellation cell in order - its own outline, the colour of the sensor value with the same index on a scale from the smallest to "
                  "the largest value -, the sensors at their coordinates, the boundary closed by its first point.")
S4_MORE["C03"] += " HvsrTraditional.from_hvsr_curves: row i of the table handed to the constructor is entry i's curve, frequencies of the first entry, an entry not similar to the first refused."
_SIM_TS = ("is_similar / __eq__ under contract (contracts/similar.py): two time series are similar iff their time steps differ by at most 1e-8 s and they have as many samples, "
           "equal iff similar and the samples of the one close to the other's; two recordings are similar iff ns / ew / vt are pairwise similar, equal iff also pairwise equal "
           "(components, meta) with orientations within 0.1 degree; anything of another class is not similar (the test the recording's constructor applies to its components).")
_SIM_CV = ("is_similar of HvsrCurve / HvsrTraditional / Psd / HvsrAzimuthal under contract (contracts/similar.py): same class, as many frequencies, self's frequencies close to the "
           "other's with the tolerances given or the source's defaults (the defaults of the signature are read from the source); azimuthal: as many azimuths, first objects similar, "
           "azimuths pairwise within 0.1 degree (loop invariant); HvsrAzimuthal.__eq__: similar and per-azimuth objects pairwise equal - the test the constructors apply.")
S4_MORE["C18"] = S4_MORE.get("C18", "") + " " + _SIM_TS
S4_MORE["C12"] += " " + _SIM_CV
S4_MORE["C19"] += (" After the repairs F-21 / F-22 (/repo 4d4b3de, 3d8a081): _process_hvsr_and_report under contract - the worker once with the task's arguments in order, the "
                   "file's name handed back exactly when the pipeline raised for it, no exception leaves it (so the other tasks of a chunk are run); cli(): one result per task, a "
                   "ClickException leaves it exactly when some file failed, after the one batch; _process_hvsr[figures on]: the plotting function raises under a named condition and the "
                   "result file has been written when that exception leaves the worker. Bounded: in every run batches containing a file that cannot be processed (every other file "
                   "still gets the single-file output, for two - thorough six - positions / --nproc values), one file whose figure cannot be drawn (two centre frequencies), and a "
                   "diffuse-field run with figures on and --ymax below the curve; the exit status is not compared (not part of the property).")
_R56 = {
 "C01": "centre frequencies in any order (descending, shuffled); the same recording objects processed a second time with another method, compared with the curves of the pristine samples",
 "C02": "frequency axes that are not equally spaced; samples that are exactly zero in every row, unit impulses; a window whose only sample lies 4e-7 .. 8e-7 inside its edge",
 "C03": "the same recording twice in a list (not adjacent), recordings with amplitudes around 1e-9",
 "C04": "percentiles below 1 and 99; several sensors with different deployments in one preprocess call (the one on target first / last / in between)",
 "C05": "time-domain rejections with the object attached as history steps (masks read as truth values, must equal the selection returned); options dictionary edited by the caller between two searches",
 "C06": "every spelling DISTRIBUTION_MAP declares; azimuthal FDWRA after a keep-everything time-domain rejection; a dead band (exact zeros) under the lognormal mean curve",
 "C07": "per-recording lists with None entries; NaN-aware comparisons; integer counts beyond 2**24; the binary formats as in-memory streams",
 "C08": "mean-curve peak after the accepted set changed by a manual or time-domain rejection; the same range on axes of equal length and end points; originals independent of the azimuthal object built from them",
 "C09": "user FFT lengths below / at / above the library's power of two, three runs, metadata compared; recordings on a DC offset",
 "C10": "records of a whole number of windows; recordings the user has already turned; exact quarter turns in both directions",
 "C11": "an exact zero in an accepted window (other frequencies compared); exactly agreeing windows (standard deviation 0, covariance diagonal = std^2)",
 "C12": "deep troughs, a long-period band, amplitudes scaled by 1e-6 .. 3e-20",
 "C13": "a lower limit of 0; a kept and a rejected window exchange their samples in place, same call again",
 "C14": "small rectangular sites translated to UTM-like coordinates (found F-20)",
 "C15": "azimuth lists in any order with repeats; sequences of length one (one azimuth, one centre frequency)",
 "C16": "the same arrays rewritten in place with another curve and assessed again",
 "C17": "user FFT lengths incl. odd ones in psd_preprocess; recordings of 20000 / 40000 / 25000 samples in all six orders; negative flat gain",
 "C19": "SEED-style file names with several dots and a common first token",
 "C20": "the configuration that makes the all-accepted panel raise is checked to raise",
}
for _k, _v in _R56.items():
    S4_MORE[_k] = (S4_MORE.get(_k, "") + " Bounded additions after the fifth and sixth rounds of seeded changes: " + _v + ".").strip()
for _k, _v in S4_MORE.items():
    S4[_k] = ((S4[_k][0] + " " + _v,) + tuple(S4[_k][1:])) if _k in S4 else (_v, None, None)
for _pid, (_t, _n, _tech) in S4.items():
    cat, text, note, tech, ref = CLAIMS[_pid]
    CLAIMS[_pid] = (cat, text + " " + _t, note if _n is None else note + " " + _n, tech if _tech is None else _tech, ref)

# assumptions introduced with the session-4 contracts (appended to the evidence's assumptions / trusted base of the property)
S4_ASSUME = {
 "C01": ["PSD drivers: _rpds_single_component, the smoothing operator, np.fft.rfftfreq, prepare_fft_settings, prepare_records_with_inconsistent_dt are opaque stages used through their contracts"],
 "C03": ["A-NAN in _check_input (the NaN test comes before the sign test)"],
 "C05": ["A-NP-MASK (a[mask] is the sub-sequence / the rows where mask is True, in order)", "estimators opaque in the accessor proofs (formulas: the statistics.py contracts)", "np.cov opaque (A-NP-COV)",
         "A-NP-WHERE for flatten of a row selection"],
 "C06": ["update_peaks_bounded of a per-azimuth object = UPB(content, range, filters) (contract: C08)"],
 "C07": ["A-RE: every pattern's match is an opaque string with an identity, rows in file order", "int()/float() of matched text uninterpreted", "A-F32: stores into the float32 buffer are exact in the model",
         "A-OBSPY: obspy.read opaque (STREAM(file))", "files with more rows than the header announces (buffer overrun, IndexError) are evaluated natively only",
         "SAC: obspy may fail per (file, byte order) - CAN_READ uninterpreted; a readable SAC file yields at least one trace", "read_single: the six readers opaque (ACCEPTS / PARSED of reader, file entry, options, orientation)",
         "PEER: direction keys concrete per configuration (10 configurations); numpy's float(text) on storing a matched string; files with more samples than NPTS are evaluated natively only"],
 "C08": ["mean curves opaque arrays of the grid's length in the mean-curve-peak proofs"],
 "C09": ["scipy detrend / tukey / butter / sosfiltfilt opaque (A-DETREND, A-TUKEY, A-SOSFILTFILT)"],
 "C10": ["scipy detrend / tukey / butter / sosfiltfilt opaque (A-DETREND, A-TUKEY, A-SOSFILTFILT)"],
 "C11": ["A-NP-MASK", "A-CONCAT: np.concatenate / np.array of a list of selections is their concatenation in list order (_flatten_list itself is proved)",
         "weighted estimators opaque in the accessor proofs (formulas: the statistics.py contracts)", "_compute_statistical_weights is one array per object state (content: its own contract)", "np.cov(aweights) opaque",
         "HvsrTraditional.mean_curve_peak raises ValueError exactly under the named condition 'the mean curve has no peak in the range' (its behaviour: C08) in the per-azimuth peak table"],
 "C12": ["np.savetxt / np.loadtxt / json.dumps / json.loads / open opaque: the models record what they are handed resp. return 'the file's array / dictionary'", "strings opaque; the title line has one entry per column (A-TEXT-ROUNDTRIP)",
         "the azimuth in a column title is an uninterpreted function of the column (A-RE)", "update_peaks_bounded on the freshly read object: range / filters recorded, masks afterwards unknown (contract: C08)",
         "type invariant of per-azimuth objects (vectors / masks / rows have one entry per curve, one column per frequency)", "A-INDUCTION for the column offsets",
         "np.allclose an opaque predicate of its two operands and tolerances; an azimuthal object has one azimuth per per-azimuth object and at least one (its constructor)"],
 "C14": ["A-RNG: rng.normal(mean, std, size=n) is an opaque array of the call's position and arguments", "A-EXT: _statistics reads rows < K and columns < N only (its contract), instantiated for the array handed over",
         "shapely Point / contains / Polygon.area and the tessellation opaque in _cull_points / _voronoi_weights"],
 "C15": ["json / open opaque", "settings constructors with no arguments give default objects (their attribute lists: structural obligations)",
         "A-PYNUM: symbolic numbers are Python numbers (no .tolist(); a numpy scalar's tolist() returns the Python number of the same value - evaluated natively)",
         "A-DEEPCOPY: copy.deepcopy of numbers, strings, None, arrays, lists, tuples, dictionaries gives equal content in fresh storage at every level"],
 "C17": ["A-COMPLEX: complex spectra / transfer functions are opaque values with an identity; arithmetic on them is an uninterpreted function of operator and operands (routing only; the formulas of the transfer functions are evaluated natively)", "np.mean of the squared taper = TAPER_MEAN_SQUARE(length, width) > 0", "per-component stages of psd_preprocess (_remove_instrument_response, _differentiate) opaque functions of (content, transfer function / FFT length)"],
 "C18": ["json / open opaque", "np.allclose an opaque predicate of its two operands and tolerances; == between library objects is the left operand's __eq__ (an opaque predicate of the two objects in the container proofs)"],
 "C19": ["hvsrpy.read / preprocess / process / write_hvsr_object_to_file opaque stages (their contracts: C07, C10/C17, C01..C05, C12)", "deepcopy preserves content", "pathlib.Path(fname).stem + '.csv' as an uninterpreted function of the file name",
         "A-POOL in cli(): Pool(n) / starmap(function, tasks, chunksize) recorded, not executed; os.cpu_count() >= 2 and --nproc >= 1 are preconditions (otherwise the command fails before any file is processed)",
         "click delivers the options as the keyword dictionary of cli() (decorators not modelled)",
         "A-POOL (results): starmap hands back one result per task in task order; 'the pipeline raises for this file' is a named condition of the file name (FAILS), as is 'the figure cannot be drawn' in the worker",
         "a filtering comprehension [x for x in results if cond] is *some* sub-sequence: its length is 0 exactly when no element satisfies cond, its elements are not modelled"],
 "C20": ["matplotlib Axes and pandas as recorders of what they are handed", "plot_single_panel_hvsr_curves may raise ValueError at any call (nondeterministic) in the pre/post proof", "A-NP-WHERE for the enumeration of selected rows", "statistics accessors opaque functions of (object, distribution, n) (contracts: C05, C08, C11)",
         "np.meshgrid / np.vstack by their definition (A-NP-ELEM); mean_curve_by_azimuth / mean_curve_peak_by_azimuth opaque tables of the distribution; three azimuths; colour bar and tick cosmetics opaque"],
}
