# claims table, exec'd by tools/mkmanifest.py  (claim(id, category, text, trusted-base note, technique, DESIGN ref))
TB = ("Trusted: Python floats treated as mathematical reals (A-REAL); PyVC's semantics of the Python subset (A-PY); axiomatised numpy/scipy "
      "contracts (elementwise ops, allocation, fft, tukey, percentile, sqrt/sin/cos/log10/10**x as uninterpreted functions with the named "
      "axioms); numba's compilation of the @njit kernels; the PyVC engine and the SMT solvers themselves. ")

claim("C01", "other",
      "Proof (PyVC obligations discharged by z3/cvc5 on the source re-read from /repo): the five combine-horizontals formulas and single_azimuth "
      "pointwise for all vectors, nextpow2 (smallest power-of-two multiple above n, with termination measure), prepare_fft_settings for all four "
      "fft_settings shapes (n >= every record length: zero padding, never truncation), the three registries incl. every alias and the dispatch "
      "functions (structural, from the AST), and the homogeneity / common-factor / closed-form lemmas over the spec functions. Bounded "
      "(labelled, not counted as proved): the numeric pipeline taper -> |rfft| -> combine -> smooth -> divide of process() for all methods is "
      "compared with an independent numpy evaluation on generated windows, because rfft / tukey / percentile are external.",
      TB + "Bounded clause: 1-3 windows of 40-300 samples, 4 time steps, all methods and aliases, 7 operators, 4 taper widths, 4 fft_settings shapes.",
      "contract-based deductive verification (AST->SMT VCs, z3+cvc5) + bounded native contract evaluation", "DESIGN.md 5/C01")

claim("C02", "other",
      "Proof: each of the six windowed kernels (Konno-Ohmachi, Parzen, linear/log rectangular, linear/log triangular) returns, for every grid, "
      "spectrum (any number of rows), centre-frequency vector and bandwidth > 0, out[r,c] = SP(r,c)/SW(c) under its published support and weight "
      "(ghost sums with one-step unfolding; inner/outer loop invariants; zero for fc < 1e-6 or empty window; every index in bounds; inputs not "
      "written). Bounded: Savitzky-Golay against its quadratic/cubic spec and 'compiled kernel == interpreted source' (numba is outside any "
      "contract on Python source) by differential runs.",
      TB + "sin/log10/10**x uninterpreted, only log10(y)=0 <=> y=1 and pi bounds assumed for the safety of sin(x)/x.",
      "contract-based deductive verification with loop invariants over ghost sums (z3+cvc5) + bounded differential check of compiled kernels", "DESIGN.md 5/C02")
