#!/usr/bin/env python3
"""Confirm a change written by a sub-agent and store it under /verif/seeded/<pid>-<n>/.
   usage: tools/ingest_seed.py <pid> <k in agent output> <n for the seeded id> [confirm-worktree]
   Confirmation = demo exits 0 on the clean tree, 1 with the change, and the test suite fails on nothing beyond the always-failing set."""
import json, os, re, shutil, subprocess, sys

pid, k, n = sys.argv[1], sys.argv[2], sys.argv[3]
BASE = os.environ.get("MUT_BASE", "/tmp/mut3")
wt = sys.argv[4] if len(sys.argv) > 4 else f"{BASE}/confirm"
src = f"{BASE}/{pid}/out"
HERE = os.path.dirname(os.path.dirname(os.path.abspath(__file__)))


def sh(cmd, **kw):
    return subprocess.run(cmd, shell=True, capture_output=True, text=True, **kw)


if not os.path.isdir(wt):
    r = sh(f"git -C /repo worktree add --detach {wt} HEAD")
    assert r.returncode == 0, r.stderr
sh(f"git -C {wt} checkout -- . && git -C {wt} clean -fdq")
diff, demo, notes = (os.path.join(src, f"change{k}{x}") for x in (".diff", "_demo.py", "_notes.md"))
for f in (diff, demo):
    if not os.path.exists(f):
        sys.exit(f"missing {f}")
env = f"PYTHONPATH={wt} MPLBACKEND=Agg"
base_file = f"{BASE}/always_fail.json"
if not os.path.exists(base_file):
    r = sh(f"cd {wt} && {env} /venv/bin/python -m pytest -q -p no:cacheprovider --timeout=900 2>&1 | grep -E '^(FAILED|ERROR)' | sed 's/ - .*//' | sort -u")
    json.dump(r.stdout.split("\n"), open(base_file, "w"))
always = set(x for x in json.load(open(base_file)) if x)
r0 = sh(f"cd /tmp && {env} timeout 900 /venv/bin/python {demo}")
a = sh(f"git -C {wt} apply {diff}")
if a.returncode:
    sys.exit(f"patch does not apply: {a.stderr[:300]}")
try:
    r1 = sh(f"cd /tmp && {env} timeout 900 /venv/bin/python {demo}")
    t = sh(f"cd {wt} && {env} /venv/bin/python -m pytest -q -p no:cacheprovider --timeout=900 2>&1 | tail -40")
    failed = set(re.sub(r" - .*", "", l) for l in t.stdout.split("\n") if l.startswith(("FAILED", "ERROR")))
    summary = [l for l in t.stdout.split("\n") if " passed" in l or " failed" in l][-1:]
finally:
    sh(f"git -C {wt} checkout -- . && git -C {wt} clean -fdq")
ok = r0.returncode == 0 and r1.returncode == 1 and failed <= always
print(pid, k, "demo clean rc", r0.returncode, "changed rc", r1.returncode, "new failing tests", sorted(failed - always), summary, "=> CONFIRMED" if ok else "=> REJECTED")
if not ok:
    print((r0.stdout + r0.stderr)[-600:], "\n----\n", (r1.stdout + r1.stderr)[-600:])
    sys.exit(1)
dst = os.path.join(HERE, "seeded", f"{pid}-{n}")
os.makedirs(dst, exist_ok=True)
shutil.copy(diff, os.path.join(dst, "patch.diff"))
shutil.copy(demo, os.path.join(dst, "demo.py"))
if os.path.exists(notes):
    shutil.copy(notes, os.path.join(dst, "notes.md"))
files = re.findall(r"^\+\+\+ b/(\S+)", open(diff).read(), re.M)
meta = dict(id=f"{pid}-{n}", breaks_property=pid, files_changed=files,
            needs_to_manifest=(open(notes).read().split("\n") if os.path.exists(notes) else []),
            origin=os.environ.get("MUT_ROUND", "third") + " round: written by an independent sub-agent that saw only the property text, (from the third round on) a list of the mechanisms already tried, and its own scratch worktree of /repo - nothing from /verif",
            confirmed=dict(how="tools/ingest_seed.py in a scratch worktree of /repo: demo on the clean tree, git apply, demo again, full test suite, git checkout",
                           demo_on_clean_tree=f"exit {r0.returncode}", demo_with_change=f"exit {r1.returncode}", test_suite_with_change=(summary[0] if summary else "?"),
                           failing_tests_beyond_the_always_failing_set=sorted(failed - always)),
            detected_by=None)
json.dump(meta, open(os.path.join(dst, "meta.json"), "w"), indent=1)
