"""The constructors of the result objects under contract: HvsrTraditional.__init__, HvsrTraditional.from_hvsr_curves, HvsrCurve.__init__ and
HvsrAzimuthal.__init__ (what a freshly built object holds: the caller's frequencies and curves, row by row in the order given, in storage of its own; every
window accepted; a private copy of the metadata; peaks found once with the default range after all of that is in place).

Callees: HvsrCurve._check_input through its contract (C03: a fresh copy of the values, ValueError for NaN or negative values - here the validity of an input is
a named condition VALID(which) and the call forks on it); update_peaks_bounded is opaque: it is recorded (how often, with which arguments, in which state of the
object) and gives the peak vectors and the peak mask as uninterpreted functions of the object's content (its contract: C08).
"""
import z3

from pyvc.core import I, R, B, A2, ARef, ORef, FuncV, ClsV, DictV, StrV, Tup, NONE, PyRaise, PyRaiseIf, Undecided, lit
from pyvc.contract import Contract, FunctionTask, sym_obj, sym_arr1, sym_arr2
from pyvc import npmodel as npm

NFQ, NW, NCOL = z3.Ints("n_frequencies n_windows n_columns")
VALID = z3.Function("passes_check_input", I, B)          # 0: the frequency argument, 1: the amplitude argument
AR, ARB = z3.ArraySort(I, R), z3.ArraySort(I, B)
PEAK_F = z3.Function("UPB_peak_frequencies", AR, A2(R), I, I, AR)       # (frequencies, curves, number of windows, number of frequencies) with the default range / filters
PEAK_A = z3.Function("UPB_peak_amplitudes", AR, A2(R), I, I, AR)
PEAK_M = z3.Function("UPB_peak_mask", AR, A2(R), I, I, ARB)


def _m_check_input(ex, st, args, kw, node):
    """HvsrCurve._check_input(value, name) through its contract: a fresh double copy, or ValueError"""
    v, name = args
    if not isinstance(v, ARef) or type(name) is not StrV or name.s not in ("frequency", "amplitude"):
        raise Undecided("_check_input is handed something other than one of the two array arguments under its name")
    d = ex.arr(st, v)
    which = z3.IntVal(0 if d.owner == "param:frequency" else (1 if d.owner == "param:amplitude" else 2))
    if (name.s == "frequency") != (d.owner == "param:frequency"):
        st.env["__misnamed"] = True
    ok = VALID(which)
    if any(z3.eq(p_, z3.Not(ok)) for p_ in st.pc):
        raise PyRaise("ValueError", "the values contain NaN or a negative number")
    if not any(z3.eq(p_, ok) for p_ in st.pc):
        raise PyRaiseIf(z3.Not(ok), "ValueError")
    return ex.alloc_arr(st, d.shape, d.data, d.elem, "fresh", tag="checked")


def _m_atleast_2d(ex, st, args, kw, node):
    d = ex.arr(st, args[0])
    if d.rank == 2:
        return args[0]
    j = z3.Int("j!l")
    i = z3.Int("i!l")
    return ex.alloc_arr(st, (z3.IntVal(1), d.shape[0]), z3.Lambda([i], d.data), d.elem, d.owner, view_of=args[0].sid)


def _m_upb(ex, st, args, kw, node):
    """self.update_peaks_bounded(...): recorded with the state of the object at the call; sets the peak vectors, the peak mask and the stored options"""
    o = st.heap[args[0].oid]
    f = o.fields
    need = ("frequency", "amplitude", "n_curves", "valid_window_boolean_mask", "valid_peak_boolean_mask", "_main_peak_frq", "_main_peak_amp")
    if any(k not in f for k in need):
        raise PyRaise("AttributeError", "update_peaks_bounded runs before the object has its curves, masks and peak vectors")
    fr, am, wm = ex.arr(st, f["frequency"]), ex.arr(st, f["amplitude"]), ex.arr(st, f["valid_window_boolean_mask"])
    # update_peaks_bounded writes both masks in place (C08): they, and the two peak vectors, must be four arrays, none a view of another
    sids = [f[k_].sid for k_ in ("valid_window_boolean_mask", "valid_peak_boolean_mask", "_main_peak_frq", "_main_peak_amp")]
    roots = [st.heap[s_].view_of or s_ for s_ in sids]
    ex.add_obl(f"call-pre[update_peaks_bounded:masks-and-peak-vectors-are-separate-arrays@{node.lineno}]", "call-pre", st, z3.BoolVal(len(set(roots)) == 4), node.lineno,
               "the window mask, the peak mask and the two peak vectors do not share storage")
    st.env["__upb"] = st.env["__upb"] + [(len(args) - 1, dict(kw), fr.data, am.data, am.shape, wm.data)]
    n, m = am.shape
    f["_main_peak_frq"] = ex.alloc_arr(st, (n,), PEAK_F(fr.data, am.data, n, m), "real", "fresh", tag="peak_frq")
    f["_main_peak_amp"] = ex.alloc_arr(st, (n,), PEAK_A(fr.data, am.data, n, m), "real", "fresh", tag="peak_amp")
    f["valid_peak_boolean_mask"] = ex.alloc_arr(st, (n,), PEAK_M(fr.data, am.data, n, m), "bool", "fresh", tag="peak_mask")
    f["_search_range_in_hz"], f["_find_peaks_kwargs"] = Tup((NONE, NONE)), NONE
    return NONE


FREQ, AMP2, AMP1 = z3.Const("frequency", AR), z3.Const("amplitude", A2(R)), z3.Const("amplitude", AR)
META_V = z3.Real("meta_entry")


def _inputs(rank, meta):
    def mk(ex, st):
        st.env["self"] = sym_obj(ex, st, "HvsrTraditional", {}, owner="param:self")
        st.env["frequency"] = ex.alloc_arr(st, (NFQ,), FREQ, "real", "param:frequency", tag="frequency")
        st.env["amplitude"] = ex.alloc_arr(st, (NW, NCOL), AMP2, "real", "param:amplitude", tag="amplitude") if rank == 2 else \
            ex.alloc_arr(st, (NCOL,), AMP1, "real", "param:amplitude", tag="amplitude")
        inner = ex.alloc_list(st, [z3.Real("meta_list_0")], owner="param:meta.list")
        st.env["meta"] = {"None": NONE, "dict": DictV({"k": META_V, "l": inner})}[meta]
        st.env["__upb"], st.env["__misnamed"], st.env["__meta_list"] = [], False, inner
        return [NFQ >= 0, NW >= 0, NCOL >= 0]
    return mk


def _upb_once(ex, st, a, k, n_):
    """update_peaks_bounded was called exactly once, without arguments, on the object holding the caller's frequencies and curves with every window accepted"""
    u = st.env["__upb"]
    if len(u) != 1 or u[0][0] != 0 or u[0][1] or st.env["__misnamed"]:
        return z3.BoolVal(False)
    _, _, fr, am, shape, wm = u[0]
    i = z3.Int("i!u")
    return z3.ForAll([i], z3.Implies(z3.And(i >= 0, i < shape[0]), z3.Select(wm, i)))


def _meta_ok(ex, st, a, k, n_):
    m = st.heap[st.env["self"].oid].fields.get("meta")
    given = st.env["meta"]
    if given is NONE:
        return z3.BoolVal(isinstance(m, DictV) and not m.items)
    if not isinstance(m, DictV) or m is given or list(m.items) != ["k", "l"] or not hasattr(m.items["l"], "sid") or m.items["l"].sid == st.env["__meta_list"].sid:
        return z3.BoolVal(False)
    inner = st.heap[m.items["l"].sid].items
    return z3.And(lit(m.items["k"]) == META_V, z3.BoolVal(len(inner) == 1), lit(inner[0]) == z3.Real("meta_list_0"))


def _own_storage(ex, st, a, k, n_):
    f = st.heap[st.env["self"].oid].fields
    out = []
    for name in ("frequency", "amplitude", "valid_window_boolean_mask", "valid_peak_boolean_mask"):
        r = f.get(name)
        if not isinstance(r, ARef):
            return z3.BoolVal(False)
        d = st.heap[r.sid]
        root = st.heap[d.view_of] if d.view_of is not None else d
        out.append(root.owner == "fresh")
    return z3.BoolVal(all(out))


GHOST = {"VALID": VALID, "NFQ": NFQ, "NW": NW, "NCOL": NCOL, "FREQ": lambda i: z3.Select(FREQ, i), "upb_once": FuncV(_upb_once, "upb_once"), "meta_ok": FuncV(_meta_ok, "meta_ok"),
         "own_storage": FuncV(_own_storage, "own_storage"),
         "PEAK_M2": lambda i: z3.Select(PEAK_M(FREQ, AMP2, NW, NCOL), i), "PEAK_F2": lambda i: z3.Select(PEAK_F(FREQ, AMP2, NW, NCOL), i),
         "AMP2": lambda i, j: z3.Select(z3.Select(AMP2, i), j), "AMP1": lambda j: z3.Select(AMP1, j)}
ENV = {"HvsrCurve": FuncV(lambda ex, st, a, k, n_: (_ for _ in ()).throw(Undecided("HvsrCurve is constructed")), "HvsrCurve", attrs={"_check_input": FuncV(_m_check_input, "HvsrCurve._check_input")}),
       "np": npm.ModV("np", dict(npm.NP.attrs, atleast_2d=FuncV(_m_atleast_2d, "np.atleast_2d"))), "deepcopy": npm.DEEPCOPY}
REG = {"HvsrTraditional.update_peaks_bounded": FuncV(_m_upb, "HvsrTraditional.update_peaks_bounded")}

TASKS = []
for _rank in (2, 1):
    for _meta in ("None", "dict"):
        _nw = "NW" if _rank == 2 else "1"
        _amp = "AMP2(i, j)" if _rank == 2 else "AMP1(j)"
        ens = ["len(self.frequency) == NFQ and forall(i, 0, NFQ, self.frequency[i] == FREQ(i))",
               f"self.n_curves == {_nw} and len(self.amplitude) == {_nw}",
               f"forall(i, 0, {_nw}, forall(j, 0, NFQ, self.amplitude[i][j] == {_amp}))",
               f"len(self.valid_window_boolean_mask) == {_nw} and forall(i, 0, {_nw}, self.valid_window_boolean_mask[i])",
               "upb_once()", "meta_ok()", "own_storage()", "VALID(0) and VALID(1) and NFQ == NCOL"]
        if _rank == 2:
            ens.append("len(self.valid_peak_boolean_mask) == NW and forall(i, 0, NW, self.valid_peak_boolean_mask[i] == PEAK_M2(i))")
        c = Contract(qual="hvsrpy.hvsr_traditional.HvsrTraditional.__init__", params=["self", "frequency", "amplitude", "meta"], ghost=GHOST, make_inputs=_inputs(_rank, _meta),
                     ensures=ens, raises_only_if={"ValueError": "not VALID(0) or not VALID(1) or NFQ != NCOL"}, modifies=["param:self"],
                     notes="the object holds the caller's frequencies and curves (row i is curve i; a single curve becomes a one-row table) in storage of its own, accepts every "
                           "window, keeps a private deep copy of a metadata dictionary (an empty one otherwise) and finds its peaks once, with the defaults, when all of that is "
                           "in place; ValueError exactly when an input fails _check_input or the lengths disagree")
        c.conditional_raises = True
        c.ghost_state = ("__upb", "__misnamed")
        TASKS.append(FunctionTask(c, module_env=ENV, registry=REG, label=f"hvsrpy.hvsr_traditional.HvsrTraditional.__init__[{'curves x frequencies' if _rank == 2 else 'one curve'},meta={_meta}]",
                                  clauses=["a new result holds the given curves row by row, in order, every window accepted"]))

# ---------------------------------------------------------------- HvsrCurve.__init__ (a single curve)
CPEAK_F = z3.Function("UPB_curve_peak_frequency", AR, AR, I, R)
CPEAK_A = z3.Function("UPB_curve_peak_amplitude", AR, AR, I, R)
NAMP = z3.Int("n_amplitudes")


def _m_upb_curve(ex, st, args, kw, node):
    o = st.heap[args[0].oid]
    f = o.fields
    if any(k not in f for k in ("frequency", "amplitude", "_search_range_in_hz", "_find_peaks_kwargs", "peak_frequency", "peak_amplitude")):
        raise PyRaise("AttributeError", "update_peaks_bounded runs before the object has its curve and its peak attributes")
    fr, am = ex.arr(st, f["frequency"]), ex.arr(st, f["amplitude"])
    st.env["__upb"] = st.env["__upb"] + [(len(args) - 1, dict(kw), fr.data, am.data, am.shape, None)]
    f["peak_frequency"], f["peak_amplitude"] = CPEAK_F(fr.data, am.data, am.shape[0]), CPEAK_A(fr.data, am.data, am.shape[0])
    f["_search_range_in_hz"], f["_find_peaks_kwargs"] = Tup((NONE, NONE)), NONE
    return NONE


def _curve_inputs(meta):
    def mk(ex, st):
        facts = _inputs(1, meta)(ex, st)
        st.env["self"] = sym_obj(ex, st, "HvsrCurve", {}, owner="param:self")
        return facts
    return mk


def _curve_upb_once(ex, st, a, k, n_):
    u = st.env["__upb"]
    return z3.BoolVal(len(u) == 1 and u[0][0] == 0 and not u[0][1] and not st.env["__misnamed"])


def _curve_own(ex, st, a, k, n_):
    f = st.heap[st.env["self"].oid].fields
    return z3.BoolVal(all(isinstance(f.get(nm), ARef) and st.heap[f[nm].sid].owner == "fresh" and st.heap[f[nm].sid].view_of is None for nm in ("frequency", "amplitude")))


_static_check = FuncV(lambda ex, st, a, k, n_: _m_check_input(ex, st, [x for x in a if not isinstance(x, ORef)], k, n_), "HvsrCurve._check_input")       # a static method reached through self
for _meta in ("None", "dict"):
    c = Contract(qual="hvsrpy.hvsr_curve.HvsrCurve.__init__", params=["self", "frequency", "amplitude", "meta"],
                 ghost=dict(GHOST, upb_once=FuncV(_curve_upb_once, "upb_once"), own_storage=FuncV(_curve_own, "own_storage"),
                            PEAKF=CPEAK_F(FREQ, AMP1, NCOL), PEAKA=CPEAK_A(FREQ, AMP1, NCOL)),
                 make_inputs=_curve_inputs(_meta),
                 ensures=["len(self.frequency) == NFQ and forall(i, 0, NFQ, self.frequency[i] == FREQ(i))", "len(self.amplitude) == NFQ and forall(j, 0, NFQ, self.amplitude[j] == AMP1(j))",
                          "upb_once()", "meta_ok()", "own_storage()", "VALID(0) and VALID(1) and NFQ == NCOL", "self.peak_frequency == PEAKF and self.peak_amplitude == PEAKA"],
                 raises_only_if={"ValueError": "not VALID(0) or not VALID(1) or NFQ != NCOL"}, modifies=["param:self"],
                 notes="a single curve: the caller's frequencies and amplitudes in storage of its own, a private copy of the metadata, the peak found once with the defaults")
    c.conditional_raises = True
    c.ghost_state = ("__upb", "__misnamed")
    TASKS.append(FunctionTask(c, module_env=ENV, registry={"HvsrCurve._check_input": _static_check, "HvsrCurve.update_peaks_bounded": FuncV(_m_upb_curve, "HvsrCurve.update_peaks_bounded")},
                              label=f"hvsrpy.hvsr_curve.HvsrCurve.__init__[meta={_meta}]", clauses=["a single curve holds the given values; its peak is found once with the defaults"]))

# ---------------------------------------------------------------- HvsrAzimuthal.__init__
# Entry i of the new object is a *new* HvsrTraditional built from the frequencies, the curves and the metadata of the caller's entry i (not the caller's object:
# its rejections are not carried over), entries in the caller's order, as many as the shorter of the two lists; azimuth i is float(azimuths[i]); peaks are found
# once at the end.  ValueError exactly when some azimuth up to there lies outside [0, 180] or some entry is not similar to the first.
from pyvc import objects
from pyvc.objects import new_symlist, SObj, SLRef
NA, NAZ = z3.Ints("n_hvsrs n_azimuths")
IN_H = z3.Const("input_hvsr_ids", z3.ArraySort(I, I))
IN_AZ = z3.Const("input_azimuths", AR)
NEW_T = z3.Function("NEW_HvsrTraditional", I, I, I, I)        # (object whose frequencies, object whose curves, object whose metadata are handed over) -> the new object
SIMILAR = z3.Function("is_similar", I, I, B)


def _source(data, field):
    """the object a field array of a symbolic object belongs to: its content is fld_<class>_<field>...(object, index...)"""
    b = data
    while z3.is_quantifier(b) and b.is_lambda():
        b = b.body()
    if z3.is_app(b) and b.num_args() >= 2 and b.decl().name().startswith("fld_HvsrTraditional_" + field):
        oid = b.arg(0)
        if not any(z3.is_var(x) for x in _subterms(oid)):
            return oid
    raise Undecided(f"the constructor is handed something other than the {field} of one of the given objects")


def _subterms(t):
    out, stack = [], [t]
    while stack:
        x = stack.pop()
        out.append(x)
        stack.extend(x.children())
    return out


def _built_from(ex, st, oid):
    return NEW_T(oid, oid, oid)


def _m_new_traditional(ex, st, args, kw, node):
    if len(args) != 2 or set(kw) - {"meta"}:
        raise Undecided("HvsrTraditional is constructed in another way than HvsrTraditional(frequency, amplitude, meta=...)")
    fr, am = ex.arr(st, args[0]), ex.arr(st, args[1])
    m = kw.get("meta", NONE)
    code = lit(list(m.items.values())[0]) if isinstance(m, DictV) and list(m.items) == ["<entries of the recording's meta>"] else z3.IntVal(-1)
    if am.rank != 2 or fr.rank != 1:
        raise Undecided("constructor arguments of unexpected rank")
    return NEW_T(_source(fr.data, "frequency"), _source(am.data, "amplitude"), code)


def _m_check_az(ex, st, args, kw, node):
    """HvsrAzimuthal._check_input(hvsr, azimuth) through its contract (C11): (hvsr, float(azimuth)), ValueError outside [0, 180]"""
    a = [x for x in args if not isinstance(x, ORef)]
    h, az = a
    bad = z3.Or(lit(az) < 0, lit(az) > 180)
    if any(z3.eq(p_, bad) for p_ in st.pc):
        raise PyRaise("ValueError", "azimuth outside [0, 180]")
    if not any(z3.eq(p_, z3.simplify(z3.Not(bad))) for p_ in st.pc):
        raise PyRaiseIf(bad, "ValueError")
    return Tup((h, lit(az)))


def _m_similar(ex, st, args, kw, node):
    a, b_ = args
    return SIMILAR(a.id, b_.id)


def _az_inputs(meta):
    def mk(ex, st):
        st.env["self"] = sym_obj(ex, st, "HvsrAzimuthal", {}, owner="param:self")
        st.env["hvsrs"] = new_symlist(ex, st, "HvsrTraditional", length=NA, arr=IN_H, owner="param:hvsrs", name="hvsrs")
        st.env["azimuths"] = ex.alloc_arr(st, (NAZ,), IN_AZ, "real", "param:azimuths", tag="azimuths")
        inner = ex.alloc_list(st, [z3.Real("meta_list_0")], owner="param:meta.list")
        st.env["meta"] = {"None": NONE, "dict": DictV({"k": META_V, "l": inner})}[meta]
        st.env["__upb"], st.env["__misnamed"], st.env["__meta_list"] = [], False, inner
        return [NA >= 1, NAZ >= 0]
    return mk


def _self_havoc(ex, st, v):
    f = st.heap[v.oid].fields
    for nm in ("hvsrs", "azimuths"):
        if isinstance(f.get(nm), SLRef):
            objects.symlist_havoc(ex, st, f[nm], "self." + nm)
    return v


def _m_upb_az(ex, st, args, kw, node):
    f = st.heap[args[0].oid].fields
    if any(k not in f for k in ("hvsrs", "azimuths", "meta")):
        raise PyRaise("AttributeError", "update_peaks_bounded runs before the object is complete")
    d = st.heap[f["hvsrs"].sid]
    st.env["__upb"] = st.env["__upb"] + [(len(args) - 1, dict(kw), d.length, d.arr, None, None)]
    return NONE


def _az_upb_once(ex, st, a, k, n_):
    """update_peaks_bounded ran once, without arguments, when the list of per-azimuth objects was already complete"""
    u = st.env["__upb"]
    if len(u) != 1 or u[0][0] != 0 or u[0][1]:
        return z3.BoolVal(False)
    d = st.heap[st.heap[st.env["self"].oid].fields["hvsrs"].sid]
    return z3.And(u[0][2] == d.length, u[0][3] == d.arr)


_AZ_GHOST = {"NA": NA, "NAZ": NAZ, "BUILT": FuncV(lambda ex, st, a, k, n_: _built_from(ex, st, z3.Select(IN_H, lit(a[0]))), "BUILT"), "AZ": lambda i: z3.Select(IN_AZ, i),
             "SIMILAR0": lambda i: SIMILAR(z3.Select(IN_H, 0), z3.Select(IN_H, i)), "upb_once": FuncV(_az_upb_once, "upb_once"), "meta_ok": FuncV(_meta_ok, "meta_ok"),
             "N": z3.If(NA <= NAZ, NA, NAZ)}
_bad = "exists(i, 0, N, AZ(i) < 0 or AZ(i) > 180 or not SIMILAR0(i))"
for _meta in ("None", "dict"):
    c = Contract(qual="hvsrpy.hvsr_azimuthal.HvsrAzimuthal.__init__", params=["self", "hvsrs", "azimuths", "meta"], ghost=_AZ_GHOST, make_inputs=_az_inputs(_meta),
                 sym_lists={"self.hvsrs": "int", "self.azimuths": "real"}, obj_havoc={"self": _self_havoc},
                 loops={0: ["len(self.hvsrs) == _k0 and len(self.azimuths) == _k0", "forall(i, 0, _k0, self.hvsrs[i] == BUILT(i) and self.azimuths[i] == AZ(i))",
                            "forall(i, 0, _k0, 0 <= AZ(i) and AZ(i) <= 180 and SIMILAR0(i))"]},
                 ensures=["len(self.hvsrs) == N and len(self.azimuths) == N", "forall(i, 0, N, self.hvsrs[i] == BUILT(i))", "forall(i, 0, N, self.azimuths[i] == AZ(i))",
                          "upb_once()", "meta_ok()", f"not {_bad}"],
                 raises_only_if={"ValueError": _bad}, modifies=["param:self"],
                 notes="entry i is a new HvsrTraditional built from the frequencies, curves and metadata of the caller's entry i (every window of it accepted again), in the "
                       "caller's order; azimuth i is the caller's azimuth i; peaks are found once when the lists are complete")
    c.conditional_raises = True
    TASKS.append(FunctionTask(c, module_env=dict(ENV, HvsrTraditional=FuncV(_m_new_traditional, "HvsrTraditional")),
                              registry={"HvsrAzimuthal._check_input": FuncV(_m_check_az, "HvsrAzimuthal._check_input"), "HvsrTraditional.is_similar": FuncV(_m_similar, "HvsrTraditional.is_similar"),
                                        "HvsrAzimuthal.update_peaks_bounded": FuncV(_m_upb_az, "HvsrAzimuthal.update_peaks_bounded")},
                              label=f"hvsrpy.hvsr_azimuthal.HvsrAzimuthal.__init__[meta={_meta}]",
                              clauses=["an azimuthal result holds one new per-azimuth object per given pair, built from that pair's curves, in order"]))

# ---------------------------------------------------------------- Psd.__init__ / Psd._check_input (psd.py): the same validation, no peaks
import copy as _copy
import contracts.C03 as _C03


def _psd_meta_ok(ex, st, a, k, n_):
    """a new dictionary with the caller's entries (or an empty one); rpsd() builds its Psd objects without metadata"""
    m = st.heap[st.env["self"].oid].fields.get("meta")
    given = st.env["meta"]
    if given is NONE:
        return z3.BoolVal(isinstance(m, DictV) and not m.items)
    return z3.BoolVal(isinstance(m, DictV) and m is not given and list(m.items) == list(given.items) and all(m.items[k_] is given.items[k_] for k_ in m.items))


PSD_TASKS = []
_pc = _copy.copy(_C03.CHECK_INPUT)
_pc.qual = "hvsrpy.psd.Psd._check_input"
PSD_TASKS.append(FunctionTask(_pc, label="hvsrpy.psd.Psd._check_input", clauses=["a density is a finite non-negative array: anything else is refused"]))
for _meta in ("None", "dict"):
    def _psd_inputs(ex, st, _m=_meta):
        facts = _inputs(1, _m)(ex, st)
        st.env["self"] = sym_obj(ex, st, "Psd", {}, owner="param:self")
        return facts
    c = Contract(qual="hvsrpy.psd.Psd.__init__", params=["self", "frequency", "amplitude", "meta"],
                 ghost=dict(GHOST, own_storage=FuncV(_curve_own, "own_storage"), meta_ok=FuncV(_psd_meta_ok, "meta_ok"),
                            named_right=FuncV(lambda ex, st, a, k, n_: z3.BoolVal(not st.env["__misnamed"]), "named_right")),
                 make_inputs=_psd_inputs,
                 ensures=["len(self.frequency) == NFQ and forall(i, 0, NFQ, self.frequency[i] == FREQ(i))", "len(self.amplitude) == NFQ and forall(j, 0, NFQ, self.amplitude[j] == AMP1(j))",
                          "meta_ok()", "own_storage()", "named_right()", "VALID(0) and VALID(1) and NFQ == NCOL"],
                 raises_only_if={"ValueError": "not VALID(0) or not VALID(1) or NFQ != NCOL"}, modifies=["param:self"],
                 notes="a density object holds the caller's frequencies and values in storage of its own; equal lengths required")
    c.conditional_raises = True
    PSD_TASKS.append(FunctionTask(c, module_env=ENV, registry={"Psd._check_input": _static_check}, label=f"hvsrpy.psd.Psd.__init__[meta={_meta}]",
                                  clauses=["a Psd holds exactly the frequencies and densities it is given"]))
ALL_TASKS = TASKS + PSD_TASKS

# ---------------------------------------------------------------- HvsrTraditional.from_hvsr_curves
# row i of the table handed to the constructor is the curve of entry i, the frequencies are those of the first entry, the metadata the caller's; an entry that is
# not similar to the first is refused.  (Not used by the library's own pipeline; part of the public interface.)
NCV = z3.Int("n_hvsr_curves")
IN_C = z3.Const("input_curve_ids", z3.ArraySort(I, I))
SIMC = z3.Function("curve_is_similar", I, I, B)
META_ID = z3.Int("meta_given")


def _fhc_inputs(ex, st):
    st.env["cls"] = FuncV(_m_cls_table, "HvsrTraditional")
    st.env["hvsr_curves"] = new_symlist(ex, st, "HvsrCurve", length=NCV, arr=IN_C, owner="param:hvsr_curves", name="hvsr_curves")
    st.env["meta"] = META_ID
    st.env["__built"] = []
    k = z3.Int("k!len")
    # the similarity test of entry k includes "as many frequencies as the first entry" (HvsrCurve.is_similar); amplitude and frequency of a curve have one length (its constructor)
    alen, flen = objects.arr_len("HvsrCurve", "amplitude", z3.Select(IN_C, k)), objects.arr_len("HvsrCurve", "frequency", z3.Select(IN_C, k))
    f0 = objects.arr_len("HvsrCurve", "frequency", z3.Select(IN_C, 0))
    return [NCV >= 1, z3.ForAll([k], z3.And(alen == flen, alen >= 0), patterns=[z3.Select(IN_C, k)]),
            z3.ForAll([k], z3.Implies(SIMC(z3.Select(IN_C, k), z3.Select(IN_C, 0)), flen == f0), patterns=[SIMC(z3.Select(IN_C, k), z3.Select(IN_C, 0))])]


def _m_cls_table(ex, st, args, kw, node):
    fr, am = ex.arr(st, args[0]), ex.arr(st, args[1])
    st.env["__built"] = st.env["__built"] + [(fr, am, kw.get("meta", NONE))]
    return z3.IntVal(1)


def _built_ok(ex, st, a, k, n_):
    b = st.env["__built"]
    if len(b) != 1:
        return z3.BoolVal(False)
    fr, am, meta = b[0]
    i, j = z3.Ints("i!b j!b")
    c0 = z3.Select(IN_C, 0)
    nf = objects.arr_len("HvsrCurve", "frequency", c0)
    return z3.And(fr.shape[0] == nf, z3.ForAll([j], z3.Implies(z3.And(j >= 0, j < nf), ex.sel1(fr, j) == objects.arr_at("HvsrCurve", "frequency", c0, j))),
                  am.shape[0] == NCV, am.shape[1] == nf,
                  z3.ForAll([i, j], z3.Implies(z3.And(i >= 0, i < NCV, j >= 0, j < nf), ex.sel2(am, i, j) == objects.arr_at("HvsrCurve", "amplitude", z3.Select(IN_C, i), j))),
                  z3.BoolVal(meta is not NONE) and lit(meta) == META_ID)


FHC = Contract(qual="hvsrpy.hvsr_traditional.HvsrTraditional.from_hvsr_curves", params=["cls", "hvsr_curves", "meta"], make_inputs=_fhc_inputs,
               ghost={"built_ok": FuncV(_built_ok, "built_ok"), "NCV": NCV, "SIM0": lambda i: SIMC(z3.Select(IN_C, i), z3.Select(IN_C, 0)),
                      "ROWV": FuncV(lambda ex, st, a, k, n_: objects.arr_at("HvsrCurve", "amplitude", z3.Select(IN_C, lit(a[0])), lit(a[1])), "ROWV"),
                      "NF0": objects.arr_len("HvsrCurve", "frequency", z3.Select(IN_C, 0))},
               loops={0: ["forall(i, 0, _k0, SIM0(i))", "forall(i, 0, _k0, forall(j, 0, NF0, amplitude[i, j] == ROWV(i, j)))"]}, stable_shapes=("amplitude",),
               ensures=["built_ok()", "result == 1", "forall(i, 0, NCV, SIM0(i))"], raises_only_if={"ValueError": "exists(i, 0, NCV, not SIM0(i))"}, modifies=[],
               notes="the constructor receives the first entry's frequencies, a table whose row i is entry i's curve, and the caller's metadata; an entry that is not similar to the first is refused")
TASKS.append(FunctionTask(FHC, registry={"HvsrCurve.is_similar": FuncV(lambda ex, st, a, k, n_: SIMC(a[0].id, a[1].id), "HvsrCurve.is_similar")},
                          label="hvsrpy.hvsr_traditional.HvsrTraditional.from_hvsr_curves", clauses=["curves given one by one become the rows of a result, in order"]))
ALL_TASKS = TASKS + PSD_TASKS
