"""C11 - azimuthal statistics give every azimuth equal weight (hvsr_azimuthal.py)."""
import z3

from pyvc.core import I, R, B
from pyvc.contract import Contract, FunctionTask, LemmaTask, sym_obj
from pyvc import objects
from pyvc.objects import SObj, fld, new_symlist

H = z3.Int("n_hvsrs")           # number of per-azimuth objects
A = z3.Int("n_azimuths")        # len(self.azimuths)
HV = z3.Const("hvsr_ids", z3.ArraySort(I, I))
NVf = fld("HvsrTraditional", "valid_peak_boolean_mask_count", I)


def NV(a):
    return NVf(z3.Select(HV, a))


OFF = z3.Function("OFF", I, I)      # ghost prefix sums of the accepted-peak counts
a_ = z3.Int("a!off")
AX = [OFF(0) == 0,
      z3.ForAll([a_], z3.Implies(a_ >= 0, OFF(a_ + 1) == OFF(a_) + NV(a_)), patterns=[OFF(a_ + 1)])]


def _inputs(ex, st):
    hv = new_symlist(ex, st, "HvsrTraditional", length=H, arr=HV, owner="param:self.hvsrs", name="hvsrs")
    az = new_symlist(ex, st, None, length=A, arr=z3.Const("azimuths", z3.ArraySort(I, R)), owner="param:self.azimuths", name="azimuths")
    st.env["self"] = sym_obj(ex, st, "HvsrAzimuthal", {"hvsrs": hv, "azimuths": az}, owner="param:self")
    st.env["H"], st.env["A"] = H, A
    k = z3.Int("k!nv")
    return [H >= 0, A >= 1, z3.ForAll([k], z3.Implies(z3.And(k >= 0, k < H), NV(k) >= 1), patterns=[NV(k)])]


WEIGHTS = Contract(
    qual="hvsrpy.hvsr_azimuthal.HvsrAzimuthal._compute_statistical_weights", params=["self"],
    requires=[], ghost={"OFF": OFF, "NV": lambda a: NV(a)},
    ensures=["len(result) == OFF(H)",
             "forall(a, 0, H, forall(i, 0, NV(a), result[OFF(a) + i] == 1 / (A * NV(a))))"],
    loops={0: ["len(weights) == OFF(_k0)", "OFF(_k0) >= 0",
               "forall(a, 0, _k0, OFF(a) >= 0 and OFF(a) + NV(a) <= OFF(_k0))",
               "forall(a, 0, _k0, forall(i, 0, NV(a), weights[OFF(a) + i] == 1 / (A * NV(a))))"]},
    sym_lists={"weights": "real"}, axioms=AX, make_inputs=_inputs, modifies=[],
    notes="requires at least one accepted peak on every azimuth (division) - the property's 'at least one accepted window per azimuth'")

# sum of the weights is one: induction over azimuths on the ghost partial sums SW(a) = sum of the first OFF(a) weights = a / A
TASKS = [FunctionTask(WEIGHTS, clauses=["w = 1/(number of azimuths x accepted windows of the azimuth), azimuth-major order"])]
Af, n1 = z3.Reals("Af n1")
TASKS += [
    LemmaTask("weights-of-one-azimuth-sum-to-1/A", [Af >= 1, n1 >= 1], n1 * (1 / (Af * n1)) == 1 / Af, "n_a weights of 1/(A n_a) contribute 1/A; A azimuths give 1 (step of the induction)"),
    LemmaTask("single-azimuth-denominator", [n1 > 1], (1 - n1 * (1 / n1) * (1 / n1)) * n1 == n1 - 1,
              "A = 1: 1 - sum w^2 = 1 - 1/n, so (1/n) S / (1 - 1/n) = S / (n - 1): the traditional n-1 denominator"),
]

# ---------------------------------------------------------------------------------------------------------------------
# per-azimuth accessors and the range update: row a / entry a / object a is the per-azimuth quantity of hvsrs[a] for the distribution asked for
from pyvc.core import FuncV, Tup, NONE, DictV
AR = z3.ArraySort(I, R)
M = z3.Int("n_frequencies")
DIST = z3.Int("distribution")
MC = z3.Function("MC", I, I, AR)                # HvsrTraditional.mean_curve(distribution) of an object (its own contract: C05)
MCPF, MCPA = z3.Function("MCPF", I, I, R), z3.Function("MCPA", I, I, R)      # its mean_curve_peak
FREQ = z3.Const("frequency", AR)


def _m_mean_curve(ex, st, args, kw, node):
    return ex.alloc_arr(st, (M,), MC(args[0].id, kw["distribution"]), "real", "fresh", tag="mean_curve")


HASPK = z3.Function("mean_curve_has_peak", I, I, z3.BoolSort())      # mean_curve_peak raises ValueError exactly when the mean curve has no peak in the range (its contract: C08)


def _m_mcp(ex, st, args, kw, node):
    from pyvc.core import PyRaiseIf
    ok = HASPK(args[0].id, kw["distribution"])
    if not any(z3.eq(p_, ok) for p_ in st.pc):
        raise PyRaiseIf(z3.Not(ok), "ValueError")
    return Tup((MCPF(args[0].id, kw["distribution"]), MCPA(args[0].id, kw["distribution"])))


def _by_az_inputs(ex, st):
    facts = _inputs(ex, st)
    o = st.heap[st.env["self"].oid].fields
    o["n_azimuths"] = A
    o["frequency"] = ex.alloc_arr(st, (M,), FREQ, "real", "param:self.frequency", tag="frequency")
    st.env["distribution"] = DIST
    st.env["M"] = M
    return facts + [M >= 1, H == A]


_GH = {"MC": lambda h, c: z3.Select(MC(h, DIST), c), "MCPF": lambda h: MCPF(h, DIST), "MCPA": lambda h: MCPA(h, DIST), "HID": lambda a: z3.Select(HV, a),
       "HASPK": lambda h: HASPK(h, DIST)}
MCBA = Contract(qual="hvsrpy.hvsr_azimuthal.HvsrAzimuthal.mean_curve_by_azimuth", params=["self", "distribution"], ghost=_GH, make_inputs=_by_az_inputs,
                ensures=["result.shape[0] == A and result.shape[1] == M", "forall(a, 0, A, forall(c, 0, M, result[a, c] == MC(HID(a), c)))"],
                loops={0: ["forall(a, 0, _k0, forall(c, 0, M, array[a, c] == MC(HID(a), c)))"]}, stable_shapes=("array",), modifies=[],
                notes="row a = mean curve of azimuth a for the distribution asked for")
MCPBA = Contract(qual="hvsrpy.hvsr_azimuthal.HvsrAzimuthal.mean_curve_peak_by_azimuth", params=["self", "distribution"], ghost=_GH, make_inputs=_by_az_inputs,
                 ensures=["len(result[0]) == A and len(result[1]) == A", "forall(a, 0, A, result[0][a] == MCPF(HID(a)) and result[1][a] == MCPA(HID(a)))",
                          "forall(a, 0, A, HASPK(HID(a)))"],
                 raises_only_if={"ValueError": "exists(a, 0, A, not HASPK(HID(a)))"},
                 loops={0: ["forall(a, 0, _k0, peak_frequencies[a] == MCPF(HID(a)) and peak_amplitudes[a] == MCPA(HID(a)))", "forall(a, 0, _k0, HASPK(HID(a)))"]},
                 stable_shapes=("peak_frequencies", "peak_amplitudes"), modifies=[],
                 notes="entry a = peak of the mean curve of azimuth a; the table is handed out only when every azimuth has a peak (a missing peak is reported by the "
                       "exception of the per-azimuth object, never by another azimuth's numbers)")
MCPBA.conditional_raises = True
_REG = {"HvsrTraditional.mean_curve": FuncV(_m_mean_curve, "mean_curve"), "HvsrTraditional.mean_curve_peak": FuncV(_m_mcp, "mean_curve_peak")}
TASKS += [FunctionTask(MCBA, registry=_REG, clauses=["per-azimuth mean curves in azimuth order"]),
          FunctionTask(MCPBA, registry=_REG, clauses=["per-azimuth mean-curve peaks in azimuth order"])]

# ---------------------------------------------------------------------------------------------------------------------
# the weighted estimators the azimuthal statistics use: _nanmean_weighted / _nanstd_weighted(denominator="cheng") with explicit weights on a
# NaN-free sample.  Sums over the sample are named (np.nansum trusted): SW = sum w, SWV = sum w g(v), SW2 = sum w^2, SSW(m) = sum w (g(v) - m)^2.
from pyvc.core import StrV, ARef, ModV, Undecided, lit, NONE as NONE_
from pyvc import npmodel as npm
from pyvc.npmodel import SQRT, NAN, EXP, LOG
import contracts.C05 as C05

NVAL = z3.Int("n_values")
VALS, WTS = z3.Const("values", AR), z3.Const("weights", AR)
SW, SW2 = z3.Reals("sum_w sum_w_squared")
SWV = {"normal": z3.Real("sum_w_v"), "lognormal": z3.Real("sum_w_log_v")}
SSW = {"normal": z3.Function("SSW_v", R, R), "lognormal": z3.Function("SSW_log_v", R, R)}


def _wsum_model(canon):
    g = (lambda x: x) if canon == "normal" else (lambda x: LOG(x))

    def f(ex, st, args, kw, node):
        x = args[0]
        if not isinstance(x, ARef):
            return x
        d = ex.arr(st, x)
        c0 = z3.Int("c!sum")
        v0, w0 = z3.Select(VALS, c0), z3.Select(WTS, c0)
        elem = z3.simplify(z3.Select(d.data, c0))
        subs = []
        for t in (v0, LOG(v0), w0):                    # NaN-free sample and weights (precondition)
            subs += [(t == NAN, z3.BoolVal(False)), (NAN == t, z3.BoolVal(False))]
        elem = z3.simplify(z3.substitute(elem, *subs))
        e = g(v0)
        cands = [(w0, SW), (w0 * w0, SW2), (w0 ** 2, SW2), (e * w0, SWV[canon])]
        m_ = st.env.get("mean")
        if m_ is not None and z3.is_expr(lit(m_)):
            cands += [(w0 * (e - lit(m_)) * (e - lit(m_)), SSW[canon](lit(m_))), (w0 * (e - lit(m_)) ** 2, SSW[canon](lit(m_)))]
        for shape, name in cands:
            if z3.simplify(elem - shape).eq(z3.RealVal(0)):
                return name
        raise Undecided(f"np.nansum of an expression the abstraction does not name: {elem}")
    return FuncV(f, "np.nansum")


def _w_inputs(name):
    def mk(ex, st):
        st.env["values"] = ex.alloc_arr(st, (NVAL,), VALS, "real", "param:values", tag="values")
        st.env["weights"] = ex.alloc_arr(st, (NVAL,), WTS, "real", "param:weights", tag="weights")
        st.env["distribution"] = StrV(name)
        st.env["mean_kwargs"] = st.env["std_kwargs"] = NONE_
        st.env["denominator"] = StrV("cheng")
        st.env["NVAL"] = NVAL
        k = z3.Int("k!v")
        return [NVAL >= 1, SW != 0, 1 - SW2 != 0,
                z3.ForAll([k], z3.And(z3.Select(VALS, k) != NAN, z3.Select(VALS, k) > 0, LOG(z3.Select(VALS, k)) != NAN, z3.Select(WTS, k) != NAN), patterns=[z3.Select(VALS, k)])]
    return mk


for _name in ("normal", "lognormal"):
    _np = ModV("np", dict(npm.NP.attrs, nansum=_wsum_model(_name), sum=_wsum_model(_name), isnan=FuncV(C05._isnan_model, "np.isnan")))
    _env = {"np": _np, "_distribution_factory": C05._factory_model(_name), "DISTRIBUTION_MAP": C05.DISTRIBUTION_MAP}
    _mean = "SWV / SW" if _name == "normal" else "exp(SWV / SW)"
    TASKS.append(FunctionTask(Contract(qual="hvsrpy.statistics._nanmean_weighted", params=["distribution", "values", "weights", "mean_kwargs"],
                                       ghost={"SWV": SWV[_name], "SW": SW, "exp": EXP}, make_inputs=_w_inputs(_name), ensures=[f"result == {_mean}"], modifies=[],
                                       notes="weighted mean sum w g(v) / sum w (geometric for lognormal)"),
                              module_env=_env, label=f"hvsrpy.statistics._nanmean_weighted[weighted,{_name}]", clauses=["weighted mean estimator"]))

    def _mean_call(ex, st, args, kw, node, _n=_name):
        return SWV[_n] / SW if _n == "normal" else EXP(SWV[_n] / SW)
    _m = "SWV / SW" if _name == "normal" else "log(exp(SWV / SW))"
    TASKS.append(FunctionTask(Contract(qual="hvsrpy.statistics._nanstd_weighted", params=["distribution", "values", "weights", "std_kwargs", "denominator"],
                                       ghost={"SWV": SWV[_name], "SW": SW, "SW2": SW2, "SSW": SSW[_name], "exp": EXP, "log": LOG, "sqrt": SQRT},
                                       make_inputs=_w_inputs(_name), ensures=[f"result == sqrt(SSW({_m}) / (1 - SW2))"], modifies=[],
                                       notes="Cheng et al. (2020): sqrt( sum w (g(v) - mean)^2 / (1 - sum w^2) )"),
                              module_env=dict(_env, _nanmean_weighted=FuncV(_mean_call, "_nanmean_weighted")),
                              label=f"hvsrpy.statistics._nanstd_weighted[weighted,cheng,{_name}]", clauses=["Cheng et al. weighted standard deviation"]))

# the statistic accessors of HvsrAzimuthal: which per-azimuth selections, in which order, with which weights, reach which estimator
import contracts.acc_azimuthal as _ACCA
TASKS += _ACCA.TASKS

META = dict(
    level="other",
    explanation="proved also: mean_curve_by_azimuth / mean_curve_peak_by_azimuth route azimuth a to row / entry a; "
                "proved: _compute_statistical_weights returns, azimuth-major, 1/(A n_a) for each of the n_a accepted windows of azimuth a (loop invariant over "
                "ghost prefix sums, symbolic number of azimuths and windows); algebraic steps of the sum-to-one and single-azimuth lemmas; "
                "cross-check (bounded, labelled): every azimuthal statistic against the Cheng et al. weighted estimators over mask histories, "
                "azimuth-order independence, single-azimuth and equal-count reductions",
    trusted_base=["A-REAL", "A-PY", "A-NP-SUM (np.sum of a boolean mask = number of True entries, ghost count per object)", "numpy cov(aweights) external", "PyVC engine + z3/cvc5"],
    assumptions=["A-REAL", "A-PY", "A-NP-SUM", "A-NP-COV", "A-PERM"],
)

# the constructors of the result objects (contracts/ctor_hvsr.py): an azimuthal result holds one new per-azimuth object per (curves, azimuth) pair, in order
import contracts.ctor_hvsr as _CTOR
TASKS += [t for t in _CTOR.TASKS if "HvsrAzimuthal.__init__" in t.label]
