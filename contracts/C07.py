"""C07 - readers put the stored samples on the right components for every format (data_wrangler.py).

Under contract: _check_npts (raises iff the counts differ).  The readers parse text with regular expressions and call obspy; both are
external (A-RE, A-OBSPY), so the format-level clauses are evaluated natively on files written from a grammar (bounded/C07.py).
"""
import ast

import z3

from pyvc.contract import Contract, FunctionTask, StructTask

a, b = z3.Ints("npts_header npts_found")


def _inputs(ex, st):
    st.env["npts_header"], st.env["npts_found"] = a, b
    return []


CHECK_NPTS = Contract(qual="hvsrpy.data_wrangler._check_npts", params=["npts_header", "npts_found"], raises={"ValueError": "npts_header != npts_found"},
                      ensures=["npts_header == npts_found"], make_inputs=_inputs, modifies=[])


def read_broadcast(loader):
    """read(): degrees_from_north and obspy_read_kwargs are each broadcast according to their *own* type, and zipped in order"""
    fn, _ = loader.find("hvsrpy.data_wrangler.read")
    out = []
    ifs = [n for n in ast.walk(fn) if isinstance(n, ast.If) and isinstance(n.test, ast.Call) and ast.unparse(n.test.func) == "isinstance"]
    seen = {}
    for n in ifs:
        subject = ast.unparse(n.test.args[0])
        tgt = [ast.unparse(s.targets[0]) for s in n.body if isinstance(s, ast.Assign)]
        for t in tgt:
            seen[t] = subject
    out.append(("read: the decision to repeat obspy_read_kwargs is taken from obspy_read_kwargs", seen.get("read_kwargs_iter") == "obspy_read_kwargs", str(seen)))
    out.append(("read: the decision to repeat degrees_from_north is taken from degrees_from_north", seen.get("degrees_from_north_iter") == "degrees_from_north", str(seen)))
    loops = [n for n in ast.walk(fn) if isinstance(n, ast.For)]
    ok = any(ast.unparse(l.iter) == "zip(fnames, read_kwargs_iter, degrees_from_north_iter)" for l in loops)
    out.append(("read: file names, reader options and orientations are zipped in order", ok, ""))
    return out


def dispatch(loader):
    node = loader.module_assign("hvsrpy.data_wrangler", "READ_FUNCTION_DICT")
    got = {k.value: v.id for k, v in zip(node.keys, node.values)}
    want = {"mseed": "_read_mseed", "saf": "_read_saf", "minishark": "_read_minishark", "sac": "_read_sac", "gcf": "_read_gcf", "peer": "_read_peer"}
    out = [(f"READ_FUNCTION_DICT[{k!r}] is {v}", got.get(k) == v, str(got.get(k))) for k, v in want.items()]
    out.append(("the last reader tried is peer (its error is the one re-raised for an unrecognised file)", list(got)[-1] == "peer", str(list(got))))
    return out


TASKS = [FunctionTask(CHECK_NPTS, clauses=["a sample count that disagrees with the header raises"]), StructTask("read-broadcast", read_broadcast, textual=True),
         StructTask("reader-registry", dispatch)]

# ---------------------------------------------------------------------------------------------------------------------
# _arrange_traces: for three traces, every combination of channel-code endings (E, N, Z, or anything else) - the function only looks at the
# last letter of the code, so these 4^3 cases are all there are.  The three loop iterations are unrolled (concrete list).
import itertools

from pyvc.core import FuncV, StrV, Tup

_CODES = {"E": "HHE", "N": "BHN", "Z": "EHZ", "other": "HH1"}


def _arr_inputs(letters):
    def mk(ex, st):
        traces = []
        for k, l in enumerate(letters):
            meta = ex.alloc_obj(st, "Stats", {"channel": StrV(_CODES[l])}, f"param:traces[{k}].meta")
            traces.append(ex.alloc_obj(st, "Trace", {"meta": meta, "index": z3.IntVal(k)}, f"param:traces[{k}]"))
        st.env["traces"] = ex.alloc_list(st, traces)
        return []
    return mk


def _from_trace(ex, st, args, kw, node):
    """TimeSeries.from_trace(trace): stands for "the time series made from trace <index>" (its own contract: C18 / bounded C07)"""
    return ex.alloc_obj(st, "TimeSeries", {"from_trace_index": st.heap[args[0].oid].fields["index"]}, "fresh")


_TS = FuncV(None, "TimeSeries", attrs={"from_trace": FuncV(_from_trace, "TimeSeries.from_trace")})
for letters in itertools.product(("E", "N", "Z", "other"), repeat=3):
    if sorted(letters) == ["E", "N", "Z"]:
        pos = {l: k for k, l in enumerate(letters)}
        ens = [f"result[0].from_trace_index == {pos['N']}", f"result[1].from_trace_index == {pos['E']}", f"result[2].from_trace_index == {pos['Z']}"]
        rai = {}
    else:
        ens, rai = [], {"ValueError": "True"}
    TASKS_ARR = FunctionTask(Contract(qual="hvsrpy.data_wrangler._arrange_traces", params=["traces"], ensures=ens, raises=rai, make_inputs=_arr_inputs(letters), modifies=[],
                                      notes="three traces: (ns, ew, vt) = the traces whose channel codes end in N, E, Z, in whatever order they come; anything else is refused"),
                             module_env={"TimeSeries": _TS}, label=f"hvsrpy.data_wrangler._arrange_traces[{','.join(letters)}]",
                             clauses=["components are assigned by channel code, independent of the order of the traces"])
    TASKS.append(TASKS_ARR)

META = dict(
    level="other",
    explanation="proved: _check_npts raises iff the counts differ; _arrange_traces for three traces and all 64 combinations of channel-code endings "
                "(E / N / Z / other): (ns, ew, vt) are the traces ending in N, E, Z in whatever order they come, every other combination raises ValueError; structural: read() broadcasts each argument by its own type and zips in order, the reader "
                "registry; bounded: SAF / MiniShark / PEER files written from a grammar (channel and file orders, NORTH_ROT / azimuth codes / explicit "
                "orientation incl. 0, gain and conversion, both line endings, count mismatches), miniSEED (1 and 3 files) and SAC (both byte orders) "
                "written with obspy in all 6 orders, the GCF example, an unrecognised file, read() argument broadcasting",
    trusted_base=["re (patterns not analysed deductively)", "obspy readers/writers", "single-precision rounding of the text formats"],
    assumptions=["A-RE", "A-OBSPY", "A-F32"],
)
