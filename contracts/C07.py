"""C07 - readers put the stored samples on the right components for every format (data_wrangler.py).

Under contract: _check_npts (raises iff the counts differ).  The readers parse text with regular expressions and call obspy; both are
external (A-RE, A-OBSPY), so the format-level clauses are evaluated natively on files written from a grammar (bounded/C07.py).
"""
import ast

import z3

from pyvc.contract import Contract, FunctionTask, StructTask

a, b = z3.Ints("npts_header npts_found")


def _inputs(ex, st):
    st.env["npts_header"], st.env["npts_found"] = a, b
    return []


CHECK_NPTS = Contract(qual="hvsrpy.data_wrangler._check_npts", params=["npts_header", "npts_found"], raises={"ValueError": "npts_header != npts_found"},
                      ensures=["npts_header == npts_found"], make_inputs=_inputs, modifies=[])


def read_broadcast(loader):
    """read(): degrees_from_north and obspy_read_kwargs are each broadcast according to their *own* type, and zipped in order"""
    fn, _ = loader.find("hvsrpy.data_wrangler.read")
    out = []
    ifs = [n for n in ast.walk(fn) if isinstance(n, ast.If) and isinstance(n.test, ast.Call) and ast.unparse(n.test.func) == "isinstance"]
    seen = {}
    for n in ifs:
        subject = ast.unparse(n.test.args[0])
        tgt = [ast.unparse(s.targets[0]) for s in n.body if isinstance(s, ast.Assign)]
        for t in tgt:
            seen[t] = subject
    out.append(("read: the decision to repeat obspy_read_kwargs is taken from obspy_read_kwargs", seen.get("read_kwargs_iter") == "obspy_read_kwargs", str(seen)))
    out.append(("read: the decision to repeat degrees_from_north is taken from degrees_from_north", seen.get("degrees_from_north_iter") == "degrees_from_north", str(seen)))
    loops = [n for n in ast.walk(fn) if isinstance(n, ast.For)]
    ok = any(ast.unparse(l.iter) == "zip(fnames, read_kwargs_iter, degrees_from_north_iter)" for l in loops)
    out.append(("read: file names, reader options and orientations are zipped in order", ok, ""))
    return out


def dispatch(loader):
    node = loader.module_assign("hvsrpy.data_wrangler", "READ_FUNCTION_DICT")
    got = {k.value: v.id for k, v in zip(node.keys, node.values)}
    want = {"mseed": "_read_mseed", "saf": "_read_saf", "minishark": "_read_minishark", "sac": "_read_sac", "gcf": "_read_gcf", "peer": "_read_peer"}
    out = [(f"READ_FUNCTION_DICT[{k!r}] is {v}", got.get(k) == v, str(got.get(k))) for k, v in want.items()]
    out.append(("the last reader tried is peer (its error is the one re-raised for an unrecognised file)", list(got)[-1] == "peer", str(list(got))))
    return out


TASKS = [FunctionTask(CHECK_NPTS, clauses=["a sample count that disagrees with the header raises"]), StructTask("read-broadcast", read_broadcast, textual=True),
         StructTask("reader-registry", dispatch)]

# ---------------------------------------------------------------------------------------------------------------------
# _arrange_traces: for three traces, every combination of channel-code endings (E, N, Z, or anything else) - the function only looks at the
# last letter of the code, so these 4^3 cases are all there are.  The three loop iterations are unrolled (concrete list).
import itertools

from pyvc.core import FuncV, StrV, Tup

_CODES = {"E": "HHE", "N": "BHN", "Z": "EHZ", "other": "HH1"}


def _arr_inputs(letters):
    def mk(ex, st):
        traces = []
        for k, l in enumerate(letters):
            meta = ex.alloc_obj(st, "Stats", {"channel": StrV(_CODES[l])}, f"param:traces[{k}].meta")
            traces.append(ex.alloc_obj(st, "Trace", {"meta": meta, "index": z3.IntVal(k)}, f"param:traces[{k}]"))
        st.env["traces"] = ex.alloc_list(st, traces)
        return []
    return mk


def _from_trace(ex, st, args, kw, node):
    """TimeSeries.from_trace(trace): stands for "the time series made from trace <index>" (its own contract: C18 / bounded C07)"""
    return ex.alloc_obj(st, "TimeSeries", {"from_trace_index": st.heap[args[0].oid].fields["index"]}, "fresh")


_TS = FuncV(None, "TimeSeries", attrs={"from_trace": FuncV(_from_trace, "TimeSeries.from_trace")})
for letters in itertools.product(("E", "N", "Z", "other"), repeat=3):
    if sorted(letters) == ["E", "N", "Z"]:
        pos = {l: k for k, l in enumerate(letters)}
        ens = [f"result[0].from_trace_index == {pos['N']}", f"result[1].from_trace_index == {pos['E']}", f"result[2].from_trace_index == {pos['Z']}"]
        rai = {}
    else:
        ens, rai = [], {"ValueError": "True"}
    TASKS_ARR = FunctionTask(Contract(qual="hvsrpy.data_wrangler._arrange_traces", params=["traces"], ensures=ens, raises=rai, make_inputs=_arr_inputs(letters), modifies=[],
                                      notes="three traces: (ns, ew, vt) = the traces whose channel codes end in N, E, Z, in whatever order they come; anything else is refused"),
                             module_env={"TimeSeries": _TS}, label=f"hvsrpy.data_wrangler._arrange_traces[{','.join(letters)}]",
                             clauses=["components are assigned by channel code, independent of the order of the traces"])
    TASKS.append(TASKS_ARR)

# ---------------------------------------------------------------------------------------------------------------------
# _read_minishark and _read_saf under contract: everything *around* the regular expressions.  The text of the file is opaque; every pattern's match
# is an opaque string with an identity (HEADER(name) for the header fields, ROW(i, j) for group j of the i-th data row, in file order: A-RE); int() /
# float() of such a string are uninterpreted functions of that identity.  Proved: which column goes to which component, the scaling, the time step,
# the orientation rule, the sample-count check, and that a list of files is refused.  Stores into the float32 buffer are exact in the model (A-F32).
from pyvc.core import I, R, B, NONE, ARef, ModV, ClsV, DictV, Undecided, lit, ReturnRec
from pyvc.contract import sym_obj
from pyvc import npmodel as npm

PARSE_INT = z3.Function("int_of_text", I, I)
PARSE_FLOAT = z3.Function("float_of_text", I, R)
HEADER = z3.Function("header_field_text", I, I)       # identity of the text matched for header field number k
ROWTXT = z3.Function("row_group_text", I, I, I)        # identity of group j of data row i
NROWS = z3.Int("n_data_rows")
_FIELDS = {}


def _field(name):
    return HEADER(z3.IntVal(_FIELDS.setdefault(name, len(_FIELDS))))


class OStr(StrV):
    """an opaque string with an identity"""

    def __init__(self, sym_id):
        super().__init__("<matched text>")
        self.sym_id = sym_id

    def merge_with(self, cond, other):
        return OStr(z3.If(cond, self.sym_id, other.sym_id))


def _m_int(ex, st, args, kw, node):
    if isinstance(args[0], OStr):
        return PARSE_INT(args[0].sym_id)
    return npm.BUILTINS["int"].fn(ex, st, args, kw, node)


def _m_float(ex, st, args, kw, node):
    if isinstance(args[0], OStr):
        return PARSE_FLOAT(args[0].sym_id)
    return npm.BUILTINS["float"].fn(ex, st, args, kw, node)


def _pattern(name, optional=None):
    """a compiled pattern: .search(text).groups()[0] is the field's text; an optional field that is absent makes .groups() fail (AttributeError on None)"""
    def groups(ex, st, args, kw, node):
        if optional is not None and not ex.spec_mode:
            miss = st.fork()
            miss.pc.append(z3.Not(optional))
            ex.returns.append(ReturnRec(miss, None, "AttributeError", getattr(node, "lineno", 0)))
            st.pc.append(optional)
        return Tup((OStr(_field(name)),))
    match = ModV("match", {"groups": FuncV(groups, "groups")})
    return ModV(name, {"search": FuncV(lambda ex, st, a, k, n_: match, "search")})


def _row_pattern(name, ngroups=3):
    def finditer(ex, st, args, kw, node):
        from pyvc.core import SeqV
        def row(ex_, st_, i):
            return ModV("row", {"groups": FuncV(lambda e2, s2, a2, k2, n2, _i=i: Tup(OStr(ROWTXT(_i, z3.IntVal(j))) for j in range(ngroups)), "groups")})
        return SeqV(NROWS, row, owner="fresh", name="rows")
    return ModV(name, {"finditer": FuncV(finditer, "finditer")})


def _m_open_text(ex, st, args, kw, node):
    return ModV("file", {"read": FuncV(lambda e2, s2, a2, k2, n2: StrV("<text of the file>"), "read")})


def _m_ts(ex, st, args, kw, node):
    d = ex.arr(st, args[0])
    return ex.alloc_obj(st, "TimeSeries", {"amplitude": ex.alloc_arr(st, d.shape, d.data, "real", "fresh", tag="samples"), "dt_in_seconds": kw["dt_in_seconds"]}, "fresh")


def _m_rec(ex, st, args, kw, node):
    return ex.alloc_obj(st, "SeismicRecording3C", {"ns": args[0], "ew": args[1], "vt": args[2], "degrees_from_north": kw["degrees_from_north"], "meta": kw.get("meta", NONE)}, "fresh")


def _m_empty_f32(ex, st, args, kw, node):
    kw = {k: v for k, v in kw.items() if k != "dtype"}          # float32 buffer: stores are exact in the model (A-F32)
    return npm.NP.attrs["empty"].fn(ex, st, args, kw, node)


_RD_NP = ModV("np", dict(npm.NP.attrs, empty=FuncV(_m_empty_f32, "np.empty"), float32=StrV("float32")))
_RD_BASE = {"int": FuncV(_m_int, "int"), "float": FuncV(_m_float, "float"), "str": FuncV(lambda ex, st, a, k, n_: StrV("<str>"), "str"), "open": FuncV(_m_open_text, "open"),
            "list": ClsV("list"), "tuple": ClsV("tuple"), "io": ModV("io", {"StringIO": ClsV("StringIO")}), "np": _RD_NP,
            "TimeSeries": FuncV(_m_ts, "TimeSeries"), "SeismicRecording3C": FuncV(_m_rec, "SeismicRecording3C"), "_check_npts": CHECK_NPTS,
            "warnings": ModV("warnings", {"warn": FuncV(lambda ex, st, a, k, n_: NONE, "warnings.warn")}), "UserWarning": ClsV("UserWarning")}
DEG_IN = z3.Real("degrees_from_north_given")


def _rd_inputs(deg_given, as_list=False):
    def mk(ex, st):
        st.env["fnames"] = ex.alloc_list(st, [StrV("<a>"), StrV("<b>")]) if as_list else StrV("<fname>")
        st.env["obspy_read_kwargs"] = NONE
        st.env["degrees_from_north"] = DEG_IN if deg_given else NONE
        st.env["NROWS"] = NROWS
        return [NROWS >= 0]
    return mk


_ROWF = lambda i, j: f"float_of(ROW({i}, {j}))"
_RD_GHOST = {"ROW": lambda i, j: ROWTXT(i, j), "float_of": PARSE_FLOAT, "int_of": PARSE_INT, "FIELD": FuncV(lambda ex, st, a, k, n_: _field(a[0].s), "FIELD"), "NROWS": NROWS}

# ---- MiniShark: columns vt, ns, ew; every sample divided by gain and by the conversion factor
_MS_ENV = dict(_RD_BASE, mshark_npts_exec=_pattern("npts"), mshark_fs_exec=_pattern("fs"), mshark_conversion_exec=_pattern("conversion"), mshark_gain_exec=_pattern("gain"),
               mshark_row_exec=_row_pattern("rows"))
_ms_col = lambda comp, j: (f"len(result.{comp}.amplitude) == NROWS and forall(i, 0, NROWS, result.{comp}.amplitude[i] == "
                           f"({_ROWF('i', j)} / int_of(FIELD('gain'))) / int_of(FIELD('conversion'))) and result.{comp}.dt_in_seconds == 1 / float_of(FIELD('fs'))")
for _dg in (False, True):
    _c = Contract(qual="hvsrpy.data_wrangler._read_minishark", params=["fnames", "obspy_read_kwargs", "degrees_from_north"], ghost=_RD_GHOST, make_inputs=_rd_inputs(_dg),
                  requires=["int_of(FIELD('gain')) != 0 and int_of(FIELD('conversion')) != 0 and float_of(FIELD('fs')) != 0 and int_of(FIELD('npts')) >= 0",
                            "NROWS <= int_of(FIELD('npts'))"],      # surplus rows overrun the buffer (IndexError in numpy): evaluated natively, not modelled
                  raises={"ValueError": "int_of(FIELD('npts')) != NROWS"},
                  ensures=[_ms_col("vt", 0), _ms_col("ns", 1), _ms_col("ew", 2),
                           "result.degrees_from_north == " + ("degrees_from_north" if _dg else "0")],
                  loops={0: ["idx == _k0", "forall(i, 0, _k0, " + " and ".join(f"data[i, {j}] == {_ROWF('i', j)}" for j in range(3)) + ")"]},
                  stable_shapes=("data",), modifies=[],
                  notes="MiniShark: first column vertical, second north, third east, each divided by gain and conversion factor; time step 1/fs; orientation as given "
                        "(0 when not given, an explicit 0 included); a row count that disagrees with the header raises")
    TASKS.append(FunctionTask(_c, module_env=_MS_ENV, label=f"hvsrpy.data_wrangler._read_minishark[degrees_from_north={'given' if _dg else 'None'}]",
                              clauses=["MiniShark: columns -> components, header scaling, time step, orientation, count check"]))
TASKS.append(FunctionTask(Contract(qual="hvsrpy.data_wrangler._read_minishark", params=["fnames", "obspy_read_kwargs", "degrees_from_north"], make_inputs=_rd_inputs(False, True),
                                   raises={"ValueError": "True"}, ensures=[], modifies=[]),
                          module_env=_MS_ENV, label="hvsrpy.data_wrangler._read_minishark[list of files]", clauses=["more than one file is refused"]))

# ---- SAF: the header names the column of each component (CHn_ID); NORTH_ROT is the orientation of the first horizontal channel
HAS_ROT = z3.Bool("file_has_NORTH_ROT")
_SAF_ENV = dict(_RD_BASE, saf_version_exec=_pattern("version"), saf_npts_exec=_pattern("npts"), saf_fs_exec=_pattern("fs"), saf_v_ch_exec=_pattern("v_ch"),
                saf_n_ch_exec=_pattern("n_ch"), saf_e_ch_exec=_pattern("e_ch"), saf_north_rot_exec=_pattern("north_rot", optional=HAS_ROT), saf_row_exec=_row_pattern("rows"))
_CH = lambda c: f"int_of(FIELD('{c}_ch'))"
_saf_col = lambda comp, ch: (f"len(result.{comp}.amplitude) == NROWS and forall(i, 0, NROWS, result.{comp}.amplitude[i] == float_of(ROW(i, {ch}))) and "
                             f"result.{comp}.dt_in_seconds == 1 / float_of(FIELD('fs'))")
_SAF_REQ = [" and ".join(f"0 <= {_CH(c)} and {_CH(c)} <= 2" for c in "vne") + " and float_of(FIELD('fs')) != 0 and int_of(FIELD('npts')) >= 0",
            "NROWS <= int_of(FIELD('npts'))"]
for _dg in (False, True):
    _rot = ("degrees_from_north" if _dg else
            f"ite(HAS_ROT, ite({_CH('n')} == 1, float_of(FIELD('north_rot')), float_of(FIELD('north_rot')) + 90), 0)")
    _c = Contract(qual="hvsrpy.data_wrangler._read_saf", params=["fnames", "obspy_read_kwargs", "degrees_from_north"], ghost=dict(_RD_GHOST, HAS_ROT=HAS_ROT),
                  make_inputs=_rd_inputs(_dg), requires=_SAF_REQ,
                  raises={"ValueError": f"int_of(FIELD('npts')) != NROWS" + ("" if _dg else f" or (HAS_ROT and {_CH('n')} != 1 and {_CH('e')} != 1)")},
                  ensures=[_saf_col("vt", _CH("v")), _saf_col("ns", _CH("n")), _saf_col("ew", _CH("e")), f"result.degrees_from_north == {_rot}"],
                  loops={0: ["idx == _k0", "forall(i, 0, _k0, " + " and ".join(f"data[i, {j}] == float_of(ROW(i, {_CH(c)}))" for j, c in enumerate("vne")) + ")"]},
                  stable_shapes=("data",), modifies=[],
                  notes="SAF: the vertical / north / east samples are the columns the header names for them; time step 1/fs; orientation = the value given, else NORTH_ROT "
                        "when the north channel is channel 1, NORTH_ROT + 90 when the east channel is, 0 when the file has no NORTH_ROT; otherwise refused")
    TASKS.append(FunctionTask(_c, module_env=_SAF_ENV, label=f"hvsrpy.data_wrangler._read_saf[degrees_from_north={'given' if _dg else 'None'}]",
                              clauses=["SAF: header-named columns -> components, time step, NORTH_ROT rule, count check"]))
TASKS.append(FunctionTask(Contract(qual="hvsrpy.data_wrangler._read_saf", params=["fnames", "obspy_read_kwargs", "degrees_from_north"], make_inputs=_rd_inputs(False, True),
                                   raises={"ValueError": "True"}, ensures=[], modifies=[]),
                          module_env=_SAF_ENV, label="hvsrpy.data_wrangler._read_saf[list of files]", clauses=["more than one file is refused"]))

# ---------------------------------------------------------------------------------------------------------------------
# _read_gcf and _read_mseed (one file with three traces / three files with one trace each): thin wrappers around obspy.  obspy.read is opaque
# (A-OBSPY): STREAM(file) is the list of traces it returns for a file.  Proved: exactly three traces are required, they are handed to _arrange_traces
# (proved above for all channel-code combinations) in file order, its (ns, ew, vt) go to the constructor in that order, orientation default 0.
from pyvc.objects import new_symlist, SObj
NTR = z3.Function("n_traces_in_file", I, I)              # file id -> number of traces obspy returns
TRID = z3.Function("trace_of_file", I, I, I)            # (file id, position) -> trace id
ARR3 = z3.Function("arranged_component", I, I, I, I, I)  # (trace ids 0..2, which of ns/ew/vt) -> the time series _arrange_traces returns
_FID = {"<fname>": 10, "<a>": 11, "<b>": 12, "<c>": 13}


def _fid(v):
    return z3.IntVal(_FID[v.s])


def _m_obspy_read(ex, st, args, kw, node):
    f = _fid(args[0])
    t = z3.Int("t!tr")
    st.pc.append(NTR(f) >= 0)
    return new_symlist(ex, st, "Trace", length=NTR(f), arr=z3.Lambda([t], TRID(f, t)), owner="fresh", name="stream")


def _m_stream(ex, st, args, kw, node):
    items = st.heap[args[0].sid].items
    if not all(isinstance(x, SObj) for x in items):
        raise Undecided("obspy.Stream of something other than traces")
    arr = z3.K(I, z3.IntVal(-1))
    for j, x in enumerate(items):
        arr = z3.Store(arr, j, x.id)
    return new_symlist(ex, st, "Trace", length=z3.IntVal(len(items)), arr=arr, owner="fresh", name="stream")


def _m_arrange(ex, st, args, kw, node):
    d = st.heap[args[0].sid]
    ex.add_obl(f"call-pre[_arrange_traces:three-traces@{node.lineno}]", "call-pre", st, d.length == 3, node.lineno, "_arrange_traces is handed exactly three traces")
    ids = [z3.simplify(z3.Select(d.arr, j)) for j in range(3)]
    return Tup(SObj("TimeSeries", ARR3(*ids, z3.IntVal(k)), owner="fresh") for k in range(3))


def _m_rec_s(ex, st, args, kw, node):
    return ex.alloc_obj(st, "SeismicRecording3C", {"ns": args[0], "ew": args[1], "vt": args[2], "degrees_from_north": kw["degrees_from_north"], "meta": kw.get("meta", NONE)}, "fresh")


_OB_ENV = {"str": ClsV("str"), "list": ClsV("list"), "tuple": ClsV("tuple"), "io": ModV("io", {"StringIO": ClsV("StringIO"), "BytesIO": ClsV("BytesIO")}),
           "pathlib": ModV("pathlib", {"Path": ClsV("Path")}), "_quiet_obspy_read": FuncV(_m_obspy_read, "_quiet_obspy_read"),
           "obspy": ModV("obspy", {"Stream": FuncV(_m_stream, "obspy.Stream")}), "_arrange_traces": FuncV(_m_arrange, "_arrange_traces"),
           "SeismicRecording3C": FuncV(_m_rec_s, "SeismicRecording3C")}
_OB_ENV["str"] = FuncV(lambda ex, st, a, k, n_: StrV("<str>"), "str")     # str(fnames) for the meta entry; isinstance(..., str) is decided through the tuple below


def _ob_inputs(kind, deg_given):
    def mk(ex, st):
        st.env["fnames"] = StrV("<fname>") if kind == "one" else ex.alloc_list(st, [StrV("<a>"), StrV("<b>"), StrV("<c>")])
        st.env["obspy_read_kwargs"] = NONE
        st.env["degrees_from_north"] = DEG_IN if deg_given else NONE
        return []
    return mk


def _comp_is(ex, st, a, k, n_):
    o, which = a[0], lit(a[1])
    ids = [lit(x) for x in a[2:5]]
    return o.id == ARR3(*ids, which) if isinstance(o, SObj) else z3.BoolVal(False)


_OB_GHOST = {"comp_is": FuncV(_comp_is, "comp_is"), "NTR": NTR, "TR": TRID}
_one = [f"comp_is(result.{c}, {k}, TR(10, 0), TR(10, 1), TR(10, 2))" for k, c in enumerate(("ns", "ew", "vt"))]
_three = [f"comp_is(result.{c}, {k}, TR(11, 0), TR(12, 0), TR(13, 0))" for k, c in enumerate(("ns", "ew", "vt"))]
# isinstance(fnames, (str, pathlib.Path, io.BytesIO)) needs `str` as a class: a separate environment for the isinstance-only use is not possible, so the model of
# `str` is a class whose call returns an opaque string
_STRCLS = ClsV("str")
_STRCLS.ctor = lambda ex, st, a, k, n_: StrV("<str>")
for _fn, _kinds in (("_read_gcf", ("one",)), ("_read_mseed", ("one", "three"))):
    for _kind in _kinds:
        for _dg in (False, True):
            _deg = "result.degrees_from_north == " + ("degrees_from_north" if _dg else "0")
            if _kind == "one":
                ens, rai = _one + [_deg], {"ValueError": "NTR(10) != 3"}
            else:
                ens, rai = _three + [_deg], {"IndexError": "NTR(11) != 1 or NTR(12) != 1 or NTR(13) != 1"}
            _c = Contract(qual=f"hvsrpy.data_wrangler.{_fn}", params=["fnames", "obspy_read_kwargs", "degrees_from_north"], ghost=_OB_GHOST, make_inputs=_ob_inputs(_kind, _dg),
                          ensures=ens, raises=rai, modifies=[],
                          notes="the traces obspy returns, in file order, go to _arrange_traces; its (ns, ew, vt) go to the recording; orientation as given, 0 when not given")
            TASKS.append(FunctionTask(_c, module_env=dict(_OB_ENV, str=_STRCLS), label=f"hvsrpy.data_wrangler.{_fn}[{_kind} file{'s' if _kind == 'three' else ''},degrees_from_north={'given' if _dg else 'None'}]",
                                      clauses=["obspy formats: three traces required, components assigned by _arrange_traces, orientation default 0"]))

# ---------------------------------------------------------------------------------------------------------------------
# read(): each recording gets its own file name(s), reader options and orientation, in order - options / orientation given once are repeated, given per
# recording they are taken position by position; a one-element list of names is unwrapped.  read_single is opaque: RS(file, options, orientation).
from pyvc.core import SeqV
NF = z3.Int("n_recordings")
FID = z3.Function("file_entry", I, I)
KWL = z3.Function("options_of_recording", I, I)
DGL = z3.Function("orientation_of_recording", I, R)
KW1, DG1 = z3.Int("options_given_once"), z3.Real("orientation_given_once")
RSF = z3.Function("READ_SINGLE", I, I, R, I)
NONE_KW, NONE_DG = z3.IntVal(-1), z3.RealVal(-12345)       # codes of `None` in the opaque call


def _code_kw(v):
    if isinstance(v, SeqV):
        return z3.Int("a_whole_sequence_of_options_instead_of_one")
    return NONE_KW if v is NONE else lit(v)


def _code_dg(v):
    if isinstance(v, SeqV):
        return z3.Real("a_whole_sequence_of_orientations_instead_of_one")
    return NONE_DG if v is NONE else real_c07(v)


from pyvc.core import real as real_c07


def _m_read_single(ex, st, args, kw, node):
    return RSF(lit(args[0]), _code_kw(kw["obspy_read_kwargs"]), _code_dg(kw["degrees_from_north"]))


def _m_repeat(ex, st, args, kw, node):
    inf = ex.fresh("unbounded", I)
    st.pc.append(inf >= NF)
    x = args[0]
    return SeqV(inf, lambda ex_, st_, i: x, owner="fresh", name="repeat")


def _read_inputs(kwk, dgk):
    def mk(ex, st):
        st.env["fnames"] = SeqV(NF, lambda ex_, st_, i: FID(i), owner="param:fnames", name="fnames")
        st.env["obspy_read_kwargs"] = {"None": NONE, "once": KW1, "each": SeqV(NF, lambda ex_, st_, i: KWL(i), owner="param:obspy_read_kwargs", name="kw")}[kwk]
        st.env["degrees_from_north"] = {"None": NONE, "once": DG1, "each": SeqV(NF, lambda ex_, st_, i: DGL(i), owner="param:degrees_from_north", name="deg")}[dgk]
        st.env["NF"] = NF
        return [NF >= 0]
    return mk


class _KwOnce:
    pass


def _isinstance_read(ex, st, args, kw, node):
    """the options object given once is a dict (an opaque id here); everything else is decided by the generic model"""
    v, c = args
    classes = list(c) if isinstance(c, (Tup, tuple)) else [c]
    names = {x.name for x in classes}
    if z3.is_expr(lit(v)) if not isinstance(v, (SeqV, StrV, Tup, DictV)) and v is not NONE else False:
        if lit(v).eq(KW1):
            return z3.BoolVal("dict" in names)
    if v is NONE:
        return z3.BoolVal("NoneType" in names)
    return npm.BUILTINS["isinstance"].fn(ex, st, args, kw, node)


_READ_ENV = {"list": ClsV("list"), "tuple": ClsV("tuple"), "dict": ClsV("dict"), "int": ClsV("int"), "float": ClsV("float"),
             "type": FuncV(lambda ex, st, a, k, n_: ClsV("NoneType") if a[0] is NONE else (_ for _ in ()).throw(Undecided("type() of a value other than None")), "type"),
             "np": ModV("np", dict(npm.NP.attrs, integer=ClsV("np.integer"), floating=ClsV("np.floating"))),
             "itertools": ModV("itertools", {"repeat": FuncV(_m_repeat, "itertools.repeat")}), "read_single": FuncV(_m_read_single, "read_single"),
             "isinstance": FuncV(_isinstance_read, "isinstance"), "warnings": ModV("warnings", {"warn": FuncV(lambda ex, st, a, k, n_: NONE, "warnings.warn")})}
for _kwk in ("None", "once", "each"):
    for _dgk in ("None", "once", "each"):
        _kwi = {"None": "NONE_KW", "once": "KW1", "each": "KWL(i)"}[_kwk]
        _dgi = {"None": "NONE_DG", "once": "DG1", "each": "DGL(i)"}[_dgk]
        _c = Contract(qual="hvsrpy.data_wrangler.read", params=["fnames", "obspy_read_kwargs", "degrees_from_north"],
                      ghost={"RS": RSF, "FID": FID, "KWL": KWL, "DGL": DGL, "KW1": KW1, "DG1": DG1, "NONE_KW": NONE_KW, "NONE_DG": NONE_DG, "NF": NF},
                      make_inputs=_read_inputs(_kwk, _dgk), sym_lists={"seismic_recordings": "int"},
                      ensures=["len(result) == NF", f"forall(i, 0, NF, result[i] == RS(FID(i), {_kwi}, {_dgi}))"],
                      loops={0: ["len(seismic_recordings) == _k0", f"forall(i, 0, _k0, seismic_recordings[i] == RS(FID(i), {_kwi}, {_dgi}))"]}, modifies=[],
                      notes="recording i = read_single(entry i of fnames, the options of recording i, the orientation of recording i): given once they are repeated, given per "
                            "recording they are taken position by position")
        TASKS.append(FunctionTask(_c, module_env=_READ_ENV, label=f"hvsrpy.data_wrangler.read[options={_kwk},orientation={_dgk}]",
                                  clauses=["read() hands each recording its own orientation and reader options, in order"]))

# ---------------------------------------------------------------------------------------------------------------------
# _read_sac: three files, each tried as little endian first and as big endian when that fails.  obspy is opaque and may fail: CAN_READ(file, byte order) says
# whether it reads the file in that order, TRACE_OF(file, byte order) is the first trace it then returns.  Proved: a file readable in either order is read in the
# first order that works (little before big), the three first traces go to _arrange_traces in the order of the file names, its (ns, ew, vt) to the recording;
# the function raises exactly when some file can be read in neither order (then nothing is returned); something that is not a list or tuple is refused.
from pyvc.core import PyRaise, PyRaiseIf
CAN_READ = z3.Function("obspy_can_read", I, I, z3.BoolSort())       # (file id, byte order: 0 little / 1 big)
TRACE_OF = z3.Function("first_trace", I, I, I)                       # (file id, byte order) -> id of the first trace returned
_ORDER = {"little": 0, "big": 1}


def _m_obspy_read_sac(ex, st, args, kw, node):
    f = _fid(args[0])
    bo = kw.get("byteorder")
    if type(bo) is not StrV or bo.s not in _ORDER or type(kw.get("format")) is not StrV or kw["format"].s != "SAC":
        raise Undecided("obspy is not asked for SAC in a definite byte order")
    o = z3.IntVal(_ORDER[bo.s])
    ok = CAN_READ(f, o)
    if any(z3.eq(p_, z3.Not(ok)) for p_ in st.pc):
        raise PyRaise("Exception", "obspy cannot read this file in this byte order")
    if not any(z3.eq(p_, ok) for p_ in st.pc):
        raise PyRaiseIf(z3.Not(ok), "Exception")
    t = z3.Int("t!tr")
    n = ex.fresh("n_traces", I)
    st.pc.append(n >= 1)          # a SAC file holds one trace (A-OBSPY)
    return new_symlist(ex, st, "Trace", length=n, arr=z3.Lambda([t], z3.If(t == 0, TRACE_OF(f, o), z3.IntVal(-7))), owner="fresh", name="stream")


def _sac_inputs(deg_given, as_list=True):
    def mk(ex, st):
        st.env["fnames"] = ex.alloc_list(st, [StrV("<a>"), StrV("<b>"), StrV("<c>")]) if as_list else StrV("<fname>")
        st.env["obspy_read_kwargs"] = NONE
        st.env["degrees_from_north"] = DEG_IN if deg_given else NONE
        return []
    return mk


def _first(f):
    return f"ite(CAN(1{f}, 0), TRC(1{f}, 0), TRC(1{f}, 1))"


_readable = " and ".join(f"(CAN(1{f}, 0) or CAN(1{f}, 1))" for f in (1, 2, 3))
_SAC_GHOST = {"comp_is": FuncV(_comp_is, "comp_is"), "CAN": CAN_READ, "TRC": TRACE_OF}
_SAC_ENV = dict(_OB_ENV, str=_STRCLS, _quiet_obspy_read=FuncV(_m_obspy_read_sac, "_quiet_obspy_read"))
_SAC_ENV["io"] = ModV("io", {"StringIO": ClsV("StringIO"), "BytesIO": ClsV("BytesIO")})
for _dg in (False, True):
    _c = Contract(qual="hvsrpy.data_wrangler._read_sac", params=["fnames", "obspy_read_kwargs", "degrees_from_north"], ghost=_SAC_GHOST, make_inputs=_sac_inputs(_dg),
                  ensures=[f"comp_is(result.{c}, {k}, {_first(1)}, {_first(2)}, {_first(3)})" for k, c in enumerate(("ns", "ew", "vt"))]
                  + ["result.degrees_from_north == " + ("degrees_from_north" if _dg else "0"), _readable],
                  raises_only_if={"UnboundLocalError": f"not ({_readable})"}, modifies=[],
                  notes="each file in the first byte order obspy can read it in (little, then big); the three first traces in file-name order go to _arrange_traces and its "
                        "(ns, ew, vt) to the recording; no recording when some file is readable in neither order (the exception raised then is an UnboundLocalError, "
                        "because Python unbinds `e` at the end of the handler - the original error is only logged)")
    _c.conditional_raises = True
    TASKS.append(FunctionTask(_c, module_env=_SAC_ENV, label=f"hvsrpy.data_wrangler._read_sac[three files,degrees_from_north={'given' if _dg else 'None'}]",
                              clauses=["SAC of either byte order: little endian first, then big; components by _arrange_traces; orientation default 0"]))
_c = Contract(qual="hvsrpy.data_wrangler._read_sac", params=["fnames", "obspy_read_kwargs", "degrees_from_north"], make_inputs=_sac_inputs(False, as_list=False),
              raises={"ValueError": "True"}, ensures=[], modifies=[])
TASKS.append(FunctionTask(_c, module_env=_SAC_ENV, label="hvsrpy.data_wrangler._read_sac[one name]", clauses=["SAC needs three files: a single name is refused"]))

# ---------------------------------------------------------------------------------------------------------------------
# read_single: the readers of READ_FUNCTION_DICT are tried in table order with the caller's three arguments; the first that does not raise gives the recording;
# when the last one (peer) raises too, its error leaves the function.  The readers are opaque here: ACCEPTS(k, ...) says whether reader k returns for these
# arguments, PARSED(k, ...) is what it returns.  (Which reader accepts which file is a matter of the formats: evaluated natively.)
_READERS = ("mseed", "saf", "minishark", "sac", "gcf", "peer")
ACCEPTS = z3.Function("reader_accepts", I, I, I, R, z3.BoolSort())       # (reader, file entry, options, orientation)
PARSED = z3.Function("reader_result", I, I, I, R, I)
_RS_F, _RS_KW, _RS_DG = z3.Int("file_entry_of_the_recording"), z3.Int("options_of_the_recording"), z3.Real("orientation_of_the_recording")


def _m_reader(k):
    def f(ex, st, args, kw, node):
        if len(args) != 1 or set(kw) != {"obspy_read_kwargs", "degrees_from_north"}:
            raise Undecided("a reader is called in another way than reader(fnames, obspy_read_kwargs=..., degrees_from_north=...)")
        a = (z3.IntVal(k), lit(args[0]), _code_kw(kw["obspy_read_kwargs"]), _code_dg(kw["degrees_from_north"]))
        ok = ACCEPTS(*a)
        if any(z3.eq(p_, z3.Not(ok)) for p_ in st.pc):
            raise PyRaise("Exception", f"reader {_READERS[k]} refuses the file")
        if not any(z3.eq(p_, ok) for p_ in st.pc):
            raise PyRaiseIf(z3.Not(ok), "Exception")
        return PARSED(*a)
    return FuncV(f, "_read_" + _READERS[k])


def _rs_inputs(kw_given, dg_given):
    def mk(ex, st):
        st.env["fnames"], st.env["obspy_read_kwargs"], st.env["degrees_from_north"] = _RS_F, (_RS_KW if kw_given else NONE), (_RS_DG if dg_given else NONE)
        return []
    return mk


def _in_table_order(ex, st, a, k, n_):
    """the readers consulted on this path (their accept / refuse facts, in the order they were learnt) are readers 0, 1, 2, ... without a gap or a repeat"""
    t = []
    for p_ in st.pc:
        q = p_.arg(0) if z3.is_not(p_) else p_
        if z3.is_app(q) and q.decl().eq(ACCEPTS):
            t.append(z3.simplify(q.arg(0)).as_long())
    return z3.BoolVal(t == list(range(len(t))) and len(t) >= 1)


for _kwg in (False, True):
    for _dgg in (False, True):
        _a = f"F, {'KW' if _kwg else 'NONE_KW'}, {'DG' if _dgg else 'NONE_DG'}"
        _res = f"RES(5, {_a})"
        for _k in (4, 3, 2, 1, 0):
            _res = f"ite(ACC({_k}, {_a}), RES({_k}, {_a}), {_res})"
        _any = " or ".join(f"ACC({_k}, {_a})" for _k in range(6))
        _c = Contract(qual="hvsrpy.data_wrangler.read_single", params=["fnames", "obspy_read_kwargs", "degrees_from_north"],
                      ghost={"ACC": ACCEPTS, "RES": PARSED, "F": _RS_F, "KW": _RS_KW, "DG": _RS_DG, "NONE_KW": NONE_KW, "NONE_DG": NONE_DG,
                             "in_table_order": FuncV(_in_table_order, "in_table_order")},
                      make_inputs=_rs_inputs(_kwg, _dgg), ensures=[f"result == {_res}", _any, "in_table_order()"],
                      raises_only_if={"Exception": f"not ({_any})"}, modifies=[],
                      notes="the recording is what the first reader (table order: mseed, saf, minishark, sac, gcf, peer) that accepts the caller's file entry, options and "
                            "orientation returns for exactly those; an exception leaves the function only when no reader accepts")
        _c.conditional_raises = True
        TASKS.append(FunctionTask(_c, module_env={"READ_FUNCTION_DICT": DictV({n_: _m_reader(k_) for k_, n_ in enumerate(_READERS)})},
                                  label=f"hvsrpy.data_wrangler.read_single[options={'given' if _kwg else 'None'},orientation={'given' if _dgg else 'None'}]",
                                  clauses=["read_single: the first reader in table order that accepts the file, with the caller's options and orientation"]))

# ---------------------------------------------------------------------------------------------------------------------
# TimeSeries.from_trace: the samples of the obspy trace (trace.data) and its sampling interval (trace.stats.delta), through the constructor (C18: a fresh copy).
import contracts.C18 as _C18c
from pyvc.contract import sym_arr1 as _sym_arr1
_NTRC, _DELTA = z3.Int("n_trace_samples"), z3.Real("trace_delta")


def _ftr_inputs(ex, st):
    data = _sym_arr1(ex, st, "trace_data", _NTRC, owner="param:trace.data")
    stats = sym_obj(ex, st, "Stats", {"delta": _DELTA, "sampling_rate": z3.Real("trace_sampling_rate"), "npts": z3.Int("trace_npts")}, owner="param:trace.stats")
    st.env["trace"] = sym_obj(ex, st, "Trace", {"data": data, "stats": stats, "meta": stats}, owner="param:trace")
    st.env["cls"] = _C18c.CLS
    st.env["NTRC"], st.env["DELTA"] = _NTRC, _DELTA
    # obspy's Stats keeps delta = 1 / sampling_rate and npts = len(data) (A-OBSPY): either spelling of the interval is the same number
    return [_NTRC >= 0, z3.Real("trace_sampling_rate") > 0, _DELTA * z3.Real("trace_sampling_rate") == 1, z3.Int("trace_npts") == _NTRC]


FROM_TRACE = Contract(qual="hvsrpy.timeseries.TimeSeries.from_trace", params=["cls", "trace"], make_inputs=_ftr_inputs, modifies=[],
                      ensures=["len(result.amplitude) == NTRC", "forall(i, 0, NTRC, result.amplitude[i] == trace.data[i])", "not (result.amplitude is trace.data)",
                               "result.dt_in_seconds == DELTA"],
                      notes="exactly the trace's samples, in order, in storage of the time series' own, with the trace's sampling interval")
TASKS.append(FunctionTask(FROM_TRACE, label="hvsrpy.timeseries.TimeSeries.from_trace", clauses=["obspy formats: a component holds exactly the samples of its trace with the trace's time step"]))

# ---------------------------------------------------------------------------------------------------------------------
# _read_peer: three files, one component each.  Per file (outer loop unrolled, the sample loop by invariant): the direction key, NPTS and DT of the header, and
# the samples in file order; the count must match NPTS.  Then the components are arranged by their keys - decided here case by case for concrete keys, the
# expected arrangement written down independently below (PEER convention: UP / VER is the vertical, the horizontal whose azimuth is closest to north modulo 360
# is the north component and its azimuth the orientation; or letter codes ending in Z / N / E).  All three are cut to the shortest component.
PFIELD = z3.Function("peer_header_text", I, I, I)       # (file, field: 1 NPTS, 2 DT) -> identity of the matched text
PROW = z3.Function("peer_sample_text", I, I, I)          # (file, k) -> identity of the k-th sample's text
PNROWS = z3.Function("peer_n_samples_found", I, I)


class _PeerText(StrV):
    def __init__(self, fid):
        super().__init__("<text of the file>")
        self.fid = fid


class _FloatStr(OStr):
    def as_float(self):
        return PARSE_FLOAT(self.sym_id)


def _m_open_peer(ex, st, args, kw, node):
    f = _fid(args[0])
    return ModV("file", {"read": FuncV(lambda e2, s2, a2, k2, n2, _f=f: _PeerText(_f), "read")})


def _peer_pattern(field, keys=None):
    def search(ex, st, args, kw, node):
        t = args[0]
        if not isinstance(t, _PeerText):
            raise Undecided("a PEER pattern is applied to something other than the text of a file")
        if keys is not None:
            val = StrV(keys[z3.simplify(t.fid).as_long() - 11])       # the direction key of this file: concrete in each configuration
        else:
            val = OStr(PFIELD(t.fid, z3.IntVal(field)))
        return ModV("match", {"groups": FuncV(lambda e2, s2, a2, k2, n2, _v=val: Tup((_v,)), "groups")})
    return ModV(f"peer{field}", {"search": FuncV(search, "search")})


def _peer_rows():
    def finditer(ex, st, args, kw, node):
        from pyvc.core import SeqV
        t = args[0]
        if not isinstance(t, _PeerText):
            raise Undecided("the PEER sample pattern is applied to something other than the text of a file")
        st.pc.append(PNROWS(t.fid) >= 0)
        return SeqV(PNROWS(t.fid), lambda ex_, st_, i, _f=t.fid: ModV("row", {"groups": FuncV(lambda e2, s2, a2, k2, n2, _i=i: Tup((_FloatStr(PROW(_f, _i)),)), "groups")}),
                    owner="fresh", name="rows")
    return ModV("peer_rows", {"finditer": FuncV(finditer, "finditer")})


def _m_np_array_peer(ex, st, args, kw, node):
    """np.array(list of numeric key strings, dtype=int): the integers they spell (concrete keys)"""
    v = args[0]
    if isinstance(v, LRef := type(st.env.get("fnames"))) and all(type(x) is StrV for x in st.heap[v.sid].items):
        items = st.heap[v.sid].items
        try:
            vals = [int(x.s) for x in items]
        except ValueError:
            raise PyRaise("ValueError", "a direction key that is not a number is converted to int")
        arr = z3.K(I, z3.IntVal(0))
        for j, val in enumerate(vals):
            arr = z3.Store(arr, j, z3.IntVal(val))
        return ex.alloc_arr(st, (z3.IntVal(len(vals)),), arr, "int", "fresh", tag="keys")
    return npm.NP.attrs["array"].fn(ex, st, args, kw, node)


def _m_argmin_concrete(ex, st, args, kw, node):
    d = ex.arr(st, args[0])
    n = z3.simplify(d.shape[0])
    if not z3.is_int_value(n):
        raise Undecided("argmin of an array of symbolic length")
    vals = [z3.simplify(ex.sel1(d, z3.IntVal(j))) for j in range(n.as_long())]
    if not all(z3.is_int_value(x) or z3.is_rational_value(x) for x in vals):
        raise Undecided("argmin of values that are not concrete")
    nums = [x.as_long() if z3.is_int_value(x) else x.as_fraction() for x in vals]
    return z3.IntVal(nums.index(min(nums)))


def _m_ts_peer(ex, st, args, kw, node):
    d = ex.arr(st, args[0])
    return ex.alloc_obj(st, "TimeSeries", {"amplitude": ex.alloc_arr(st, d.shape, d.data, "real", "fresh", tag="samples"), "dt_in_seconds": kw["dt_in_seconds"]}, "fresh")


def _peer_inputs(deg_given):
    def mk(ex, st):
        st.env["fnames"] = ex.alloc_list(st, [StrV("<a>"), StrV("<b>"), StrV("<c>")])
        st.env["obspy_read_kwargs"] = NONE
        st.env["degrees_from_north"] = DEG_IN if deg_given else NONE
        return []
    return mk


def _peer_expect(keys):
    """the documented arrangement for three direction keys, written independently of the code: (ns file, ew file, vt file, orientation) or None when refused"""
    up = [k for k in keys if k in ("UP", "VER")]
    if up:
        vt = keys.index("UP") if "UP" in keys else keys.index("VER")
        hz = [j for j in range(3) if j != vt]
        if not all(keys[j].isdigit() for j in hz):
            return None
        az = {j: int(keys[j]) for j in hz}
        rel = {j: (a - 360 if a > 180 else a) for j, a in az.items()}
        ns = min(hz, key=lambda j: (abs(rel[j]), hz.index(j)))
        ew = [j for j in hz if j != ns][0]
        return ns, ew, vt, az[ns] % 360
    z = [j for j in range(3) if keys[j][-1].lower() == "z"]
    if not z:
        return None
    vt = z[0]
    hz = [j for j in range(3) if j != vt]
    n_ = [j for j in hz if keys[j][-1] == "N"]
    e_ = [j for j in hz if keys[j][-1] == "E"]
    if len(n_) != 1 or len(e_) != 1:
        return None
    return n_[0], e_[0], vt, 0


_PEER_CASES = [("UP", "000", "090"), ("090", "UP", "360"), ("VER", "270", "180"), ("45", "135", "UP"), ("350", "80", "UP"), ("HNZ", "HNN", "HNE"), ("HNE", "HNZ", "HNN"),
               ("BHN", "BHE", "BHZ"), ("HNX", "HNN", "HNE"), ("HNZ", "HN1", "HNE")]
_PG = {"PF": lambda f, k: PARSE_FLOAT(PROW(f, k)), "NPTS": lambda f: PARSE_INT(PFIELD(f, 1)), "DT": lambda f: PARSE_FLOAT(PFIELD(f, 2)), "FOUND": PNROWS,
       "CUR": FuncV(lambda ex, st, a, k, n_: st.env["text"].fid, "CUR"), "SHORTEST": None}
for _keys in _PEER_CASES:
    _exp = _peer_expect(list(_keys))
    for _dg in (False, True):
        _env = dict(_RD_BASE, open=FuncV(_m_open_peer, "open"), peer_direction_exec=_peer_pattern(0, _keys), peer_npts_exec=_peer_pattern(1), peer_dt_exec=_peer_pattern(2),
                    peer_sample_exec=_peer_rows(), TimeSeries=FuncV(_m_ts_peer, "TimeSeries"),
                    np=ModV("np", dict(npm.NP.attrs, array=FuncV(_m_np_array_peer, "np.array"), argmin=FuncV(_m_argmin_concrete, "np.argmin"))))
        _req = ["NPTS(11) >= 0 and NPTS(12) >= 0 and NPTS(13) >= 0", "FOUND(11) <= NPTS(11) and FOUND(12) <= NPTS(12) and FOUND(13) <= NPTS(13)"]
        _bad_count = "NPTS(11) != FOUND(11) or NPTS(12) != FOUND(12) or NPTS(13) != FOUND(13)"
        _bad_dt = "DT(12) != DT(11) or DT(13) != DT(11)"
        _short = "min(FOUND(11), min(FOUND(12), FOUND(13)))"
        if _exp is None:
            _c = Contract(qual="hvsrpy.data_wrangler._read_peer", params=["fnames", "obspy_read_kwargs", "degrees_from_north"], ghost=_PG, make_inputs=_peer_inputs(_dg), requires=_req,
                          raises={"ValueError": "True"}, ensures=[], loops={1: ["idx == _k1", "forall(i, 0, _k1, amplitude[i] == PF(CUR(), i))"]}, stable_shapes=("amplitude",), modifies=[],
                          notes="direction keys that name no vertical, or not one north and one east horizontal, are refused")
        else:
            _ns, _ew, _vt, _rot = _exp
            _comp = lambda comp, f: (f"len(result.{comp}.amplitude) == {_short} and forall(i, 0, {_short}, result.{comp}.amplitude[i] == PF(1{f + 1}, i)) and "
                                     f"result.{comp}.dt_in_seconds == DT(1{f + 1})")
            _c = Contract(qual="hvsrpy.data_wrangler._read_peer", params=["fnames", "obspy_read_kwargs", "degrees_from_north"], ghost=_PG, make_inputs=_peer_inputs(_dg), requires=_req,
                          raises={"ValueError": f"{_bad_count} or {_bad_dt}"},
                          ensures=[_comp("ns", _ns), _comp("ew", _ew), _comp("vt", _vt), "result.degrees_from_north == " + ("degrees_from_north" if _dg else str(_rot))],
                          loops={1: ["idx == _k1", "forall(i, 0, _k1, amplitude[i] == PF(CUR(), i))"]}, stable_shapes=("amplitude",), modifies=[],
                          notes="PEER: the vertical is the UP / VER (or ..Z) file, north the horizontal closest to north modulo 360 (or ..N), east the other; the samples of each "
                                "file in file order, cut to the shortest component; the files' common DT; orientation = the north component's azimuth unless one is given")
        TASKS.append(FunctionTask(_c, module_env=_env, label=f"hvsrpy.data_wrangler._read_peer[keys={','.join(_keys)};degrees_from_north={'given' if _dg else 'None'}]",
                                  clauses=["PEER: direction keys -> components, samples in file order, count and time-step checks, orientation from the north azimuth"]))

META = dict(
    level="other",
    explanation="proved: _check_npts raises iff the counts differ; _arrange_traces for three traces and all 64 combinations of channel-code endings "
                "(E / N / Z / other): (ns, ew, vt) are the traces ending in N, E, Z in whatever order they come, every other combination raises ValueError; structural: read() broadcasts each argument by its own type and zips in order, the reader "
                "registry; bounded: SAF / MiniShark / PEER files written from a grammar (channel and file orders, NORTH_ROT / azimuth codes / explicit "
                "orientation incl. 0, gain and conversion, both line endings, count mismatches), miniSEED (1 and 3 files) and SAC (both byte orders) "
                "written with obspy in all 6 orders, the GCF example, an unrecognised file, read() argument broadcasting",
    trusted_base=["re (patterns not analysed deductively)", "obspy readers/writers", "single-precision rounding of the text formats"],
    assumptions=["A-RE", "A-OBSPY", "A-F32"],
)
