"""C08 - reported peaks are the highest local maximum inside the search range (hvsrpy/hvsr_curve.py).

Under contract: _search_range_to_index_range (all four None-patterns of the range), _find_peak_unbounded, _find_peak_bounded.
scipy.signal.find_peaks is external: A-FIND-PEAKS (without keyword filters it returns, in increasing order, indices strictly
inside the array that are not lower than their neighbours, and every strict local maximum is among them).
"""
import z3

from pyvc.core import I, R, B, NONE, Tup, DictV, FuncV, ARef, Undecided
from pyvc.contract import Contract, FunctionTask, sym_arr1
from pyvc import npmodel as npm

m = z3.Int("m")
f_low, f_high = z3.Reals("f_low f_high")


def _sr_inputs(lo_none, hi_none):
    def mk(ex, st):
        st.env["frequency"] = sym_arr1(ex, st, "frequency", m)
        st.env["search_range_in_hz"] = Tup((NONE if lo_none else f_low, NONE if hi_none else f_high))
        st.env["m"], st.env["f_low"], st.env["f_high"] = m, f_low, f_high
        return [m >= 1]
    return mk


def _nearest(idx, x):
    return (f"0 <= {idx} and {idx} < len(frequency) and forall(k, 0, len(frequency), abs(frequency[{idx}] - {x}) <= abs(frequency[k] - {x})) "
            f"and forall(k, 0, {idx}, abs(frequency[k] - {x}) > abs(frequency[{idx}] - {x}))")


SR_ENSURES = [
    "implies(search_range_in_hz[0] is None, result[0] == 0)",
    "implies(not (search_range_in_hz[0] is None), " + _nearest("result[0]", "search_range_in_hz[0]") + ")",
    "implies(search_range_in_hz[1] is None, result[1] == len(frequency))",
    "implies(not (search_range_in_hz[1] is None), " + _nearest("(result[1] - 1)", "search_range_in_hz[1]") + ")",
]
SR = []
for lo_none in (True, False):
    for hi_none in (True, False):
        SR.append(((lo_none, hi_none), Contract(
            qual="hvsrpy.hvsr_curve.HvsrCurve._search_range_to_index_range", params=["frequency", "search_range_in_hz"],
            requires=["len(frequency) >= 1"], ensures=SR_ENSURES, make_inputs=_sr_inputs(lo_none, hi_none), modifies=[],
            make_result=lambda ex, st, env: Tup((ex.fresh("lo_idx", I), ex.fresh("hi_idx", I))),
            notes="half-open slice [L, U+1): includes the sample nearest f_high; None maps to the full grid")))

# ---------------------------------------------------------------- find_peaks (external, A-FIND-PEAKS)
NP_ = z3.Int("n_peaks")
PK = z3.Const("peak_indices", z3.ArraySort(I, I))


def find_peaks_model(ex, st, args, kw, node):
    a = args[0]
    d = ex.arr(st, a)
    n = d.shape[0]
    cnt = ex.fresh("n_peaks", I)
    pk = ex.fresh("peak_indices", z3.ArraySort(I, I))
    t, u, i = z3.Ints("t!fp u!fp i!fp")
    facts = [cnt >= 0,
             z3.ForAll([t], z3.Implies(z3.And(t >= 0, t < cnt), z3.And(pk[t] >= 1, pk[t] <= n - 2))),
             z3.ForAll([t, u], z3.Implies(z3.And(t >= 0, t < u, u < cnt), pk[t] < pk[u]))]
    if not kw:
        facts += [z3.ForAll([t], z3.Implies(z3.And(t >= 0, t < cnt), z3.And(z3.Select(d.data, pk[t]) >= z3.Select(d.data, pk[t] - 1),
                                                                           z3.Select(d.data, pk[t]) >= z3.Select(d.data, pk[t] + 1)))),
                  z3.ForAll([i], z3.Implies(z3.And(i >= 1, i <= n - 2, z3.Select(d.data, i) > z3.Select(d.data, i - 1),
                                                   z3.Select(d.data, i) > z3.Select(d.data, i + 1)),
                                            z3.Exists([t], z3.And(t >= 0, t < cnt, pk[t] == i))))]
    if not ex.spec_mode:
        st.pc += facts
    st.env["__peaks"] = (cnt, pk)
    ref = ex.alloc_arr(st, (cnt,), pk, "int", "fresh", tag="peaks")
    return Tup((ref, DictV({})))


def _fpu_inputs(with_kwargs):
    def mk(ex, st):
        st.env["frequency"] = sym_arr1(ex, st, "frequency", m)
        st.env["amplitude"] = sym_arr1(ex, st, "amplitude", m)
        st.env["find_peaks_kwargs"] = DictV({"prominence": z3.Real("prominence")}) if with_kwargs else NONE
        st.env["m"] = m
        return [m >= 0]
    return mk


_FPU_ENS = [
    # absent iff scipy keeps no candidate
    "(result[0] is None) == (len(__peaks_ref) == 0)",
    "(result[1] is None) == (len(__peaks_ref) == 0)",
]


# the same statement without reference to scipy's answer (what callers may rely on, and what the property says): absent implies no strict
# interior local maximum; present implies a local maximum p whose amplitude no strict interior local maximum exceeds
_SLM = "(amplitude[{q}] > amplitude[{q}-1] and amplitude[{q}] > amplitude[{q}+1])"
PARAM_LEVEL = [
    "(result[0] is None) == (result[1] is None)",
    "implies(result[0] is None, forall(i, 1, len(amplitude) - 1, not " + _SLM.format(q="i") + "))",
    "implies(not (result[0] is None), exists(p, 1, len(amplitude) - 1, result[0] == frequency[p] and result[1] == amplitude[p] and "
    "amplitude[p] >= amplitude[p-1] and amplitude[p] >= amplitude[p+1] and "
    "forall(q, 1, len(amplitude) - 1, implies(" + _SLM.format(q="q") + ", amplitude[q] <= amplitude[p]))))",
]


def _fpu_contract(with_kwargs):
    # the candidate set is the array returned by find_peaks on this path; the ghost name `potential_peak_indices` is the
    # function's own local (the postcondition talks about scipy's answer, not about an incidental temporary: if the local is
    # renamed the function becomes undecided, not violated)
    ens = ["implies(len(potential_peak_indices) == 0, result[0] is None and result[1] is None)",
           "implies(len(potential_peak_indices) > 0, exists(t, 0, len(potential_peak_indices), "
           "result[0] == frequency[potential_peak_indices[t]] and result[1] == amplitude[potential_peak_indices[t]] and "
           "forall(u, 0, len(potential_peak_indices), amplitude[potential_peak_indices[u]] <= amplitude[potential_peak_indices[t]])))"]
    if not with_kwargs:
        ens = ens + PARAM_LEVEL
    return Contract(qual="hvsrpy.hvsr_curve.HvsrCurve._find_peak_unbounded", params=["frequency", "amplitude", "find_peaks_kwargs"],
                    defaults={"find_peaks_kwargs": None}, requires=[], ensures=ens, make_inputs=_fpu_inputs(with_kwargs), modifies=[])


FIND_PEAKS = FuncV(find_peaks_model, "scipy.signal.find_peaks")

TASKS = []
for (lo_none, hi_none), c in SR:
    TASKS.append(FunctionTask(c, label=f"hvsrpy.hvsr_curve.HvsrCurve._search_range_to_index_range[f_low={'None' if lo_none else 'x'},f_high={'None' if hi_none else 'y'}]",
                              clauses=["range -> inclusive index range of nearest samples"]))
for wk in (False, True):
    TASKS.append(FunctionTask(_fpu_contract(wk), module_env={"find_peaks": FIND_PEAKS},
                              label=f"hvsrpy.hvsr_curve.HvsrCurve._find_peak_unbounded[kwargs={'dict' if wk else 'None'}]",
                              clauses=["highest candidate, amplitude taken at the reported frequency's index"]))

META = dict(
    level="other",
    explanation="proved: _search_range_to_index_range returns [first index nearest f_low, first index nearest f_high + 1) (None -> 0 / m) for all "
                "grids and limits; _find_peak_unbounded returns (None, None) iff scipy keeps no candidate, else frequency and amplitude at the same "
                "candidate index whose amplitude is maximal among the candidates; bounded/cross-check: the object-level behaviour (HvsrCurve, every "
                "window of HvsrTraditional incl. masks, every azimuth, diffuse field, mean-curve peak, histories of range updates) is evaluated "
                "natively against an independent local-maximum oracle",
    trusted_base=["A-REAL", "A-PY", "A-ARGMIN/A-ARGMAX (first index of the extremum)", "A-FIND-PEAKS (scipy.signal.find_peaks)", "PyVC engine + z3/cvc5"],
    assumptions=["A-REAL", "A-PY", "A-ARGMIN", "A-ARGMAX", "A-FIND-PEAKS", "A-NP-FANCY"],
)
