"""C08 - reported peaks are the highest local maximum inside the search range (hvsrpy/hvsr_curve.py).

Under contract: _search_range_to_index_range (all four None-patterns of the range), _find_peak_unbounded, _find_peak_bounded.
scipy.signal.find_peaks is external: A-FIND-PEAKS (without keyword filters it returns, in increasing order, indices strictly
inside the array that are not lower than their neighbours, and every strict local maximum is among them).
"""
import z3

from pyvc.core import I, R, B, NONE, Tup, DictV, FuncV, ARef, Undecided, OptV, ModV
from pyvc.contract import Contract, FunctionTask, sym_arr1, sym_obj
from pyvc.core import A2, ArrData
from pyvc import npmodel as npm

m = z3.Int("m")
f_low, f_high = z3.Reals("f_low f_high")


def _sr_inputs(lo_none, hi_none):
    def mk(ex, st):
        st.env["frequency"] = sym_arr1(ex, st, "frequency", m)
        st.env["search_range_in_hz"] = Tup((NONE if lo_none else f_low, NONE if hi_none else f_high))
        st.env["m"], st.env["f_low"], st.env["f_high"] = m, f_low, f_high
        return [m >= 1]
    return mk


def _nearest(idx, x):
    return (f"0 <= {idx} and {idx} < len(frequency) and forall(k, 0, len(frequency), abs(frequency[{idx}] - {x}) <= abs(frequency[k] - {x})) "
            f"and forall(k, 0, {idx}, abs(frequency[k] - {x}) > abs(frequency[{idx}] - {x}))")


SR_ENSURES = [
    "implies(search_range_in_hz[0] is None, result[0] == 0)",
    "implies(not (search_range_in_hz[0] is None), " + _nearest("result[0]", "search_range_in_hz[0]") + ")",
    "implies(search_range_in_hz[1] is None, result[1] == len(frequency))",
    "implies(not (search_range_in_hz[1] is None), " + _nearest("(result[1] - 1)", "search_range_in_hz[1]") + ")",
]
SR = []
for lo_none in (True, False):
    for hi_none in (True, False):
        SR.append(((lo_none, hi_none), Contract(
            qual="hvsrpy.hvsr_curve.HvsrCurve._search_range_to_index_range", params=["frequency", "search_range_in_hz"],
            requires=["len(frequency) >= 1"], ensures=SR_ENSURES, make_inputs=_sr_inputs(lo_none, hi_none), modifies=[],
            make_result=lambda ex, st, env: Tup((ex.fresh("lo_idx", I), ex.fresh("hi_idx", I))),
            notes="half-open slice [L, U+1): includes the sample nearest f_high; None maps to the full grid")))

# ---------------------------------------------------------------- find_peaks (external, A-FIND-PEAKS)
NP_ = z3.Int("n_peaks")
PK = z3.Const("peak_indices", z3.ArraySort(I, I))


def find_peaks_model(ex, st, args, kw, node):
    a = args[0]
    d = ex.arr(st, a)
    n = d.shape[0]
    cnt = ex.fresh("n_peaks", I)
    pk = ex.fresh("peak_indices", z3.ArraySort(I, I))
    t, u, i = z3.Ints("t!fp u!fp i!fp")
    facts = [cnt >= 0,
             z3.ForAll([t], z3.Implies(z3.And(t >= 0, t < cnt), z3.And(pk[t] >= 1, pk[t] <= n - 2))),
             z3.ForAll([t, u], z3.Implies(z3.And(t >= 0, t < u, u < cnt), pk[t] < pk[u]))]
    if not kw:
        facts += [z3.ForAll([t], z3.Implies(z3.And(t >= 0, t < cnt), z3.And(z3.Select(d.data, pk[t]) >= z3.Select(d.data, pk[t] - 1),
                                                                           z3.Select(d.data, pk[t]) >= z3.Select(d.data, pk[t] + 1)))),
                  z3.ForAll([i], z3.Implies(z3.And(i >= 1, i <= n - 2, z3.Select(d.data, i) > z3.Select(d.data, i - 1),
                                                   z3.Select(d.data, i) > z3.Select(d.data, i + 1)),
                                            z3.Exists([t], z3.And(t >= 0, t < cnt, pk[t] == i))))]
    if not ex.spec_mode:
        st.pc += facts
    st.env["__peaks"] = (cnt, pk)
    ref = ex.alloc_arr(st, (cnt,), pk, "int", "fresh", tag="peaks")
    return Tup((ref, DictV({})))


def _kwargs_value(kind):
    return {"None": NONE, "empty": DictV({}), "dict": DictV({"prominence": z3.Real("prominence")})}[kind]


def _fpu_inputs(with_kwargs):
    def mk(ex, st):
        st.env["frequency"] = sym_arr1(ex, st, "frequency", m)
        st.env["amplitude"] = sym_arr1(ex, st, "amplitude", m)
        st.env["find_peaks_kwargs"] = _kwargs_value(with_kwargs)
        st.env["m"] = m
        return [m >= 0]
    return mk


_FPU_ENS = [
    # absent iff scipy keeps no candidate
    "(result[0] is None) == (len(__peaks_ref) == 0)",
    "(result[1] is None) == (len(__peaks_ref) == 0)",
]


# the same statement without reference to scipy's answer (what callers may rely on, and what the property says): absent implies no strict
# interior local maximum; present implies a local maximum p whose amplitude no strict interior local maximum exceeds
_SLM = "(amplitude[{q}] > amplitude[{q}-1] and amplitude[{q}] > amplitude[{q}+1])"
PARAM_LEVEL = [
    "(result[0] is None) == (result[1] is None)",
    "implies(result[0] is None, forall(i, 1, len(amplitude) - 1, not " + _SLM.format(q="i") + "))",
    "implies(not (result[0] is None), exists(p, 1, len(amplitude) - 1, result[0] == frequency[p] and result[1] == amplitude[p] and "
    "amplitude[p] >= amplitude[p-1] and amplitude[p] >= amplitude[p+1] and "
    "forall(q, 1, len(amplitude) - 1, implies(" + _SLM.format(q="q") + ", amplitude[q] <= amplitude[p]))))",
]


# what holds whatever filters scipy is given: both absent or both present, and then frequency and amplitude of one interior sample
PARAM_WEAK = [
    "(result[0] is None) == (result[1] is None)",
    "implies(not (result[0] is None), exists(p, 1, len(amplitude) - 1, result[0] == frequency[p] and result[1] == amplitude[p]))",
]


def _fpu_contract(with_kwargs):
    # the candidate set is the array returned by find_peaks on this path; the ghost name `potential_peak_indices` is the
    # function's own local (the postcondition talks about scipy's answer, not about an incidental temporary: if the local is
    # renamed the function becomes undecided, not violated)
    ens = ["implies(len(potential_peak_indices) == 0, result[0] is None and result[1] is None)",
           "implies(len(potential_peak_indices) > 0, exists(t, 0, len(potential_peak_indices), "
           "result[0] == frequency[potential_peak_indices[t]] and result[1] == amplitude[potential_peak_indices[t]] and "
           "forall(u, 0, len(potential_peak_indices), amplitude[potential_peak_indices[u]] <= amplitude[potential_peak_indices[t]])))"]
    ens = ens + PARAM_WEAK
    if with_kwargs != "dict":
        ens = ens + PARAM_LEVEL
    return Contract(qual="hvsrpy.hvsr_curve.HvsrCurve._find_peak_unbounded", params=["frequency", "amplitude", "find_peaks_kwargs"],
                    defaults={"find_peaks_kwargs": None}, requires=[], ensures=ens, make_inputs=_fpu_inputs(with_kwargs), modifies=[])


FIND_PEAKS = FuncV(find_peaks_model, "scipy.signal.find_peaks")

TASKS = []
for (lo_none, hi_none), c in SR:
    TASKS.append(FunctionTask(c, label=f"hvsrpy.hvsr_curve.HvsrCurve._search_range_to_index_range[f_low={'None' if lo_none else 'x'},f_high={'None' if hi_none else 'y'}]",
                              clauses=["range -> inclusive index range of nearest samples"]))
for wk in ("None", "empty", "dict"):
    TASKS.append(FunctionTask(_fpu_contract(wk), module_env={"find_peaks": FIND_PEAKS},
                              label=f"hvsrpy.hvsr_curve.HvsrCurve._find_peak_unbounded[kwargs={wk}]",
                              clauses=["highest candidate, amplitude taken at the reported frequency's index"]))

# ---------------------------------------------------------------- _find_peak_bounded: modular (callees by contract)
NO_FILTERS = FuncV(lambda ex, st, a, k, n_: z3.BoolVal(isinstance(a[0], type(NONE)) or (isinstance(a[0], DictV) and not a[0].items)), "no_filters")


def _opt_pair(ex, st, env):
    c = ex.fresh("no_peak", B)
    return Tup((OptV(c, ex.fresh("peak_frq", R)), OptV(c, ex.fresh("peak_amp", R))))


# caller-visible contracts of the two callees (exactly the parameter-level clauses proved above)
SR_CALL = Contract(qual="hvsrpy.hvsr_curve.HvsrCurve._search_range_to_index_range", params=["frequency", "search_range_in_hz"],
                   requires=["len(frequency) >= 1"], ensures=SR_ENSURES, modifies=[],
                   make_result=lambda ex, st, env: Tup((ex.fresh("lo_idx", I), ex.fresh("hi_idx", I))))
FPU_CALL = Contract(qual="hvsrpy.hvsr_curve.HvsrCurve._find_peak_unbounded", params=["frequency", "amplitude", "find_peaks_kwargs"],
                    defaults={"find_peaks_kwargs": None}, requires=["len(frequency) == len(amplitude)"], ghost={"no_filters": NO_FILTERS},
                    ensures=PARAM_WEAK + [f"implies(no_filters(find_peaks_kwargs), {x})" for x in PARAM_LEVEL], modifies=[], make_result=_opt_pair)

_SLMB = "(amplitude[{q}] > amplitude[{q}-1] and amplitude[{q}] > amplitude[{q}+1])"
FPB_ENS = [x.replace("result[0]", "f_low_idx").replace("result[1]", "f_high_idx") for x in SR_ENSURES] + [
    "(result[0] is None) == (result[1] is None)",
    # present: a sample strictly inside the index range [L, U]
    "implies(not (result[0] is None), exists(p, f_low_idx + 1, f_high_idx - 1, result[0] == frequency[p] and result[1] == amplitude[p]))",
]
# offsets relative to the low index (same statement as over absolute positions f_low_idx+1 .. f_high_idx-2; this form lets the solver match
# the callee's quantified facts about the slice, which are relative by construction)
_AT = lambda q: "amplitude[f_low_idx + " + q + "]"
_SLMR = lambda q: f"({_AT(q)} > amplitude[f_low_idx + {q} - 1] and {_AT(q)} > amplitude[f_low_idx + {q} + 1])"
FPB_STRONG = [
    "implies(result[0] is None, forall(i, 1, f_high_idx - f_low_idx - 1, not " + _SLMR("i") + "))",
    "implies(not (result[0] is None), exists(p, 1, f_high_idx - f_low_idx - 1, result[0] == frequency[f_low_idx + p] and result[1] == " + _AT("p") + " and "
    + _AT("p") + " >= amplitude[f_low_idx + p - 1] and " + _AT("p") + " >= amplitude[f_low_idx + p + 1] and "
    "forall(q, 1, f_high_idx - f_low_idx - 1, implies(" + _SLMR("q") + ", " + _AT("q") + " <= " + _AT("p") + "))))",
]

# the function rebinds its parameters `frequency` and `amplitude` to the result: the postconditions speak about the arguments
import re
_old = lambda t: re.sub(r"\b(frequency|amplitude)\b", r"old(\1)", t)
FPB_ENS, FPB_STRONG = [_old(x) for x in FPB_ENS], [_old(x) for x in FPB_STRONG]


# ---- parameter-level form: GL / GU1 are *the* index range of the grid and search range of the task (ghost constants defined by the
# published rule; they exist for every non-empty grid: first index attaining the minimum distance). Callers rely on this form.
FQ = z3.Const("frequency", z3.ArraySort(I, R))
GL, GU1 = z3.Ints("GL GU1")
_k = z3.Int("k!g")


def _nearest_first(idx, x):
    d = lambda j: z3.If(FQ[j] - x >= 0, FQ[j] - x, x - FQ[j])
    return [idx >= 0, idx < m, z3.ForAll([_k], z3.Implies(z3.And(_k >= 0, _k < m), d(idx) <= d(_k)), patterns=[FQ[_k]]),
            z3.ForAll([_k], z3.Implies(z3.And(_k >= 0, _k < idx), d(_k) > d(idx)), patterns=[FQ[_k]])]


def _grid_axioms(lo_none, hi_none):
    return ([GL == 0] if lo_none else _nearest_first(GL, f_low)) + ([GU1 == m] if hi_none else _nearest_first(GU1 - 1, f_high))


def _range_value(lo_none, hi_none):
    return Tup((NONE if lo_none else f_low, NONE if hi_none else f_high))


def _is_grid(ex, st, a, k, n_):
    return z3.And(st.heap[a[0].sid].data == FQ, st.heap[a[0].sid].shape[0] == m)


_AG = lambda q: "amplitude[GL + " + q + "]"
_SLMG = lambda q: f"({_AG(q)} > amplitude[GL + {q} - 1] and {_AG(q)} > amplitude[GL + {q} + 1])"
FPB_PARAM = [
    "(result[0] is None) == (result[1] is None)",
    "implies(not (result[0] is None), exists(p, 1, GU1 - GL - 1, result[0] == frequency[GL + p] and result[1] == " + _AG("p") + "))",
]
FPB_PARAM_STRONG = [
    "implies(result[0] is None, forall(i, 1, GU1 - GL - 1, not " + _SLMG("i") + "))",
    "implies(not (result[0] is None), exists(p, 1, GU1 - GL - 1, result[0] == frequency[GL + p] and result[1] == " + _AG("p") + " and "
    + _AG("p") + " >= amplitude[GL + p - 1] and " + _AG("p") + " >= amplitude[GL + p + 1] and "
    "forall(q, 1, GU1 - GL - 1, implies(" + _SLMG("q") + ", " + _AG("q") + " <= " + _AG("p") + "))))",
]


def fpb_call(lo_none, hi_none):
    """caller-visible contract of _find_peak_bounded for the task's grid and range"""
    rng = _range_value(lo_none, hi_none)
    gh = {"GL": GL, "GU1": GU1, "no_filters": NO_FILTERS, "is_grid": FuncV(_is_grid, "is_grid"),
          "is_range": FuncV(lambda ex, st, a, k, n_: ex.struct_eq(a[0], rng), "is_range")}
    return Contract(qual="hvsrpy.hvsr_curve.HvsrCurve._find_peak_bounded", params=["frequency", "amplitude", "search_range_in_hz", "find_peaks_kwargs"],
                    defaults={"search_range_in_hz": Tup((NONE, NONE)), "find_peaks_kwargs": None}, ghost=gh,
                    requires=["is_grid(frequency)", "len(amplitude) == len(frequency)", "is_range(search_range_in_hz)"],
                    ensures=FPB_PARAM + [f"implies(no_filters(find_peaks_kwargs), {x})" for x in FPB_PARAM_STRONG], modifies=[], make_result=_opt_pair)


def _fpb_inputs(lo_none, hi_none, kw):
    def mk(ex, st):
        st.env["frequency"] = sym_arr1(ex, st, "frequency", m)
        st.env["amplitude"] = sym_arr1(ex, st, "amplitude", m)
        st.env["search_range_in_hz"] = Tup((NONE if lo_none else f_low, NONE if hi_none else f_high))
        st.env["find_peaks_kwargs"] = _kwargs_value(kw)
        st.env["m"] = m
        return [m >= 1]
    return mk


HVSRCURVE = ModV("HvsrCurve", {"_search_range_to_index_range": SR_CALL, "_find_peak_unbounded": FPU_CALL})
for lo_none in (True, False):
    for hi_none in (True, False):
        for kw in ("None", "empty", "dict"):
            c = Contract(qual="hvsrpy.hvsr_curve.HvsrCurve._find_peak_bounded", params=["frequency", "amplitude", "search_range_in_hz", "find_peaks_kwargs"],
                         requires=["len(frequency) >= 1", "len(frequency) == len(amplitude)"],
                         ensures=FPB_ENS + [_old(x) for x in FPB_PARAM] + ((FPB_STRONG + [_old(x) for x in FPB_PARAM_STRONG]) if kw != "dict" else []),
                         make_inputs=_fpb_inputs(lo_none, hi_none, kw), modifies=[], ghost={"GL": GL, "GU1": GU1}, axioms=_grid_axioms(lo_none, hi_none),
                         notes="highest local maximum strictly inside the index range of the nearest samples; amplitude at the same index")
            TASKS.append(FunctionTask(c, module_env={"HvsrCurve": HVSRCURVE},
                                      label=f"hvsrpy.hvsr_curve.HvsrCurve._find_peak_bounded[f_low={'None' if lo_none else 'x'},f_high={'None' if hi_none else 'y'},kwargs={kw}]",
                                      clauses=["highest local maximum within the range"]))

# ---------------------------------------------------------------- HvsrTraditional.update_peaks_bounded: every window, masks, NaN for absent peaks
K = z3.Int("K")
AMP = z3.Const("amplitude_rows", A2(R))
PF0, PA0 = z3.Const("main_peak_frq_on_entry", z3.ArraySort(I, R)), z3.Const("main_peak_amp_on_entry", z3.ArraySort(I, R))
VW0, VP0 = z3.Const("valid_window_on_entry", z3.ArraySort(I, B)), z3.Const("valid_peak_on_entry", z3.ArraySort(I, B))
old_lo, old_hi, prom, prom0 = z3.Reals("stored_f_low stored_f_high prominence stored_prominence")
_PEAK_ARRAYS = (("_main_peak_frq", PF0, "real"), ("_main_peak_amp", PA0, "real"), ("valid_window_boolean_mask", VW0, "bool"), ("valid_peak_boolean_mask", VP0, "bool"))


def _upb_inputs(lo_none, hi_none, kw, fresh_object):
    def mk(ex, st):
        fields = {"frequency": ex.alloc_arr(st, (m,), FQ, "real", "param:self.frequency", tag="frequency"),
                  "amplitude": ex.alloc_arr(st, (K, m), AMP, "real", "param:self.amplitude", tag="amplitude")}
        for nm, data, elem in _PEAK_ARRAYS:
            fields[nm] = ex.alloc_arr(st, (K,), data, elem, f"param:self.{nm}", tag=nm)
        if fresh_object:      # the state __init__ leaves: the first call always computes
            from pyvc.core import StrV
            fields["_search_range_in_hz"], fields["_find_peaks_kwargs"] = StrV("default_overwritten_below"), StrV("default_overwritten_below")
        else:
            fields["_search_range_in_hz"] = Tup((old_lo, old_hi))
            fields["_find_peaks_kwargs"] = DictV({}) if kw == "None" else DictV({"prominence": prom0})
        fields["meta"] = DictV({})
        st.env["self"] = sym_obj(ex, st, "HvsrTraditional", fields, owner="param:self")
        st.env["search_range_in_hz"] = _range_value(lo_none, hi_none)
        st.env["find_peaks_kwargs"] = NONE if kw == "None" else DictV({"prominence": prom})
        st.env["K"], st.env["m"] = K, m
        return [K >= 0, m >= 1]
    return mk


def _self_havoc(ex, st, v):
    for nm, data, elem in _PEAK_ARRAYS:
        ref = st.heap[v.oid].fields[nm]
        d = st.heap[ref.sid]
        st.heap[ref.sid] = ArrData(d.shape, ex.fresh(nm, data.sort()), d.elem, d.owner, d.view_of)
    return v


_VP, _VW, _PF, _PA = "self.valid_peak_boolean_mask", "self.valid_window_boolean_mask", "self._main_peak_frq", "self._main_peak_amp"
_AR = lambda r, q: f"self.amplitude[{r}, GL + {q}]"
_SLMT = lambda r, q: f"({_AR(r, q)} > {_AR(r, q + ' - 1')} and {_AR(r, q)} > {_AR(r, q + ' + 1')})"


def _row(r, strong):
    absent = f"isnan({_PF}[{r}]) and isnan({_PA}[{r}])"
    present = f"{_PF}[{r}] == self.frequency[GL + p] and {_PA}[{r}] == {_AR(r, 'p')}"
    if strong:
        absent += f" and forall(i, 1, GU1 - GL - 1, not {_SLMT(r, 'i')})"
        present += (f" and {_AR(r, 'p')} >= {_AR(r, 'p - 1')} and {_AR(r, 'p')} >= {_AR(r, 'p + 1')} and "
                    f"forall(q, 1, GU1 - GL - 1, implies({_SLMT(r, 'q')}, {_AR(r, 'q')} <= {_AR(r, 'p')}))")
    return f"(implies(not {_VP}[{r}], {absent}) and implies({_VP}[{r}], exists(p, 1, GU1 - GL - 1, {present})))"


_EARLY = "(old(self._search_range_in_hz) == search_range_in_hz and find_peaks_kwargs == old(self._find_peaks_kwargs))"
_UNCH = " and ".join(f"forall(r, 0, K, self.{nm}[r] == old(self.{nm}[r]))" for nm, _, _ in _PEAK_ARRAYS)


def _upb_contract(lo_none, hi_none, kw, fresh_object):
    strong = kw == "None"
    return Contract(
        qual="hvsrpy.hvsr_traditional.HvsrTraditional.update_peaks_bounded", params=["self", "search_range_in_hz", "find_peaks_kwargs"],
        ghost={"GL": GL, "GU1": GU1, "isnan": lambda x: x == npm.NAN}, axioms=_grid_axioms(lo_none, hi_none),
        requires=[], make_inputs=_upb_inputs(lo_none, hi_none, kw, fresh_object), obj_havoc={"self": _self_havoc},
        ensures=[f"implies(not {_EARLY}, forall(r, 0, K, {_row('r', strong)}))",
                 f"implies(not {_EARLY}, forall(r, 0, K, {_VW}[r] == ({_VP}[r] or forall(q, 0, K, not {_VP}[q]))))",
                 f"implies(not {_EARLY}, self._search_range_in_hz == search_range_in_hz)",
                 f"implies({_EARLY}, {_UNCH})"],
        loops={0: [f"forall(r, 0, _k0, {_row('r', strong)})", f"forall(r, 0, _k0, {_VW}[r] == {_VP}[r])",
                   f"all_curves_flat == forall(r, 0, _k0, not {_VP}[r])"]},
        modifies=["param:self", "param:self._main_peak_frq", "param:self._main_peak_amp", "param:self.valid_window_boolean_mask", "param:self.valid_peak_boolean_mask"],
        notes="every window: peak = highest local maximum strictly inside the index range, NaN and both masks False when there is none; all windows "
              "stay accepted when no window has a peak; nothing recomputed when range and filters are the stored ones")


for lo_none in (True, False):
    for hi_none in (True, False):
        for kw, fresh_object in (("None", False), ("dict", False), ("None", True)):
            if fresh_object and not (lo_none and hi_none):
                continue
            TASKS.append(FunctionTask(_upb_contract(lo_none, hi_none, kw, fresh_object),
                                      module_env={"HvsrCurve": ModV("HvsrCurve", {"_find_peak_bounded": fpb_call(lo_none, hi_none)})},
                                      label=f"hvsrpy.hvsr_traditional.HvsrTraditional.update_peaks_bounded[f_low={'None' if lo_none else 'x'},f_high={'None' if hi_none else 'y'},"
                                            f"kwargs={kw}{',fresh-object' if fresh_object else ''}]",
                                      clauses=["every window's stored peak is the highest local maximum in the range; masks and NaN for absent peaks"]))

# ---------------------------------------------------------------- HvsrCurve.update_peaks_bounded (one curve) and HvsrTraditional.mean_curve_peak
AMP1 = z3.Const("amplitude", z3.ArraySort(I, R))
_A1 = lambda q: f"self.amplitude[GL + {q}]"
_SLM1 = lambda q: f"({_A1(q)} > {_A1(q + ' - 1')} and {_A1(q)} > {_A1(q + ' + 1')})"


def _single(strong, frq, amp, arr=_A1, slm=_SLM1):
    absent = f"isnan({frq}) and isnan({amp})"
    present = f"{frq} == self.frequency[GL + p] and {amp} == {arr('p')}"
    if strong:
        absent += f" and forall(i, 1, GU1 - GL - 1, not {slm('i')})"
        present += (f" and {arr('p')} >= {arr('p - 1')} and {arr('p')} >= {arr('p + 1')} and "
                    f"forall(q, 1, GU1 - GL - 1, implies({slm('q')}, {arr('q')} <= {arr('p')}))")
    return absent, f"exists(p, 1, GU1 - GL - 1, {present})"


def _static(c):
    """a staticmethod reached through the instance: the instance is not passed on"""
    return FuncV(lambda ex, st, a, k, n_: ex.call_contract(st, c, list(a[1:]), k, n_), c.qual)


def _upc_inputs(lo_none, hi_none, kw):
    def mk(ex, st):
        fields = {"frequency": ex.alloc_arr(st, (m,), FQ, "real", "param:self.frequency", tag="frequency"),
                  "amplitude": ex.alloc_arr(st, (m,), AMP1, "real", "param:self.amplitude", tag="amplitude"),
                  "peak_frequency": z3.Real("peak_frequency_on_entry"), "peak_amplitude": z3.Real("peak_amplitude_on_entry"),
                  "_search_range_in_hz": Tup((old_lo, old_hi)), "_find_peaks_kwargs": DictV({}) if kw == "None" else DictV({"prominence": prom0}),
                  "meta": DictV({})}
        st.env["self"] = sym_obj(ex, st, "HvsrCurve", fields, owner="param:self")
        st.env["search_range_in_hz"] = _range_value(lo_none, hi_none)
        st.env["find_peaks_kwargs"] = NONE if kw == "None" else DictV({"prominence": prom})
        st.env["m"] = m
        return [m >= 1]
    return mk


for lo_none in (True, False):
    for hi_none in (True, False):
        for kw in ("None", "dict"):
            absent, present = _single(kw == "None", "self.peak_frequency", "self.peak_amplitude")
            c = Contract(qual="hvsrpy.hvsr_curve.HvsrCurve.update_peaks_bounded", params=["self", "search_range_in_hz", "find_peaks_kwargs"],
                         ghost={"GL": GL, "GU1": GU1, "isnan": lambda x: x == npm.NAN}, axioms=_grid_axioms(lo_none, hi_none),
                         make_inputs=_upc_inputs(lo_none, hi_none, kw), modifies=["param:self"],
                         ensures=[f"implies(not {_EARLY}, ({absent}) or ({present}))",
                                  f"implies(not {_EARLY}, self._search_range_in_hz == search_range_in_hz)",
                                  f"implies({_EARLY}, self.peak_frequency == old(self.peak_frequency) and self.peak_amplitude == old(self.peak_amplitude))"],
                         notes="stored peak = highest local maximum strictly inside the index range, NaN when there is none")
            TASKS.append(FunctionTask(c, registry={"HvsrCurve._find_peak_bounded": _static(fpb_call(lo_none, hi_none))},
                                      label=f"hvsrpy.hvsr_curve.HvsrCurve.update_peaks_bounded[f_low={'None' if lo_none else 'x'},f_high={'None' if hi_none else 'y'},kwargs={kw}]",
                                      clauses=["the curve's stored peak is the highest local maximum in the range"]))

# mean_curve_peak: the mean curve is an opaque array of the grid's length (its value is C05's contract); the peak is searched in the stored range
MC = z3.Const("mean_curve", z3.ArraySort(I, R))
_AMC = lambda q: f"MCV(GL + {q})"
_SLMMC = lambda q: f"({_AMC(q)} > {_AMC(q + ' - 1')} and {_AMC(q)} > {_AMC(q + ' + 1')})"


def _mcp_inputs(lo_none, hi_none, kw):
    def mk(ex, st):
        fields = {"frequency": ex.alloc_arr(st, (m,), FQ, "real", "param:self.frequency", tag="frequency"),
                  "_search_range_in_hz": _range_value(lo_none, hi_none), "_find_peaks_kwargs": _kwargs_value(kw)}
        st.env["self"] = sym_obj(ex, st, "HvsrTraditional", fields, owner="param:self")
        st.env["distribution"] = z3.Int("distribution")
        st.env["m"] = m
        return [m >= 1]
    return mk


_MEAN_CURVE = FuncV(lambda ex, st, a, k, n_: ex.alloc_arr(st, (m,), MC, "real", "fresh", tag="mean_curve"), "HvsrTraditional.mean_curve")
for lo_none in (True, False):
    for hi_none in (True, False):
        for kw in ("empty", "dict"):
            absent, present = _single(kw == "empty", "result[0]", "result[1]", arr=_AMC, slm=_SLMMC)
            no_peak = f"forall(i, 1, GU1 - GL - 1, not {_SLMMC('i')})"
            c = Contract(qual="hvsrpy.hvsr_traditional.HvsrTraditional.mean_curve_peak", params=["self", "distribution"],
                         ghost={"GL": GL, "GU1": GU1, "MCV": lambda i: z3.Select(MC, i)}, axioms=_grid_axioms(lo_none, hi_none),
                         make_inputs=_mcp_inputs(lo_none, hi_none, kw), modifies=[],
                         ensures=[present], raises_only_if={"ValueError": no_peak if kw == "empty" else "True"},
                         notes="peak of the mean curve = highest local maximum of that curve strictly inside the stored range; otherwise ValueError")
            TASKS.append(FunctionTask(c, registry={"HvsrTraditional.mean_curve": _MEAN_CURVE},
                                      module_env={"HvsrCurve": ModV("HvsrCurve", {"_find_peak_bounded": fpb_call(lo_none, hi_none)})},
                                      label=f"hvsrpy.hvsr_traditional.HvsrTraditional.mean_curve_peak[f_low={'None' if lo_none else 'x'},f_high={'None' if hi_none else 'y'},kwargs={kw}]",
                                      clauses=["the mean-curve peak is the highest local maximum of the mean curve in the stored range"]))

# ---------------------------------------------------------------- HvsrDiffuseField: the curve is its own mean curve; its peak is searched in the range given
def _dfp_inputs(lo_none, hi_none, kw):
    def mk(ex, st):
        fields = {"frequency": ex.alloc_arr(st, (m,), FQ, "real", "param:self.frequency", tag="frequency"),
                  "amplitude": ex.alloc_arr(st, (m,), AMP1, "real", "param:self.amplitude", tag="amplitude")}
        st.env["self"] = sym_obj(ex, st, "HvsrDiffuseField", fields, owner="param:self")
        st.env["distribution"] = NONE
        st.env["search_range_in_hz"] = _range_value(lo_none, hi_none)
        st.env["find_peaks_kwargs"] = _kwargs_value(kw)
        st.env["m"] = m
        return [m >= 1]
    return mk


DF_MEAN_CURVE = Contract(qual="hvsrpy.hvsr_diffuse_field.HvsrDiffuseField.mean_curve", params=["self", "distribution"], defaults={"distribution": None},
                         make_inputs=_dfp_inputs(True, True, "None"), ensures=["result is self.amplitude"], modifies=[],
                         make_result=lambda ex, st, env: st.heap[env["self"].oid].fields["amplitude"],
                         notes="the diffuse-field curve is its own mean curve (the same array, not a copy)")
TASKS.append(FunctionTask(DF_MEAN_CURVE, clauses=["diffuse field: the curve itself is searched"]))
for lo_none in (True, False):
    for hi_none in (True, False):
        for kw in ("None", "dict"):
            absent, present = _single(kw == "None", "result[0]", "result[1]")
            no_peak = f"forall(i, 1, GU1 - GL - 1, not {_SLM1('i')})"
            c = Contract(qual="hvsrpy.hvsr_diffuse_field.HvsrDiffuseField.mean_curve_peak", params=["self", "distribution", "search_range_in_hz", "find_peaks_kwargs"],
                         ghost={"GL": GL, "GU1": GU1}, axioms=_grid_axioms(lo_none, hi_none), make_inputs=_dfp_inputs(lo_none, hi_none, kw), modifies=[],
                         ensures=[present], raises_only_if={"ValueError": no_peak if kw == "None" else "True"},
                         notes="peak of the diffuse-field curve = highest local maximum strictly inside the range given; otherwise ValueError")
            TASKS.append(FunctionTask(c, registry={"HvsrDiffuseField.mean_curve": DF_MEAN_CURVE},
                                      module_env={"HvsrCurve": ModV("HvsrCurve", {"_find_peak_bounded": fpb_call(lo_none, hi_none)})},
                                      label=f"hvsrpy.hvsr_diffuse_field.HvsrDiffuseField.mean_curve_peak[f_low={'None' if lo_none else 'x'},f_high={'None' if hi_none else 'y'},kwargs={kw}]",
                                      clauses=["the diffuse-field peak is the highest local maximum of the curve in the range"]))

# ---------------------------------------------------------------- HvsrAzimuthal: range / filters / grid are those of the first azimuth; the peak of the (weighted) mean curve
def _az_first_inputs(ex, st):
    first = sym_obj(ex, st, "HvsrTraditional", {"frequency": ex.alloc_arr(st, (m,), FQ, "real", "param:self.hvsrs[0].frequency", tag="frequency"),
                                                "_search_range_in_hz": Tup((old_lo, old_hi)), "_find_peaks_kwargs": DictV({"prominence": prom0})},
                    owner="param:self.hvsrs[0]")
    second = sym_obj(ex, st, "HvsrTraditional", {"frequency": ex.alloc_arr(st, (m,), z3.Const("other_frequency", z3.ArraySort(I, R)), "real", "param:self.hvsrs[1].frequency"),
                                                 "_search_range_in_hz": Tup((z3.Real("other_lo"), z3.Real("other_hi"))), "_find_peaks_kwargs": DictV({})},
                     owner="param:self.hvsrs[1]")
    st.env["self"] = sym_obj(ex, st, "HvsrAzimuthal", {"hvsrs": ex.alloc_list(st, [first, second], owner="param:self.hvsrs")}, owner="param:self")
    st.env["m"] = m
    return [m >= 1]


AZ_FIRST = {}
for _nm, _ens in (("frequency", ["result is self.hvsrs[0].frequency"]),
                  ("_search_range_in_hz", ["result == self.hvsrs[0]._search_range_in_hz"]),
                  ("_find_peaks_kwargs", ["result is self.hvsrs[0]._find_peaks_kwargs"])):
    AZ_FIRST[_nm] = Contract(qual="hvsrpy.hvsr_azimuthal.HvsrAzimuthal." + _nm, params=["self"], make_inputs=_az_first_inputs, ensures=_ens, modifies=[], is_property=True,
                             notes="the common grid / the range and filters of the last peak search, read from the first azimuth (update_peaks_bounded hands every azimuth the same)")
    TASKS.append(FunctionTask(AZ_FIRST[_nm], clauses=["azimuthal: grid, range and filters of the first azimuth"]))


def _amcp_inputs(lo_none, hi_none, kw):
    def mk(ex, st):
        st.env["self"] = sym_obj(ex, st, "HvsrAzimuthal", {}, owner="param:self")
        st.env["distribution"] = z3.Int("distribution")
        st.env["m"] = m
        return [m >= 1]
    return mk


def _az_props(lo_none, hi_none, kw):
    mk = lambda f: Contract(qual="hvsrpy.hvsr_azimuthal.HvsrAzimuthal.x", params=["self"], ensures=[], modifies=[], is_property=True, make_result=f)
    return {"HvsrAzimuthal.frequency": mk(lambda ex, st, env: ex.alloc_arr(st, (m,), FQ, "real", "param:self.hvsrs[0].frequency", tag="frequency")),
            "HvsrAzimuthal._search_range_in_hz": mk(lambda ex, st, env: _range_value(lo_none, hi_none)),
            "HvsrAzimuthal._find_peaks_kwargs": mk(lambda ex, st, env: _kwargs_value(kw)),
            "HvsrAzimuthal.mean_curve": _MEAN_CURVE}


for lo_none in (True, False):
    for hi_none in (True, False):
        for kw in ("empty", "dict"):
            absent, present = _single(kw == "empty", "result[0]", "result[1]", arr=_AMC, slm=_SLMMC)
            no_peak = f"forall(i, 1, GU1 - GL - 1, not {_SLMMC('i')})"
            c = Contract(qual="hvsrpy.hvsr_azimuthal.HvsrAzimuthal.mean_curve_peak", params=["self", "distribution"],
                         ghost={"GL": GL, "GU1": GU1, "MCV": lambda i: z3.Select(MC, i)}, axioms=_grid_axioms(lo_none, hi_none),
                         make_inputs=_amcp_inputs(lo_none, hi_none, kw), modifies=[],
                         ensures=[present], raises_only_if={"ValueError": no_peak if kw == "empty" else "True"},
                         notes="peak of the azimuthal mean curve = highest local maximum of that curve strictly inside the stored range; otherwise ValueError")
            TASKS.append(FunctionTask(c, registry=_az_props(lo_none, hi_none, kw),
                                      module_env={"HvsrCurve": ModV("HvsrCurve", {"_find_peak_bounded": fpb_call(lo_none, hi_none)})},
                                      label=f"hvsrpy.hvsr_azimuthal.HvsrAzimuthal.mean_curve_peak[f_low={'None' if lo_none else 'x'},f_high={'None' if hi_none else 'y'},kwargs={kw}]",
                                      clauses=["the azimuthal mean-curve peak is the highest local maximum of the mean curve in the stored range"]))

# ---------------------------------------------------------------- the azimuthal fan-out of a range update (contract and vocabulary: contracts/C06.py)
import contracts.C06 as _C06
TASKS += [t for t in _C06.TASKS if getattr(t, "label", "").startswith("hvsrpy.hvsr_azimuthal.HvsrAzimuthal.update_peaks_bounded")]

META = dict(
    level="other",
    explanation="proved for all grids, curves and limits (four None-patterns of the range; scipy filters absent / empty / present): "
                "_search_range_to_index_range returns [first index nearest f_low, first index nearest f_high + 1) (None -> 0 / m); "
                "_find_peak_unbounded returns (None, None) iff scipy keeps no candidate, else frequency and amplitude at the same candidate index whose "
                "amplitude is maximal among the candidates; _find_peak_bounded (callees by contract) returns the highest local maximum strictly inside "
                "that index range, amplitude at the same index, absent only if the range holds no strict local maximum; "
                "HvsrCurve.update_peaks_bounded stores exactly that (NaN when absent; nothing recomputed when range and filters are the stored ones); "
                "HvsrTraditional.update_peaks_bounded does so for every window (loop invariant over the rows), sets both masks False and NaN for a window "
                "without a peak and keeps every window accepted when none has one; HvsrTraditional.mean_curve_peak returns the highest local maximum "
                "of the mean curve in the stored range and raises ValueError only when there is none. With scipy filters present only the "
                "'frequency and amplitude of one sample strictly inside the range' part is claimed. Bounded/cross-check: every azimuth, diffuse field, "
                "histories of range updates, against an independent local-maximum oracle",
    trusted_base=["A-REAL", "A-PY", "A-ARGMIN/A-ARGMAX (first index of the extremum)", "A-FIND-PEAKS (scipy.signal.find_peaks)",
                  "A-NAN (NaN = distinguished constant; only stored and tested)", "PyVC engine + z3/cvc5"],
    assumptions=["A-REAL", "A-PY", "A-ARGMIN", "A-ARGMAX", "A-FIND-PEAKS", "A-NP-FANCY", "A-NAN",
                 "mean_curve is an opaque array of the grid's length in mean_curve_peak (its value: C05)"],
)

# the constructors of the result objects (contracts/ctor_hvsr.py): the constructors find the peaks once with the default range when the object is complete
import contracts.ctor_hvsr as _CTOR
TASKS += [t for t in _CTOR.TASKS if "HvsrCurve.__init__" in t.label or "HvsrTraditional.__init__" in t.label or "from_hvsr_curves" in t.label]

# the table of per-azimuth mean-curve peaks (contract in contracts/C11.py): entry a is azimuth a's own peak; a missing peak leaves as the per-azimuth object's exception
import contracts.C11 as _C11
TASKS += [t for t in _C11.TASKS if "mean_curve_peak_by_azimuth" in getattr(t, "label", "")]
