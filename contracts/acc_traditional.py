"""Statistic accessors of HvsrTraditional under contract (hvsr_traditional.py): which values, selected by which mask, reach which estimator.

The estimators themselves are the proved contracts of statistics.py (contracts/C05.py: _nanmean_weighted / _nanstd_weighted / _nth_std_factory).
Here they are *uninterpreted functions of the selection they are handed*: MEAN_SEL(distribution, values, mask, n) is "the mean estimator of
`distribution` applied to the sub-sequence of values[0:n] where mask is True" (A-NP-MASK: a[mask] is that sub-sequence).  What is proved is
the routing the property statement is about: every resonance statistic reads the peak vector through the *peak* mask, every curve statistic
reads the amplitude rows through the *window* mask, nothing else of the object is read, nothing is written, the distribution asked for is
the one handed on, the +-n values combine the mean and the standard deviation of the same quantity and distribution.
"""
import z3

from pyvc.core import I, R, B, A2, ARef, MaskedV, FuncV, ModV, DictV, StrV, Tup, NONE, NoneV, Undecided, lit
from pyvc.contract import Contract, FunctionTask, sym_obj
from pyvc import npmodel as npm
from pyvc.npmodel import EXP, LOG

AR, AB = z3.ArraySort(I, R), z3.ArraySort(I, B)
K, M = z3.Ints("n_curves n_frequencies")
FRQ, AMPP = z3.Const("main_peak_frq", AR), z3.Const("main_peak_amp", AR)
VP, VW = z3.Const("valid_peak_mask", AB), z3.Const("valid_window_mask", AB)
AMP = z3.Const("amplitude_rows", A2(R))
DIST = z3.Int("distribution")

MEAN_SEL = z3.Function("MEAN_SEL", I, AR, AB, I, R)          # (distribution, values, mask, n): mean estimator over the selection
STD_SEL = z3.Function("STD_SEL", I, AR, AB, I, R)
MEAN_ROWS = z3.Function("MEAN_ROWS", I, A2(R), AB, I, AR)    # (distribution, rows, mask, n): column-wise mean over the selected rows
STD_ROWS = z3.Function("STD_ROWS", I, A2(R), AB, I, AR)
COV_SEL = z3.Function("COV_SEL", AR, AR, AB, I, I)           # np.cov(x[mask], y[mask], ddof=1): an opaque 2x2 result (id)

SPELLINGS = ("normal", "lognormal", "log-normal")


def dcode(d):
    """the distribution argument as an integer term: a symbolic distribution is itself; a spelling is its position in SPELLINGS"""
    if isinstance(d, StrV):
        return z3.IntVal(100 + SPELLINGS.index(d.s)) if d.s in SPELLINGS else z3.IntVal(199)
    return lit(d)


def _self_fields(ex, st):
    return {"_main_peak_frq": ex.alloc_arr(st, (K,), FRQ, "real", "param:self._main_peak_frq", tag="_main_peak_frq"),
            "_main_peak_amp": ex.alloc_arr(st, (K,), AMPP, "real", "param:self._main_peak_amp", tag="_main_peak_amp"),
            "valid_peak_boolean_mask": ex.alloc_arr(st, (K,), VP, "bool", "param:self.valid_peak_boolean_mask", tag="valid_peak_boolean_mask"),
            "valid_window_boolean_mask": ex.alloc_arr(st, (K,), VW, "bool", "param:self.valid_window_boolean_mask", tag="valid_window_boolean_mask"),
            "amplitude": ex.alloc_arr(st, (K, M), AMP, "real", "param:self.amplitude", tag="amplitude"),
            "n_curves": K}


def _inputs(dist=None, with_n=False):
    def mk(ex, st):
        st.env["self"] = sym_obj(ex, st, "HvsrTraditional", _self_fields(ex, st), owner="param:self")
        st.env["distribution"] = DIST if dist is None else StrV(dist)
        if with_n:
            st.env["n"] = z3.Real("n")
        st.env["K"], st.env["M"] = K, M
        return [K >= 0, M >= 1]
    return mk


# ---------------------------------------------------------------- ghost vocabulary of the specifications
def _sel_args(ex, st, a):
    """(values data, mask data, n) of a selection given as (values array, mask array)"""
    dv, dm = ex.arr(st, a[0]), ex.arr(st, a[1])
    return dv.data, dm.data, dv.shape[0]


def _is_selection(ex, st, a, k, n_):
    r, vals, mask = a
    if not isinstance(r, MaskedV):
        return z3.BoolVal(False)
    dv, dm, dvals, dmask = ex.arr(st, r.arr), ex.arr(st, r.mask), ex.arr(st, vals), ex.arr(st, mask)
    if dv.rank != dvals.rank:
        return z3.BoolVal(False)
    return z3.And(dv.data == dvals.data, dm.data == dmask.data, *[x == y for x, y in zip(dv.shape, dvals.shape)], dm.shape[0] == dmask.shape[0])


GHOST = {
    "is_selection": FuncV(_is_selection, "is_selection"),
    "MEAN_SEL": FuncV(lambda ex, st, a, k, n_: MEAN_SEL(dcode(a[0]), *_sel_args(ex, st, a[1:])), "MEAN_SEL"),
    "STD_SEL": FuncV(lambda ex, st, a, k, n_: STD_SEL(dcode(a[0]), *_sel_args(ex, st, a[1:])), "STD_SEL"),
    "MEAN_ROWS": FuncV(lambda ex, st, a, k, n_: z3.Select(MEAN_ROWS(dcode(a[0]), *_sel_args(ex, st, a[1:3])), lit(a[3])), "MEAN_ROWS"),
    "STD_ROWS": FuncV(lambda ex, st, a, k, n_: z3.Select(STD_ROWS(dcode(a[0]), *_sel_args(ex, st, a[1:3])), lit(a[3])), "STD_ROWS"),
    "count": FuncV(lambda ex, st, a, k, n_: npm.mask_count(ex.arr(st, a[0])), "count"),
    "exp": EXP, "log": LOG, "K": K, "M": M,
}


# ---------------------------------------------------------------- models of the estimators at their call sites (contracts: C05)
def _axis0(kw):
    return isinstance(kw, DictV) and set(kw.items) == {"axis"} and z3.is_int_value(lit(kw.items["axis"])) and lit(kw.items["axis"]).as_long() == 0


def _estimator(fsel, frows, kwname):
    def f(ex, st, args, kw, node):
        names = ["distribution", "values", "weights", kwname] + (["denominator"] if kwname == "std_kwargs" else [])
        b = dict(zip(names, args))
        b.update(kw)
        if not isinstance(b.get("weights", NONE), NoneV):
            raise Undecided("explicit weights in a traditional accessor")
        if kwname == "std_kwargs" and "denominator" in b and not (isinstance(b["denominator"], StrV) and b["denominator"].s == "nist"):
            raise Undecided("denominator other than the default")
        v, d = b["values"], dcode(b["distribution"])
        if not isinstance(v, MaskedV):
            raise Undecided("the estimator is handed something other than a boolean-mask selection")
        dv, dm = ex.arr(st, v.arr), ex.arr(st, v.mask)
        opts = b.get(kwname, NONE)
        if dv.rank == 1 and isinstance(opts, NoneV):
            return fsel(d, dv.data, dm.data, dv.shape[0])
        if dv.rank == 2 and _axis0(opts):
            return ex.alloc_arr(st, (dv.shape[1],), frows(d, dv.data, dm.data, dv.shape[0]), "real", "fresh", tag="curve")
        raise Undecided("estimator options the accessor contracts do not cover")
    return FuncV(f, "_nan%s_weighted" % ("mean" if kwname == "mean_kwargs" else "std"))


NANMEAN, NANSTD = _estimator(MEAN_SEL, MEAN_ROWS, "mean_kwargs"), _estimator(STD_SEL, STD_ROWS, "std_kwargs")


def _cov_model(ex, st, args, kw, node):
    x, y = args
    if not (isinstance(x, MaskedV) and isinstance(y, MaskedV)) or set(kw) != {"ddof"} or not z3.simplify(lit(kw["ddof"]) == 1).eq(z3.BoolVal(True)):
        raise Undecided("np.cov other than cov(selection, selection, ddof=1)")
    dx, dy, mx, my = ex.arr(st, x.arr), ex.arr(st, y.arr), ex.arr(st, x.mask), ex.arr(st, y.mask)
    ex.add_obl(f"safe[cov-same-selection@{node.lineno}]", "safe", st, z3.And(mx.data == my.data, dx.shape[0] == dy.shape[0]), node.lineno,
               "both variables are selected by the same mask")
    return COV_SEL(dx.data, dy.data, mx.data, dx.shape[0])


NP = ModV("np", dict(npm.NP.attrs, cov=FuncV(_cov_model, "np.cov")))
DISTRIBUTION_MAP = DictV({"log-normal": StrV("lognormal"), "lognormal": StrV("lognormal"), "normal": StrV("normal")}, owner="module")
ENV = {"_nanmean_weighted": NANMEAN, "_nanstd_weighted": NANSTD, "np": NP, "DISTRIBUTION_MAP": DISTRIBUTION_MAP}

Q = "hvsrpy.hvsr_traditional.HvsrTraditional."
_PF, _PA, _VP, _VW = "self._main_peak_frq", "self._main_peak_amp", "self.valid_peak_boolean_mask", "self.valid_window_boolean_mask"


def _fresh_sel(rank):
    def mk(ex, st, env):
        shape = (ex.fresh("sel_n", I),) if rank == 1 else (ex.fresh("sel_n", I), ex.fresh("sel_m", I))
        arr = ex.alloc_arr(st, shape, ex.fresh("sel_values", AR if rank == 1 else A2(R)), "real", "param:self", tag="sel_values")
        mask = ex.alloc_arr(st, shape[:1], ex.fresh("sel_mask", AB), "bool", "param:self", tag="sel_mask")
        return MaskedV(arr, mask)
    return mk


def _prop(name, vals, mask):
    return Contract(qual=Q + name, params=["self"], ghost=GHOST, make_inputs=_inputs(), ensures=[f"is_selection(result, {vals}, {mask})"],
                    modifies=[], is_property=True, make_result=_fresh_sel(1),
                    notes=f"the sub-sequence of {vals} where {mask} is True")


PEAK_FRQS, PEAK_AMPS = _prop("peak_frequencies", _PF, _VP), _prop("peak_amplitudes", _PA, _VP)
PROPS = {"HvsrTraditional.peak_frequencies": PEAK_FRQS, "HvsrTraditional.peak_amplitudes": PEAK_AMPS}


def _scalar(name, spec, dist=None, with_n=False, note=""):
    params = ["self"] + (["n"] if with_n else []) + ["distribution"]
    return Contract(qual=Q + name, params=params, defaults={"distribution": "lognormal"}, ghost=GHOST, make_inputs=_inputs(dist, with_n),
                    ensures=[f"result == {spec}"], modifies=[], make_result=lambda ex, st, env: ex.fresh(name, R), notes=note)


MEAN_FRQ = _scalar("mean_fn_frequency", f"MEAN_SEL(distribution, {_PF}, {_VP})", note="mean estimator over the peak frequencies of the accepted peaks")
MEAN_AMP = _scalar("mean_fn_amplitude", f"MEAN_SEL(distribution, {_PA}, {_VP})", note="mean estimator over the peak amplitudes of the accepted peaks")
STD_FRQ = _scalar("std_fn_frequency", f"STD_SEL(distribution, {_PF}, {_VP})", note="standard-deviation estimator over the peak frequencies of the accepted peaks")
STD_AMP = _scalar("std_fn_amplitude", f"STD_SEL(distribution, {_PA}, {_VP})", note="standard-deviation estimator over the peak amplitudes of the accepted peaks")


def _curve_result(ex, st, env):
    return ex.alloc_arr(st, (M,), ex.fresh("curve", AR), "real", "fresh", tag="curve")


_ONE = f"count({_VW}) == 1"
MEAN_CURVE = Contract(qual=Q + "mean_curve", params=["self", "distribution"], defaults={"distribution": "lognormal"}, ghost=GHOST, make_inputs=_inputs(),
                      ensures=["len(result) == M",
                               f"implies({_ONE}, forall(c, 0, M, forall(r, 0, K, implies({_VW}[r], result[c] == self.amplitude[r, c]))))",
                               f"implies(not {_ONE}, forall(c, 0, M, result[c] == MEAN_ROWS(distribution, self.amplitude, {_VW}, c)))"],
                      modifies=[], make_result=_curve_result,
                      notes="a single accepted window is its own mean curve; otherwise the column-wise mean estimator over the accepted windows' rows")
STD_CURVE = Contract(qual=Q + "std_curve", params=["self", "distribution"], defaults={"distribution": "lognormal"}, ghost=GHOST, make_inputs=_inputs(),
                     ensures=["len(result) == M", f"forall(c, 0, M, result[c] == STD_ROWS(distribution, self.amplitude, {_VW}, c))"],
                     raises={"ValueError": f"count({_VW}) <= 1"}, modifies=[], make_result=_curve_result,
                     notes="column-wise standard-deviation estimator over the accepted windows' rows; undefined (ValueError) for fewer than two")

TASKS = [FunctionTask(PEAK_FRQS, clauses=["peak frequencies enter through the peak mask"]),
         FunctionTask(PEAK_AMPS, clauses=["peak amplitudes enter through the peak mask"])]
for c in (MEAN_FRQ, MEAN_AMP, STD_FRQ, STD_AMP):
    TASKS.append(FunctionTask(c, registry=PROPS, module_env=ENV, clauses=["resonance statistics read accepted peaks only"]))
for c in (MEAN_CURVE, STD_CURVE):
    TASKS.append(FunctionTask(c, registry=PROPS, module_env=ENV, clauses=["curve statistics read accepted windows only"]))

# ---------------------------------------------------------------- cov_fn: np.cov(g(frequencies), g(amplitudes), ddof=1) of the accepted peaks
for _sp in SPELLINGS:
    _g = (lambda t: t) if _sp == "normal" else (lambda t: f"log({t})")

    def _cov_ghost(ex, st, a, k, n_, _log=(_sp != "normal")):
        dx, dy, dm = ex.arr(st, a[0]), ex.arr(st, a[1]), ex.arr(st, a[2])
        f = (lambda d: ex.lam1(lambda i: LOG(ex.sel1(d, i)))) if _log else (lambda d: d.data)
        return COV_SEL(z3.simplify(f(dx)), z3.simplify(f(dy)), dm.data, dx.shape[0])
    TASKS.append(FunctionTask(
        Contract(qual=Q + "cov_fn", params=["self", "distribution"], ghost=dict(GHOST, COV=FuncV(_cov_ghost, "COV")), make_inputs=_inputs(_sp),
                 ensures=[f"result == COV({_PF}, {_PA}, {_VP})"], modifies=[],
                 notes="sample covariance (ddof=1) of the accepted peaks' frequencies and amplitudes, of their logarithms for the lognormal spellings"),
        registry=PROPS, module_env=ENV, label=Q + f"cov_fn[{_sp}]", clauses=["covariance over the accepted peaks"]))

# ---------------------------------------------------------------- +-n standard deviation accessors (callees by contract)
NTH = z3.Function("NTH_STD", R, I, R, R, R)       # _nth_std_factory(n, distribution, mean, std) on scalars; its closed forms: C05


def _nth_model(ex, st, args, kw, node):
    b = dict(zip(["n", "distribution", "mean", "std"], args))
    b.update(kw)
    mean, std, n, d = b["mean"], b["std"], lit(b["n"]), dcode(b["distribution"])
    if isinstance(mean, ARef) and isinstance(std, ARef):
        dm, ds = ex.arr(st, mean), ex.arr(st, std)
        ex.add_obl(f"safe[nth-same-length@{node.lineno}]", "safe", st, dm.shape[0] == ds.shape[0], node.lineno, "mean and std curves have the same length")
        return ex.alloc_arr(st, dm.shape, ex.lam1(lambda i: NTH(n, d, ex.sel1(dm, i), ex.sel1(ds, i))), "real", "fresh", tag="nth")
    return NTH(n, d, lit(mean), lit(std))


_METHODS = {"HvsrTraditional.mean_fn_frequency": MEAN_FRQ, "HvsrTraditional.mean_fn_amplitude": MEAN_AMP, "HvsrTraditional.std_fn_frequency": STD_FRQ,
            "HvsrTraditional.std_fn_amplitude": STD_AMP, "HvsrTraditional.mean_curve": MEAN_CURVE, "HvsrTraditional.std_curve": STD_CURVE}
_GN = dict(GHOST, NTH=FuncV(lambda ex, st, a, k, n_: NTH(lit(a[0]), dcode(a[1]), lit(a[2]), lit(a[3])), "NTH"))
for _nm, _vals in (("frequency", _PF), ("amplitude", _PA)):
    c = _scalar(f"nth_std_fn_{_nm}", f"NTH(n, distribution, MEAN_SEL(distribution, {_vals}, {_VP}), STD_SEL(distribution, {_vals}, {_VP}))", with_n=True,
                note="the +-n value of the distribution asked for, from the mean and the standard deviation of the same quantity and distribution")
    c.ghost = _GN
    TASKS.append(FunctionTask(c, registry=_METHODS, module_env=dict(ENV, _nth_std_factory=FuncV(_nth_model, "_nth_std_factory")),
                              clauses=["+-n values combine mean and standard deviation of the same quantity"]))
NTH_CURVE = Contract(qual=Q + "nth_std_curve", params=["self", "n", "distribution"], ghost=_GN, make_inputs=_inputs(None, True),
                     requires=[f"count({_VW}) > 1"],
                     ensures=["len(result) == M", f"forall(c, 0, M, result[c] == NTH(n, distribution, MEAN_ROWS(distribution, self.amplitude, {_VW}, c), "
                                                  f"STD_ROWS(distribution, self.amplitude, {_VW}, c)))"],
                     modifies=[], notes="the +-n curve, column by column, from the mean and standard-deviation curves of the accepted windows")
TASKS.append(FunctionTask(NTH_CURVE, registry=_METHODS, module_env=dict(ENV, _nth_std_factory=FuncV(_nth_model, "_nth_std_factory")),
                          clauses=["+-n curve combines the mean and standard-deviation curves"]))

ASSUMPTIONS = ["A-NP-MASK (a[mask] is the sub-sequence / the rows where mask is True, in order)",
               "the estimators are opaque functions of the selection they are handed in the accessor proofs (their formulas: the statistics.py contracts of C05)",
               "np.cov(x, y, ddof=1) opaque (A-NP-COV)"]
