"""C03 - one curve per window, in input order, independent of the other windows (hvsrpy/processing.py).

Under contract: check_nyquist_frequency (raises iff some centre frequency exceeds the Nyquist frequency of the given step).
The row bookkeeping of the three traditional_* drivers and prepare_records_with_inconsistent_dt are evaluated natively
(bounded/C03.py, exhaustive over all arrangements of <= 3 time steps over <= 4 recordings) - see DESIGN.md for why the
dictionary-with-float-keys bookkeeping is not yet inside the PyVC subset.
"""
import z3

from pyvc.core import I, R
from pyvc.contract import Contract, FunctionTask, sym_arr1
from pyvc import npmodel as npm

nc = z3.Int("nc")
dt = z3.Real("dt")


def _inputs(ex, st):
    st.env["dt"] = dt
    st.env["fcs"] = sym_arr1(ex, st, "fcs", nc)
    st.env["nc"] = nc
    return [nc >= 1]


CHECK_NYQUIST = Contract(
    qual="hvsrpy.processing.check_nyquist_frequency", params=["dt", "fcs"],
    requires=["dt > 0"],
    raises={"ValueError": "exists(c, 0, len(fcs), fcs[c] > 1/(2*dt))"},
    ensures=["forall(c, 0, len(fcs), fcs[c] <= 1/(2*dt))"],
    make_inputs=_inputs, modifies=[],
    notes="A-NP-MAX: max(fcs) bounds every element and is attained")

TASKS = [FunctionTask(CHECK_NYQUIST, clauses=["centre frequencies above Nyquist are refused"])]

META = dict(
    level="other",
    explanation="proved: row bookkeeping of traditional_hvsr_processing, traditional_single_azimuth_hvsr_processing and traditional_rotdpp_hvsr_processing, "
                "azimuthal_hvsr_processing = one single-azimuth result per azimuth with the caller's settings (row i = ratio from kept recording "
                "i alone, for every arrangement of time steps; numerical stages opaque, callees by contract); "
                "prepare_records_with_inconsistent_dt for the three policies (retained recordings = the subsequence with the smallest / a most "
                "frequent step, as the same objects in original order; dictionary = step -> count), check_nyquist_frequency raises ValueError iff some "
                "centre frequency exceeds 1/(2 dt); bounded: the "
                "order / independence / policy clauses are evaluated natively for every arrangement of <=3 time steps over 1-4 recordings, 4 "
                "methods x 3 policies, each row compared with the recording processed alone; Nyquist refusal for 11 arrangements x 6 frequencies",
    trusted_base=["A-REAL", "A-PY", "A-NP-MAX (max of an array bounds every element and is attained)", "PyVC engine + z3/cvc5"],
    assumptions=["A-REAL", "A-PY", "A-NP-MAX", "A-DICT", "A-INDUCTION (base/step lemmas proved, schema applied by hand)",
                 "A-COUNT-TOTAL: the counts of the distinct steps add up to the number of kept recordings (driver proofs)",
                 "A-SMOOTH-ROWWISE: each row of a smoothing operator's output is a function of the same input row, the frequency vectors and the bandwidth (C02 proves the row formula)",
                 "smoothed vertical spectra are non-zero (the real-number ratio is defined)",
                 "window / rfft / modulus / combination are uninterpreted array functions in the driver proofs (C01, C10, C18 hold their contracts)",
                 "HvsrTraditional(...) stores copies of the arrays it is given (constructor: C15 / C05)",
                 "np.percentile(M, p, axis=0)[j] depends only on column j of the rows of M (RotDpp)",
                 "settings constructors keep copies of dictionary arguments (C15 / fix F-12) - used in the azimuthal proof"],
)


# ---------------------------------------------------------------------------------------------------------------------
# prepare_records_with_inconsistent_dt: time-step bookkeeping (dictionary with float keys) and the three policies
from pyvc.core import StrV, Tup
from pyvc.contract import LemmaTask, sym_obj
from pyvc import objects
from pyvc.objects import fld, new_symlist

L = z3.Int("L")
RECS = z3.Const("record_ids", z3.ArraySort(I, I))


def DT(i):
    """time step of record i (its ns component), as the code reads it"""
    return fld("TimeSeries", "dt_in_seconds", R)(fld("SeismicRecording3C", "ns", I)(z3.Select(RECS, i)))


CNT = z3.Function("CNT", R, I, I)       # CNT(d, i) = number of records j < i with time step d
d_, i_, j_ = z3.Real("d!c"), z3.Int("i!c"), z3.Int("j!c")
AX_CNT = [
    z3.ForAll([d_], CNT(d_, 0) == 0, patterns=[CNT(d_, 0)]),
    z3.ForAll([d_, i_], z3.Implies(i_ >= 0, CNT(d_, i_ + 1) == CNT(d_, i_) + z3.If(DT(i_) == d_, 1, 0)), patterns=[CNT(d_, i_ + 1)]),
    # monotonicity and range of the counting function: consequences of the unfolding by induction on the index (base/step lemmas below;
    # the induction schema itself is applied by hand: A-INDUCTION)
    z3.ForAll([d_, i_, j_], z3.Implies(z3.And(0 <= i_, i_ <= j_), CNT(d_, i_) <= CNT(d_, j_)), patterns=[z3.MultiPattern(CNT(d_, i_), CNT(d_, j_))]),
    z3.ForAll([d_, i_], z3.Implies(i_ >= 0, z3.And(CNT(d_, i_) >= 0, CNT(d_, i_) <= i_)), patterns=[CNT(d_, i_)]),
    # strictness: a recording with step d is counted (base: unfolding at i; step: monotonicity)
    z3.ForAll([d_, i_, j_], z3.Implies(z3.And(i_ >= 0, i_ < j_, DT(i_) == d_), CNT(d_, i_) < CNT(d_, j_)), patterns=[z3.MultiPattern(CNT(d_, i_), CNT(d_, j_))]),
]
CNT_LEMMAS = [
    LemmaTask("cnt-strict[base]", AX_CNT[:2] + [i_ >= 0, DT(i_) == d_], CNT(d_, i_) < CNT(d_, i_ + 1), "a recording with step d increases the count"),
    LemmaTask("cnt-strict[step]", AX_CNT[:3] + [i_ >= 0, j_ > i_, CNT(d_, i_) < CNT(d_, j_)], CNT(d_, i_) < CNT(d_, j_ + 1), "strictness is kept by monotonicity"),
    LemmaTask("cnt-monotone[step]", AX_CNT[:2] + [i_ >= 0, j_ >= i_, CNT(d_, i_) <= CNT(d_, j_)], CNT(d_, i_) <= CNT(d_, j_ + 1), "CNT(d,i) <= CNT(d,j) ==> CNT(d,i) <= CNT(d,j+1)"),
    LemmaTask("cnt-range[step]", AX_CNT[:2] + [i_ >= 0, CNT(d_, i_) >= 0, CNT(d_, i_) <= i_], z3.And(CNT(d_, i_ + 1) >= 0, CNT(d_, i_ + 1) <= i_ + 1), "0 <= CNT(d,i) <= i"),
]


def _prep_inputs(policy):
    def mk(ex, st):
        st.env["records"] = new_symlist(ex, st, "SeismicRecording3C", length=L, arr=RECS, owner="param:records", name="records")
        st.env["settings"] = sym_obj(ex, st, "Settings", {"handle_dissimilar_time_steps_by": StrV(policy)}, owner="param:settings")
        st.env["L"] = L
        k = z3.Int("k!dt")
        return [L >= 1, z3.ForAll([k], DT(k) > 0, patterns=[DT(k)])]
    return mk


COUNT_INV = [
    # the dictionary holds exactly the distinct time steps seen so far, each with its count
    "forall_real(d, implies(not dt_with_count_has(d), CNT(d, _k0) == 0))",
    "forall_real(d, implies(dt_with_count_has(d), dt_with_count_val(d) == CNT(d, _k0) and CNT(d, _k0) >= 1))",
    "dt_with_count_wf()",
    "forall(t, 0, dt_with_count_nk(), dt_with_count_val(dt_with_count_key(t)) >= 1)",
    "_k0 == 0 or dt_with_count_nk() >= 1",
]


def _dict_ghosts(name):
    """spec-level accessors of the symbolic dictionary held in local `name` (evaluated in the current state)"""
    from pyvc.core import FuncV

    def has(ex, st, args, kw, node):
        return z3.Select(st.heap[st.env[name].sid].has, args[0])

    def val(ex, st, args, kw, node):
        return z3.Select(st.heap[st.env[name].sid].val, args[0])

    def key(ex, st, args, kw, node):
        return z3.Select(st.heap[st.env[name].sid].keys, args[0])

    def nk(ex, st, args, kw, node):
        return st.heap[st.env[name].sid].nk

    def wf(ex, st, args, kw, node):
        return z3.And(*objects.symdict_wf(st.heap[st.env[name].sid]))
    return {f"{name}_has": FuncV(has), f"{name}_val": FuncV(val), f"{name}_key": FuncV(key), f"{name}_nk": FuncV(nk), f"{name}_wf": FuncV(wf)}


def _res_dict_ghosts():
    """accessors of the dictionary returned as result[1]"""
    from pyvc.core import FuncV

    def mk(field):
        def f(ex, st, args, kw, node):
            dd = st.heap[st.env["result"][1].sid]
            if field == "nk":
                return dd.nk
            if field == "wf":
                return z3.And(*objects.symdict_wf(dd))
            return z3.Select(getattr(dd, field), args[0])
        return FuncV(f)
    return {"res_has": mk("has"), "res_val": mk("val"), "res_key": mk("keys"), "res_nk": mk("nk"), "res_wf": mk("wf")}


GH = {"DT": lambda i: DT(i), "CNT": CNT}
GH.update(_dict_ghosts("dt_with_count"))
GH.update(_res_dict_ghosts())

def SUBSEQ(d):
    return [f"len(result[0]) == CNT({d}, L)",
            f"forall(i, 0, L, implies(DT(i) == {d}, result[0][CNT({d}, i)] is records[i]))",
            f"res_nk() == 1 and res_key(0) == {d} and res_has({d})",
            f"res_val({d}) == CNT({d}, L)",
            # every retained recording has the kept step (so, counted over the returned list, the dictionary is again step -> count)
            f"forall(q, 0, len(result[0]), result[0][q].ns.dt_in_seconds == {d})"]


PREP = {
    "frequency_domain_resampling": Contract(
        qual="hvsrpy.processing.prepare_records_with_inconsistent_dt", params=["records", "settings"], ghost=GH,
        ensures=["result[0] is records",
                 "forall_real(d, res_has(d) == (CNT(d, L) >= 1))", "forall_real(d, implies(res_has(d), res_val(d) == CNT(d, L)))", "res_wf()"],
        loops={0: COUNT_INV}, sym_dicts=("dt_with_count",), axioms=AX_CNT, make_inputs=_prep_inputs("frequency_domain_resampling"), modifies=[]),
    "keeping_smallest_time_step": Contract(
        qual="hvsrpy.processing.prepare_records_with_inconsistent_dt", params=["records", "settings"], ghost=GH,
        ensures=["forall_real(d, implies(CNT(d, L) >= 1, smallest_dt <= d))", "CNT(smallest_dt, L) >= 1"] + SUBSEQ("smallest_dt"),
        loops={0: COUNT_INV,
               1: ["count == CNT(smallest_dt, _k1)", "len(abbr_records) == count",
                   "forall(i, 0, _k1, implies(DT(i) == smallest_dt, abbr_records[CNT(smallest_dt, i)] is records[i]))",
                   "forall(q, 0, len(abbr_records), abbr_records[q].ns.dt_in_seconds == smallest_dt)"]},
        sym_dicts=("dt_with_count",), sym_lists={"abbr_records": "SeismicRecording3C"}, axioms=AX_CNT, make_inputs=_prep_inputs("keeping_smallest_time_step"), modifies=[]),
    "keeping_majority_time_step": Contract(
        qual="hvsrpy.processing.prepare_records_with_inconsistent_dt", params=["records", "settings"], ghost=GH,
        ensures=["forall_real(d, CNT(d, L) <= CNT(majority_dt, L))", "CNT(majority_dt, L) >= 1"] + SUBSEQ("majority_dt"),
        loops={0: COUNT_INV,
               2: ["majority_count >= 0", "_k2 > 0 or majority_count == 0",
                   "forall(t, 0, _k2, dt_with_count_val(dt_with_count_key(t)) <= majority_count)",
                   "_k2 == 0 or (majority_count >= 1 and dt_with_count_has(majority_dt) and dt_with_count_val(majority_dt) == majority_count)"],
               3: ["count == CNT(majority_dt, _k3)", "len(abbr_records) == count",
                   "forall(i, 0, _k3, implies(DT(i) == majority_dt, abbr_records[CNT(majority_dt, i)] is records[i]))",
                   "forall(q, 0, len(abbr_records), abbr_records[q].ns.dt_in_seconds == majority_dt)"]},
        sym_dicts=("dt_with_count",), sym_lists={"abbr_records": "SeismicRecording3C"}, axioms=AX_CNT, make_inputs=_prep_inputs("keeping_majority_time_step"), modifies=[]),
}
for _pol, _c in PREP.items():
    TASKS.append(FunctionTask(_c, label=f"hvsrpy.processing.prepare_records_with_inconsistent_dt[{_pol}]",
                              clauses=["the retained recordings are exactly those with the smallest / a most frequent step, in original order; dictionary = step -> count"]))
TASKS += CNT_LEMMAS


# ---------------------------------------------------------------------------------------------------------------------
# traditional_hvsr_processing: row bookkeeping of the driver (groups of equal time step, reordering to input order).  The numerical
# stages are opaque array-valued functions of the recording (window, FFT, |.|, combination, smoothing: contracts C01 / C02 / C10); what is
# proved is that row i of the result is the ratio computed from recording i alone, for every arrangement of time steps.
from pyvc.core import FuncV, ModV, DictV, ARef, ORef, ArrData, A2, B as _B
from pyvc.objects import SDRef, SymDictData, SObj

AR = z3.ArraySort(I, R)
LL = z3.Int("LL")                                   # number of recordings after prepare_records_with_inconsistent_dt
RR = z3.Const("kept_record_ids", z3.ArraySort(I, I))
NC = z3.Int("n_center_frequencies")
FCS = z3.Const("fcs", AR)
NFFT = z3.Int("n_fft")
WIDTH, BW = z3.Reals("window_width bandwidth")
DH, DV, DK, DN = z3.Const("dt_has", z3.ArraySort(R, _B)), z3.Const("dt_count", z3.ArraySort(R, I)), z3.Const("dt_keys", z3.ArraySort(I, R)), z3.Int("dt_nkeys")

TSAMP = objects.arr_term("TimeSeries", "amplitude")  # samples of a time series (by object id)
TSLEN = objects.fld("TimeSeries", "amplitude_len", I)
WIN = z3.Function("WIN", AR, I, R, AR)              # window(type, width) applied to samples of a given length
RFFT = z3.Function("RFFT", AR, I, I, AR)            # rfft(samples, n) (complex spectrum, opaque)
ABSA = z3.Function("ABSA", AR, AR)                  # element-wise modulus
COMB = z3.Function("COMB", AR, AR, AR)              # the selected horizontal combination (element-wise; contracts C01)
FRQ = z3.Function("FRQ", I, R, AR)                  # np.fft.rfftfreq(n, dt)
SMF = z3.Function("SMF", AR, AR, I, R)              # smoothing operator: (fft frequencies, one raw row, centre-frequency index) -> value (C02)
KI = z3.Function("KI", R, I)                        # position of a time step in the dictionary's key order
OFF = z3.Function("OFF", I, I)                      # number of recordings in the groups before group t


def _comp(rid, comp):
    return objects.fld("SeismicRecording3C", comp, I)(rid)


def DT2(i):
    return objects.fld("TimeSeries", "dt_in_seconds", R)(_comp(z3.Select(RR, i), "ns"))


def _spec(tsid):
    return ABSA(RFFT(WIN(TSAMP(tsid), TSLEN(tsid), WIDTH), TSLEN(tsid), NFFT))


def HROW(rid):
    return COMB(_spec(_comp(rid, "ns")), _spec(_comp(rid, "ew")))


def VROW(rid):
    return _spec(_comp(rid, "vt"))


def RATIO(i, j):
    rid = z3.Select(RR, i)
    return SMF(FRQ(NFFT, DT2(i)), HROW(rid), j) / SMF(FRQ(NFFT, DT2(i)), VROW(rid), j)


CNT2 = z3.Function("CNT2", R, I, I)
_t, _s = z3.Ints("t!o s!o")
_a, _b = z3.Consts("a!o b!o", AR)
AX_DRV = [
    # counting over the kept recordings (same definition and derived facts as CNT above)
    z3.ForAll([d_], CNT2(d_, 0) == 0, patterns=[CNT2(d_, 0)]),
    z3.ForAll([d_, i_], z3.Implies(i_ >= 0, CNT2(d_, i_ + 1) == CNT2(d_, i_) + z3.If(DT2(i_) == d_, 1, 0)), patterns=[CNT2(d_, i_ + 1)]),
    z3.ForAll([d_, i_, j_], z3.Implies(z3.And(0 <= i_, i_ <= j_), CNT2(d_, i_) <= CNT2(d_, j_)), patterns=[z3.MultiPattern(CNT2(d_, i_), CNT2(d_, j_))]),
    z3.ForAll([d_, i_], z3.Implies(i_ >= 0, z3.And(CNT2(d_, i_) >= 0, CNT2(d_, i_) <= i_)), patterns=[CNT2(d_, i_)]),
    # what prepare_records_with_inconsistent_dt guarantees about the dictionary it returns (its contract, for every policy)
    z3.ForAll([d_], z3.Select(DH, d_) == (CNT2(d_, LL) >= 1), patterns=[z3.Select(DH, d_)]),
    z3.ForAll([d_], z3.Implies(z3.Select(DH, d_), z3.Select(DV, d_) == CNT2(d_, LL)), patterns=[z3.Select(DV, d_)]),
    # key positions (skolem function of the well-formedness clause "every member is listed")
    z3.ForAll([d_], z3.Implies(z3.Select(DH, d_), z3.And(KI(d_) >= 0, KI(d_) < DN, z3.Select(DK, KI(d_)) == d_)), patterns=[KI(d_)]),
    # offsets of the groups: prefix sums of the counts in key order; monotone (base/step lemma below); total = number of recordings
    OFF(0) == 0,
    z3.ForAll([_t], z3.Implies(z3.And(_t >= 0, _t < DN), OFF(_t + 1) == OFF(_t) + z3.Select(DV, z3.Select(DK, _t))), patterns=[OFF(_t + 1)]),
    z3.ForAll([_s, _t], z3.Implies(z3.And(0 <= _s, _s <= _t, _t <= DN), OFF(_s) <= OFF(_t)), patterns=[z3.MultiPattern(OFF(_s), OFF(_t))]),
    OFF(DN) == LL,
    # derived facts (each proved from the clauses above by the lemma tasks below; stated here with the triggers the proof search needs)
    z3.ForAll([i_], z3.Implies(z3.And(i_ >= 0, i_ < LL), z3.Select(DH, DT2(i_))), patterns=[DT2(i_)]),
    z3.ForAll([d_, i_, j_], z3.Implies(z3.And(i_ >= 0, i_ < j_, DT2(i_) == d_), CNT2(d_, i_) < CNT2(d_, j_)), patterns=[z3.MultiPattern(CNT2(d_, i_), CNT2(d_, j_))]),
    z3.ForAll([_s, _t], z3.Implies(z3.And(_s >= 0, _s < _t, _t <= DN), OFF(_s) + z3.Select(DV, z3.Select(DK, _s)) <= OFF(_t)), patterns=[z3.MultiPattern(OFF(_s), OFF(_t))]),
    # every listed time step is the step of some kept recording (prepare_records_with_inconsistent_dt's contract), hence positive
    z3.ForAll([d_], z3.Implies(z3.Select(DH, d_), d_ > 0), patterns=[z3.Select(DH, d_)]),
    # the ratio is defined: smoothed vertical spectra are non-zero (in IEEE arithmetic a zero gives inf/NaN, in the reals nothing)
    z3.ForAll([_a, _b, i_], SMF(_a, _b, i_) != 0, patterns=[SMF(_a, _b, i_)]),
]


def _drv_inputs(method, operator):
    def mk(ex, st):
        st.env["records"] = new_symlist(ex, st, "SeismicRecording3C", length=z3.Int("L_in"), arr=z3.Const("input_record_ids", z3.ArraySort(I, I)), owner="param:records", name="records")
        fcs = ex.alloc_arr(st, (NC,), FCS, "real", "param:settings.smoothing.center_frequencies_in_hz", tag="fcs")
        st.env["settings"] = sym_obj(ex, st, "Settings", {
            "smoothing": DictV({"center_frequencies_in_hz": fcs, "operator": StrV(operator), "bandwidth": BW}),
            "fft_settings": NONE_, "window_type_and_width": Tup((StrV("tukey"), WIDTH)),
            "method_to_combine_horizontals": StrV(method), "attr_dict": DictV({}),
            "handle_dissimilar_time_steps_by": StrV("frequency_domain_resampling")}, owner="param:settings")
        st.env["LL"], st.env["NC"] = LL, NC
        k = z3.Int("k!dt")
        return [NC >= 1, NFFT >= 2, z3.ForAll([k], DT2(k) > 0, patterns=[DT2(k)])]
    return mk


from pyvc.core import NONE as NONE_


def _m_prepare_fft(ex, st, args, kw, node):
    st.heap[args[1].oid].fields["fft_settings"] = DictV({"n": NFFT})
    return NONE_


def _m_prepare_records(ex, st, args, kw, node):
    recs = new_symlist(ex, st, "SeismicRecording3C", length=LL, arr=RR, owner="param:records", name="kept_records")
    sid = ex.new_sid("dt_with_count")
    st.heap[sid] = SymDictData(DH, DV, DK, DN, "fresh")
    st.pc += [LL >= 1] + objects.symdict_wf(st.heap[sid])
    return Tup((recs, SDRef(sid)))


def _m_from_timeseries(ex, st, args, kw, node):
    ts = args[0]
    amp = ex.alloc_arr(st, (TSLEN(ts.id),), TSAMP(ts.id), "real", "fresh", tag="copy")
    st.pc.append(TSLEN(ts.id) >= 0)
    return ex.alloc_obj(st, "TimeSeries", {"amplitude": amp, "dt_in_seconds": objects.fld("TimeSeries", "dt_in_seconds", R)(ts.id)}, "fresh")


def _m_timeseries_ctor(ex, st, args, kw, node):
    """TimeSeries(amplitude, dt_in_seconds): the object owns a copy of the samples (contract: C18)"""
    d = ex.arr(st, args[0])
    dt_ = args[1] if len(args) > 1 else kw["dt_in_seconds"]
    amp = ex.alloc_arr(st, d.shape, d.data, "real", "fresh", tag="copy")
    return ex.alloc_obj(st, "TimeSeries", {"amplitude": amp, "dt_in_seconds": dt_}, "fresh")


def _m_window(ex, st, args, kw, node):
    ts = args[0]
    ref = st.heap[ts.oid].fields["amplitude"]
    d = st.heap[ref.sid]
    st.heap[ref.sid] = ArrData(d.shape, WIN(d.data, d.shape[0], z3.simplify(real_(args[2]))), d.elem, d.owner, d.view_of)
    return NONE_


from pyvc.core import real as real_


def _m_rfft(ex, st, args, kw, node):
    d = ex.arr(st, args[0])
    n = kw["n"]
    return ex.alloc_arr(st, (n / 2 + 1,), RFFT(d.data, d.shape[0], n), "real", "fresh", tag="rfft")


def _m_abs(ex, st, args, kw, node):
    d = ex.arr(st, args[0])
    return ex.alloc_arr(st, d.shape, ABSA(d.data), "real", "fresh", tag="abs")


def _m_comb(ex, st, args, kw, node):
    a, b = ex.arr(st, args[0]), ex.arr(st, args[1])
    return ex.alloc_arr(st, a.shape, COMB(a.data, b.data), "real", "fresh", tag="h")


def _m_rfftfreq(ex, st, args, kw, node):
    return ex.alloc_arr(st, (args[0] / 2 + 1,), FRQ(args[0], real_(args[1])), "real", "fresh", tag="fft_frq")


def _m_smooth(ex, st, args, kw, node):
    frq, raw, fcs = ex.arr(st, args[0]), ex.arr(st, args[1]), ex.arr(st, args[2])
    out = ex.fresh("smooth", A2(R))
    r, c = z3.Ints("r!sm c!sm")
    st.pc.append(z3.ForAll([r, c], z3.Select(z3.Select(out, r), c) == SMF(frq.data, z3.Select(raw.data, r), c), patterns=[z3.Select(z3.Select(out, r), c)]))
    return ex.alloc_arr(st, (raw.shape[0], fcs.shape[0]), out, "real", "fresh", tag="smooth")


def _m_hvsr_ctor(ex, st, args, kw, node):
    f, a = ex.arr(st, args[0]), ex.arr(st, args[1])
    return ex.alloc_obj(st, "HvsrTraditional", {"frequency": ex.alloc_arr(st, f.shape, f.data, "real", "fresh", tag="frequency"),
                                                "amplitude": ex.alloc_arr(st, a.shape, a.data, "real", "fresh", tag="amplitude"),
                                                "meta": kw.get("meta", NONE_)}, "fresh")


def _row_is(ex, st, args, kw, node):
    return z3.Select(st.heap[args[0].sid].data, args[1]) == args[2]


_METHODS = ("arithmetic_mean", "squared_average", "quadratic_mean", "root_mean_square", "effective_amplitude_spectrum", "geometric_mean",
            "total_horizontal_energy", "vector_summation", "maximum_horizontal_value")
_OPERATORS = ("konno_and_ohmachi", "parzen", "savitzky_and_golay", "linear_rectangular", "log_rectangular", "linear_triangular", "log_triangular")
_NP_DRV = ModV("np", dict(npm.NP.attrs, abs=FuncV(_m_abs, "np.abs"), fft=ModV("np.fft", {"rfftfreq": FuncV(_m_rfftfreq, "np.fft.rfftfreq")})))
DRV_ENV = {
    "prepare_fft_settings": FuncV(_m_prepare_fft, "prepare_fft_settings"),
    "prepare_records_with_inconsistent_dt": FuncV(_m_prepare_records, "prepare_records_with_inconsistent_dt"),
    "check_nyquist_frequency": CHECK_NYQUIST,
    "TimeSeries": FuncV(lambda ex, st, a, k, n_: _m_timeseries_ctor(ex, st, a, k, n_), "TimeSeries", attrs={"from_timeseries": FuncV(_m_from_timeseries, "TimeSeries.from_timeseries")}),
    "rfft": FuncV(_m_rfft, "rfft"), "np": _NP_DRV,
    "COMBINE_HORIZONTAL_REGISTER": DictV({k: FuncV(_m_comb, k) for k in _METHODS}),
    "SMOOTHING_OPERATORS": DictV({k: FuncV(_m_smooth, k) for k in _OPERATORS}),
    "HvsrTraditional": FuncV(_m_hvsr_ctor, "HvsrTraditional"),
}
GH_DRV = {"CNT2": CNT2, "DT2": lambda i: DT2(i), "OFF": OFF, "KI": KI, "RATIO": lambda i, j: RATIO(i, j), "RID": lambda i: z3.Select(RR, i),
          "HROW": lambda r: HROW(r), "VROW": lambda r: VROW(r), "row_is": FuncV(_row_is, "row_is")}
_ORD = "hvsr_indices_to_order"
_EARLIER = "KI(DT2(i)) < _k0"
_POS = "OFF(KI(DT2(i))) + CNT2(DT2(i), i)"
DRV = Contract(
    qual="hvsrpy.processing.traditional_hvsr_processing", params=["records", "settings"], ghost=GH_DRV, axioms=AX_DRV,
    make_inputs=_drv_inputs("geometric_mean", "konno_and_ohmachi"),
    raises_only_if={"ValueError": "exists(c, 0, NC, exists(i, 0, LL, settings.smoothing['center_frequencies_in_hz'][c] > 1 / (2 * DT2(i))))"},
    ensures=["len(result.frequency) == NC", "forall(c, 0, NC, result.frequency[c] == settings.smoothing['center_frequencies_in_hz'][c])",
             "result.amplitude.shape[0] == LL and result.amplitude.shape[1] == NC",
             "forall(i, 0, LL, forall(j, 0, NC, result.amplitude[i, j] == RATIO(i, j)))"],
    loops={0: ["hvsr_idx == OFF(_k0)", "cur_idx == OFF(_k0)",
               f"forall(i, 0, LL, implies({_EARLIER}, {_ORD}[i] == {_POS}))",
               f"forall(i, 0, LL, implies({_EARLIER}, forall(j, 0, NC, hvsr_spectra[{_POS}, j] == RATIO(i, j))))"],
           1: ["hor_idx == CNT2(dt, _k1)", "ver_idx == count + CNT2(dt, _k1)", "cur_idx == OFF(_k0) + CNT2(dt, _k1)",
               f"forall(i, 0, _k1, implies(DT2(i) == dt, {_ORD}[i] == OFF(_k0) + CNT2(dt, i)))",
               "forall(i, 0, _k1, implies(DT2(i) == dt, row_is(raw_spectra, CNT2(dt, i), HROW(RID(i))) and row_is(raw_spectra, count + CNT2(dt, i), VROW(RID(i)))))",
               f"forall(i, 0, LL, implies({_EARLIER}, {_ORD}[i] == {_POS}))"],
           2: ["True"]},          # the diagnostic print loop changes nothing
    stable_shapes=("raw_spectra", _ORD, "hvsr_spectra"), modifies=["param:settings"],
    notes="row i of the result = smoothed |FFT| ratio of kept recording i alone, for every arrangement of time steps over the recordings")
DRV.native_row_store = True

# traditional_single_azimuth_hvsr_processing: same bookkeeping, horizontal = single_azimuth(ns, ew, azimuth) in the time domain
SAZ = z3.Function("SAZ", AR, AR, R, AR)             # single_azimuth(ns, ew, degrees) (element-wise; contract C01)
AZ = z3.Real("azimuth_in_degrees")


def HROW_SA(rid):
    ns, ew = _comp(rid, "ns"), _comp(rid, "ew")
    return ABSA(RFFT(WIN(SAZ(TSAMP(ns), TSAMP(ew), AZ), TSLEN(ns), WIDTH), TSLEN(ns), NFFT))


def RATIO_SA(i, j):
    rid = z3.Select(RR, i)
    return SMF(FRQ(NFFT, DT2(i)), HROW_SA(rid), j) / SMF(FRQ(NFFT, DT2(i)), VROW(rid), j)


def _m_single_azimuth(ex, st, args, kw, node):
    a, b = ex.arr(st, args[0]), ex.arr(st, args[1])
    return ex.alloc_arr(st, a.shape, SAZ(a.data, b.data, real_(args[2])), "real", "fresh", tag="h")


def _drv_sa_inputs(ex, st):
    facts = _drv_inputs("single_azimuth", "konno_and_ohmachi")(ex, st)
    st.heap[st.env["settings"].oid].fields["azimuth_in_degrees"] = AZ
    return facts


GH_SA = dict(GH_DRV, RATIO=lambda i, j: RATIO_SA(i, j), HROW=lambda r: HROW_SA(r))
DRV_SA = Contract(
    qual="hvsrpy.processing.traditional_single_azimuth_hvsr_processing", params=["records", "settings"], ghost=GH_SA, axioms=AX_DRV,
    make_inputs=_drv_sa_inputs, raises_only_if=DRV.raises_only_if, ensures=DRV.ensures, loops={0: DRV.loops[0], 1: DRV.loops[1]},
    stable_shapes=DRV.stable_shapes, modifies=["param:settings"], notes=DRV.notes)
DRV_SA.native_row_store = True
DRV_SA.array_fields_as_terms = True
TASKS.append(FunctionTask(DRV_SA, module_env=dict(DRV_ENV, single_azimuth=FuncV(_m_single_azimuth, "single_azimuth")),
                          registry={"TimeSeries.window": FuncV(_m_window, "TimeSeries.window")},
                          label="hvsrpy.processing.traditional_single_azimuth_hvsr_processing[rows]",
                          clauses=["one curve per window, in input order, each computed from its own window only"]))
TASKS.append(FunctionTask(DRV, module_env=DRV_ENV, registry={"TimeSeries.window": FuncV(_m_window, "TimeSeries.window")},
                          label="hvsrpy.processing.traditional_hvsr_processing[rows]",
                          clauses=["one curve per window, in input order, each computed from its own window only"]))


# ---- the derived clauses of AX_DRV, each from the defining clauses (unfoldings, the dictionary's contract, well-formedness): base and step
# of the induction on the index (the schema itself: A-INDUCTION, applied by hand as for CNT above)
_DEF = AX_DRV[0:2] + AX_DRV[4:7] + AX_DRV[7:9]          # CNT2 unfoldings, dictionary contract, key positions, OFF unfoldings
_WF = objects.symdict_wf(SymDictData(DH, DV, DK, DN, "fresh"))
_i, _j, _d = z3.Int("i!L"), z3.Int("j!L"), z3.Real("d!L")
DRV_LEMMAS = [
    LemmaTask("cnt2-monotone[step]", _DEF + [_i >= 0, _j >= _i, CNT2(_d, _i) <= CNT2(_d, _j)], CNT2(_d, _i) <= CNT2(_d, _j + 1), "CNT2(d,i) <= CNT2(d,j) ==> CNT2(d,i) <= CNT2(d,j+1)"),
    LemmaTask("cnt2-range[step]", _DEF + [_i >= 0, CNT2(_d, _i) >= 0, CNT2(_d, _i) <= _i], z3.And(CNT2(_d, _i + 1) >= 0, CNT2(_d, _i + 1) <= _i + 1), "0 <= CNT2(d,i) <= i"),
    LemmaTask("every-step-is-listed", _DEF + [AX_DRV[2], _i >= 0, _i < LL], z3.And(CNT2(DT2(_i), _i + 1) >= 1, CNT2(DT2(_i), _i + 1) <= CNT2(DT2(_i), LL), z3.Select(DH, DT2(_i))),
              "the step of every kept recording is a key (unfold at i, monotone up to LL, dictionary contract)"),
    LemmaTask("cnt2-strict[base]", _DEF + [_i >= 0, DT2(_i) == _d], CNT2(_d, _i) < CNT2(_d, _i + 1), "a recording with step d increases the count"),
    LemmaTask("cnt2-strict[step]", _DEF + [AX_DRV[2], _i >= 0, _j > _i, CNT2(_d, _i) < CNT2(_d, _j)], CNT2(_d, _i) < CNT2(_d, _j + 1), "strictness is kept by monotonicity"),
    LemmaTask("off-monotone[step]", _DEF + _WF + [AX_DRV[3], _i >= 0, _i <= _j, _j < DN, OFF(_i) <= OFF(_j)], OFF(_i) <= OFF(_j + 1), "offsets are non-decreasing (counts of listed keys are >= 1)"),
    LemmaTask("off-strict[base]", _DEF + [_i >= 0, _i < DN], OFF(_i) + z3.Select(DV, z3.Select(DK, _i)) <= OFF(_i + 1), "group s ends where group s+1 starts"),
    LemmaTask("off-strict[step]", _DEF + _WF + [AX_DRV[3], _i >= 0, _i < _j, _j < DN, OFF(_i) + z3.Select(DV, z3.Select(DK, _i)) <= OFF(_j)],
              OFF(_i) + z3.Select(DV, z3.Select(DK, _i)) <= OFF(_j + 1), "and stays below every later offset"),
    LemmaTask("listed-step-positive[step]", _DEF + [_i >= 0, DT2(_i) > 0, CNT2(_d, _i + 1) >= 1, z3.Implies(CNT2(_d, _i) >= 1, _d > 0)], _d > 0,
              "a step counted at least once among positive steps is positive (induction on the index; base: CNT2(d,0) = 0)"),
]
TASKS += DRV_LEMMAS


# ---------------------------------------------------------------------------------------------------------------------
# azimuthal_hvsr_processing: one single-azimuth result per requested azimuth, in order, each computed with *that* azimuth and with the
# caller's window / smoothing / time-step policy / FFT settings.  The callee is the driver proved above, here the opaque function SAHV of
# the azimuth and of the settings it is handed (what it returns for them is DRV_SA's postcondition).
NA = z3.Int("n_azimuths")
AZS = z3.Const("azimuths_in_degrees", AR)
SAHV = z3.Function("SAHV", R, I, I)           # id of the HvsrTraditional returned for (azimuth, fingerprint of the other settings)
_FP_OK = z3.IntVal(1)


def _settings_fingerprint(st, s, caller):
    """1 iff the single-azimuth settings carry the caller's window, smoothing, time-step policy and the *same* fft_settings dictionary"""
    f, g = st.heap[s.oid].fields, st.heap[caller.oid].fields
    def eq(a, b):
        if a is b:
            return True
        if isinstance(a, DictV) and isinstance(b, DictV):
            return set(a.items) == set(b.items) and all(eq(a.items[k], b.items[k]) for k in a.items)
        if hasattr(a, "s") and hasattr(b, "s"):
            return a.s == b.s
        if isinstance(a, tuple) and isinstance(b, tuple):
            return len(a) == len(b) and all(eq(x, y) for x, y in zip(a, b))
        return z3.is_expr(a) and z3.is_expr(b) and a.eq(b)
    same = all(eq(f.get(k), g.get(k)) for k in ("window_type_and_width", "smoothing", "handle_dissimilar_time_steps_by")) \
        and f.get("fft_settings") is g.get("fft_settings")
    return z3.IntVal(1 if same else 0)


def _azi_inputs(ex, st):
    st.env["records"] = new_symlist(ex, st, "SeismicRecording3C", length=z3.Int("L_in"), arr=z3.Const("input_record_ids", z3.ArraySort(I, I)), owner="param:records", name="records")
    azs = ex.alloc_arr(st, (NA,), AZS, "real", "param:settings.azimuths_in_degrees", tag="azimuths")
    st.env["settings"] = sym_obj(ex, st, "Settings", {
        "smoothing": DictV({"operator": StrV("konno_and_ohmachi"), "bandwidth": BW}), "fft_settings": NONE_,
        "window_type_and_width": Tup((StrV("tukey"), WIDTH)), "handle_dissimilar_time_steps_by": StrV("frequency_domain_resampling"),
        "azimuths_in_degrees": azs, "attr_dict": DictV({})}, owner="param:settings")
    st.env["NA"] = NA
    st.env["__caller_settings"] = st.env["settings"]
    return [NA >= 1, z3.Int("L_in") >= 1]


def _m_sa_settings(ex, st, args, kw, node):
    """settings constructors keep copies of their mutable arguments (C15, fix F-12): a dictionary passed in is not the one stored"""
    return ex.alloc_obj(st, "Settings", {k: (DictV(dict(v.items)) if isinstance(v, DictV) else v) for k, v in kw.items()}, "fresh")


def _m_sa_driver(ex, st, args, kw, node):
    s = args[1]
    az = st.heap[s.oid].fields["azimuth_in_degrees"]
    return SObj("HvsrTraditional", SAHV(real_(az), _settings_fingerprint(st, s, st.env["__caller_settings"])), owner="fresh")


def _m_azimuthal_ctor(ex, st, args, kw, node):
    return ex.alloc_obj(st, "HvsrAzimuthal", {"hvsrs": args[0], "azimuths": args[1], "meta": kw.get("meta", NONE_)}, "fresh")


def _sa_settings_havoc(ex, st, v):
    """the loop assigns only .azimuth_in_degrees of the temporary settings object"""
    st.heap[v.oid].fields["azimuth_in_degrees"] = ex.fresh("azimuth", R)
    return v


AZI = Contract(
    qual="hvsrpy.processing.azimuthal_hvsr_processing", params=["records", "settings"],
    ghost={"SAHV": SAHV, "same_obj": FuncV(lambda ex, st, a, k, n_: a[0].id == a[1], "same_obj")},
    make_inputs=_azi_inputs, sym_lists={"hvsr_per_azimuth": "HvsrTraditional"}, obj_havoc={"single_azimuth_settings": _sa_settings_havoc},
    ensures=["len(result.hvsrs) == NA", "forall(a, 0, NA, same_obj(result.hvsrs[a], SAHV(settings.azimuths_in_degrees[a], 1)))",
             "result.azimuths is settings.azimuths_in_degrees"],
    loops={0: ["len(hvsr_per_azimuth) == _k0", "forall(a, 0, _k0, same_obj(hvsr_per_azimuth[a], SAHV(settings.azimuths_in_degrees[a], 1)))"]},
    modifies=["param:settings"], notes="one HvsrTraditional per azimuth, in order, each the single-azimuth result for that azimuth under the caller's other settings")
TASKS.append(FunctionTask(AZI, module_env={"prepare_fft_settings": FuncV(_m_prepare_fft, "prepare_fft_settings"),
                                           "HvsrTraditionalSingleAzimuthProcessingSettings": FuncV(_m_sa_settings, "HvsrTraditionalSingleAzimuthProcessingSettings"),
                                           "traditional_single_azimuth_hvsr_processing": FuncV(_m_sa_driver, "traditional_single_azimuth_hvsr_processing"),
                                           "HvsrAzimuthal": FuncV(_m_azimuthal_ctor, "HvsrAzimuthal")},
                          label="hvsrpy.processing.azimuthal_hvsr_processing[per-azimuth]",
                          clauses=["one single-azimuth result per azimuth, in order, with the caller's settings and FFT length"]))


# ---------------------------------------------------------------------------------------------------------------------
# traditional_rotdpp_hvsr_processing: per recording, the horizontals rotated through every azimuth, smoothed together with the vertical,
# the requested percentile over the azimuths taken per centre frequency, divided by the smoothed vertical; rows scattered / gathered as above.
AZS_RD = z3.Const("rotdpp_azimuths", AR)
PCTL = z3.Real("ppth_percentile")
A2R = A2(R)
PCT = z3.Function("PCT", A2R, I, R, I, R)          # percentile p over rows 0..n-1 of a matrix, at column j (np.percentile(., p, axis=0)[j])
SPECM = z3.Function("SPECM", I, A2R)               # per recording: row a = smoothed spectrum of the horizontals rotated to azimuth a


def HAZ(rid, a):
    ns, ew = _comp(rid, "ns"), _comp(rid, "ew")
    return ABSA(RFFT(WIN(SAZ(TSAMP(ns), TSAMP(ew), z3.Select(AZS_RD, a)), TSLEN(ns), WIDTH), TSLEN(ns), NFFT))


def RATIO_RD(i, j):
    rid = z3.Select(RR, i)
    return PCT(SPECM(rid), NA, PCTL, j) / SMF(FRQ(NFFT, DT2(i)), VROW(rid), j)


_S1, _S2 = z3.Consts("S1!p S2!p", A2R)
_aa, _jj, _nn, _rid = z3.Ints("a!p j!p n!p rid!p")
_pp = z3.Real("p!p")
AX_RD = AX_DRV + [
    # definition of the per-recording matrix of smoothed rotated spectra
    z3.ForAll([_rid, _aa, _jj], z3.Select(z3.Select(SPECM(_rid), _aa), _jj) ==
              SMF(FRQ(NFFT, objects.fld("TimeSeries", "dt_in_seconds", R)(_comp(_rid, "ns"))), HAZ(_rid, _aa), _jj),
              patterns=[z3.Select(z3.Select(SPECM(_rid), _aa), _jj)]),
    # the percentile at column j depends only on column j of the first n rows
    z3.ForAll([_S1, _S2, _nn, _pp, _jj],
              z3.Implies(z3.ForAll([_aa], z3.Implies(z3.And(_aa >= 0, _aa < _nn), z3.Select(z3.Select(_S1, _aa), _jj) == z3.Select(z3.Select(_S2, _aa), _jj))),
                         PCT(_S1, _nn, _pp, _jj) == PCT(_S2, _nn, _pp, _jj)),
              patterns=[z3.MultiPattern(PCT(_S1, _nn, _pp, _jj), PCT(_S2, _nn, _pp, _jj))]),
]


def _m_percentile(ex, st, args, kw, node):
    v = args[0]
    d = ex.arr(st, v)
    base = st.heap[d.view_of] if d.view_of is not None else d
    out = ex.fresh("percentile_row", AR)
    c = z3.Int("c!pc")
    st.pc.append(z3.ForAll([c], z3.Select(out, c) == PCT(base.data, d.shape[0], real_(args[1]), c), patterns=[z3.Select(out, c)]))
    return ex.alloc_arr(st, (d.shape[1],), out, "real", "fresh", tag="percentile")


def _m_smooth_named(ex, st, args, kw, node):
    """as _m_smooth, with the output as one constant (so that views of it keep a nameable base)"""
    return _m_smooth(ex, st, args, kw, node)


def _drv_rd_inputs(ex, st):
    facts = _drv_inputs("rotdpp", "konno_and_ohmachi")(ex, st)
    f = st.heap[st.env["settings"].oid].fields
    f["azimuths_in_degrees"] = ex.alloc_arr(st, (NA,), AZS_RD, "real", "param:settings.azimuths_in_degrees", tag="azimuths")
    f["ppth_percentile_for_rotdpp_computation"] = PCTL
    st.env["NA"] = NA
    return facts + [NA >= 1]


_NP_RD = ModV("np", dict(_NP_DRV.attrs, percentile=FuncV(_m_percentile, "np.percentile")))
GH_RD = dict(GH_DRV, RATIO=lambda i, j: RATIO_RD(i, j), HAZ=lambda r, a: HAZ(r, a))
_ROWOK = "forall(j, 0, NC, hvsr_spectra[{pos}, j] == RATIO(i, j))"
DRV_RD = Contract(
    qual="hvsrpy.processing.traditional_rotdpp_hvsr_processing", params=["records", "settings"], ghost=GH_RD, axioms=AX_RD,
    make_inputs=_drv_rd_inputs, raises_only_if=DRV.raises_only_if, ensures=DRV.ensures,
    loops={0: ["hvsr_idx == OFF(_k0)", "cur_idx == OFF(_k0)",
               f"forall(i, 0, LL, implies({_EARLIER}, {_ORD}[i] == {_POS}))",
               f"forall(i, 0, LL, implies({_EARLIER}, {_ROWOK.format(pos=_POS)}))"],
           1: ["hvsr_idx == OFF(_k0) + CNT2(dt, _k1)", "cur_idx == OFF(_k0) + CNT2(dt, _k1)",
               f"forall(i, 0, _k1, implies(DT2(i) == dt, {_ORD}[i] == OFF(_k0) + CNT2(dt, i)))",
               f"forall(i, 0, _k1, implies(DT2(i) == dt, {_ROWOK.format(pos='OFF(_k0) + CNT2(dt, i)')}))",
               f"forall(i, 0, LL, implies({_EARLIER}, {_ORD}[i] == {_POS}))",
               f"forall(i, 0, LL, implies({_EARLIER}, {_ROWOK.format(pos=_POS)}))"],
           2: ["forall(a, 0, _k2, row_is(raw_spectra_per_record, a, HAZ(RID(_k1), a)))", "row_is(raw_spectra_per_record, NA, VROW(RID(_k1)))"]},
    stable_shapes=("raw_spectra_per_record", _ORD, "hvsr_spectra"), modifies=["param:settings"],
    notes="row i of the result = percentile over the azimuths of the smoothed rotated horizontal spectra of kept recording i, over its smoothed vertical spectrum")
DRV_RD.native_row_store = True
DRV_RD.array_fields_as_terms = True
TASKS.append(FunctionTask(DRV_RD, module_env=dict(DRV_ENV, np=_NP_RD, single_azimuth=FuncV(_m_single_azimuth, "single_azimuth")),
                          registry={"TimeSeries.window": FuncV(_m_window, "TimeSeries.window")},
                          label="hvsrpy.processing.traditional_rotdpp_hvsr_processing[rows]",
                          clauses=["one curve per window, in input order, each computed from its own window only"]))


# ---------------------------------------------------------------------------------------------------------------------
# HvsrCurve._check_input (the validation every result object applies to its frequency vector and its amplitudes): a fresh double copy of the
# values when none is NaN and none is negative, ValueError otherwise - 'finite non-negative amplitudes' of the statement
from pyvc import npmodel as _npm
_nv = z3.Int("n_values")


def _ci_inputs(ex, st):
    from pyvc.contract import sym_arr1
    from pyvc.core import StrV
    st.env["value"] = sym_arr1(ex, st, "value", _nv)
    st.env["name"] = StrV("amplitude")
    st.env["_nv"] = _nv
    return [_nv >= 0]


CHECK_INPUT = Contract(
    qual="hvsrpy.hvsr_curve.HvsrCurve._check_input", params=["value", "name"], ghost={"isnan": lambda x: x == _npm.NAN}, make_inputs=_ci_inputs,
    ensures=["len(result) == _nv", "forall(i, 0, _nv, result[i] == old(value)[i])", "not (result is old(value))",
             "forall(i, 0, _nv, not isnan(result[i]) and result[i] >= 0)"],
    raises={"ValueError": "exists(i, 0, _nv, isnan(value[i]) or value[i] < 0)"}, modifies=[],
    notes="1-D float input; the TypeError path concerns input that cannot be cast and is outside the symbolic input. NaN is the distinguished constant of "
          "A-NAN: the contract requires the NaN test to come before the sign test (a comparison with NaN is not modelled)")
TASKS.append(FunctionTask(CHECK_INPUT, clauses=["finite non-negative amplitudes: anything else is refused"]))

# process(): the driver registered for the settings' processing method, called once with the caller's recordings (the caller's list, hence its order) and settings
import contracts.dispatch as _DISPATCH
TASKS += _DISPATCH.PROCESS_TASKS

# the constructors of the result objects (contracts/ctor_hvsr.py): row i of a result is curve i of what the driver hands over
import contracts.ctor_hvsr as _CTOR
TASKS += [t for t in _CTOR.TASKS if "HvsrTraditional.__init__" in t.label or "from_hvsr_curves" in t.label]
