"""C03 - one curve per window, in input order, independent of the other windows (hvsrpy/processing.py).

Under contract: check_nyquist_frequency (raises iff some centre frequency exceeds the Nyquist frequency of the given step).
The row bookkeeping of the three traditional_* drivers and prepare_records_with_inconsistent_dt are evaluated natively
(bounded/C03.py, exhaustive over all arrangements of <= 3 time steps over <= 4 recordings) - see DESIGN.md for why the
dictionary-with-float-keys bookkeeping is not yet inside the PyVC subset.
"""
import z3

from pyvc.core import I, R
from pyvc.contract import Contract, FunctionTask, sym_arr1
from pyvc import npmodel as npm

nc = z3.Int("nc")
dt = z3.Real("dt")


def _inputs(ex, st):
    st.env["dt"] = dt
    st.env["fcs"] = sym_arr1(ex, st, "fcs", nc)
    st.env["nc"] = nc
    return [nc >= 1]


CHECK_NYQUIST = Contract(
    qual="hvsrpy.processing.check_nyquist_frequency", params=["dt", "fcs"],
    requires=["dt > 0"],
    raises={"ValueError": "exists(c, 0, nc, fcs[c] > 1/(2*dt))"},
    ensures=["forall(c, 0, nc, fcs[c] <= 1/(2*dt))"],
    make_inputs=_inputs, modifies=[],
    notes="A-NP-MAX: max(fcs) bounds every element and is attained")

TASKS = [FunctionTask(CHECK_NYQUIST, clauses=["centre frequencies above Nyquist are refused"])]

META = dict(
    level="other",
    explanation="proved: prepare_records_with_inconsistent_dt for the three policies (retained recordings = the subsequence with the smallest / a most "
                "frequent step, as the same objects in original order; dictionary = step -> count), check_nyquist_frequency raises ValueError iff some "
                "centre frequency exceeds 1/(2 dt); bounded: the "
                "order / independence / policy clauses are evaluated natively for every arrangement of <=3 time steps over 1-4 recordings, 4 "
                "methods x 3 policies, each row compared with the recording processed alone; Nyquist refusal for 11 arrangements x 6 frequencies",
    trusted_base=["A-REAL", "A-PY", "A-NP-MAX (max of an array bounds every element and is attained)", "PyVC engine + z3/cvc5"],
    assumptions=["A-REAL", "A-PY", "A-NP-MAX", "A-DICT"],
)


# ---------------------------------------------------------------------------------------------------------------------
# prepare_records_with_inconsistent_dt: time-step bookkeeping (dictionary with float keys) and the three policies
from pyvc.core import StrV, Tup
from pyvc.contract import LemmaTask, sym_obj
from pyvc import objects
from pyvc.objects import fld, new_symlist

L = z3.Int("L")
RECS = z3.Const("record_ids", z3.ArraySort(I, I))


def DT(i):
    """time step of record i (its ns component), as the code reads it"""
    return fld("TimeSeries", "dt_in_seconds", R)(fld("SeismicRecording3C", "ns", I)(z3.Select(RECS, i)))


CNT = z3.Function("CNT", R, I, I)       # CNT(d, i) = number of records j < i with time step d
d_, i_, j_ = z3.Real("d!c"), z3.Int("i!c"), z3.Int("j!c")
AX_CNT = [
    z3.ForAll([d_], CNT(d_, 0) == 0, patterns=[CNT(d_, 0)]),
    z3.ForAll([d_, i_], z3.Implies(i_ >= 0, CNT(d_, i_ + 1) == CNT(d_, i_) + z3.If(DT(i_) == d_, 1, 0)), patterns=[CNT(d_, i_ + 1)]),
    # monotonicity and range of the counting function: consequences of the unfolding by induction on the index (base/step lemmas below;
    # the induction schema itself is applied by hand: A-INDUCTION)
    z3.ForAll([d_, i_, j_], z3.Implies(z3.And(0 <= i_, i_ <= j_), CNT(d_, i_) <= CNT(d_, j_)), patterns=[z3.MultiPattern(CNT(d_, i_), CNT(d_, j_))]),
    z3.ForAll([d_, i_], z3.Implies(i_ >= 0, z3.And(CNT(d_, i_) >= 0, CNT(d_, i_) <= i_)), patterns=[CNT(d_, i_)]),
]
CNT_LEMMAS = [
    LemmaTask("cnt-monotone[step]", AX_CNT[:2] + [i_ >= 0, j_ >= i_, CNT(d_, i_) <= CNT(d_, j_)], CNT(d_, i_) <= CNT(d_, j_ + 1), "CNT(d,i) <= CNT(d,j) ==> CNT(d,i) <= CNT(d,j+1)"),
    LemmaTask("cnt-range[step]", AX_CNT[:2] + [i_ >= 0, CNT(d_, i_) >= 0, CNT(d_, i_) <= i_], z3.And(CNT(d_, i_ + 1) >= 0, CNT(d_, i_ + 1) <= i_ + 1), "0 <= CNT(d,i) <= i"),
]


def _prep_inputs(policy):
    def mk(ex, st):
        st.env["records"] = new_symlist(ex, st, "SeismicRecording3C", length=L, arr=RECS, owner="param:records", name="records")
        st.env["settings"] = sym_obj(ex, st, "Settings", {"handle_dissimilar_time_steps_by": StrV(policy)}, owner="param:settings")
        st.env["L"] = L
        k = z3.Int("k!dt")
        return [L >= 1, z3.ForAll([k], DT(k) > 0, patterns=[DT(k)])]
    return mk


COUNT_INV = [
    # the dictionary holds exactly the distinct time steps seen so far, each with its count
    "forall_real(d, implies(not dt_with_count_has(d), CNT(d, _k0) == 0))",
    "forall_real(d, implies(dt_with_count_has(d), dt_with_count_val(d) == CNT(d, _k0) and CNT(d, _k0) >= 1))",
    "dt_with_count_wf()",
    "forall(t, 0, dt_with_count_nk(), dt_with_count_val(dt_with_count_key(t)) >= 1)",
]


def _dict_ghosts(name):
    """spec-level accessors of the symbolic dictionary held in local `name` (evaluated in the current state)"""
    from pyvc.core import FuncV

    def has(ex, st, args, kw, node):
        return z3.Select(st.heap[st.env[name].sid].has, args[0])

    def val(ex, st, args, kw, node):
        return z3.Select(st.heap[st.env[name].sid].val, args[0])

    def key(ex, st, args, kw, node):
        return z3.Select(st.heap[st.env[name].sid].keys, args[0])

    def nk(ex, st, args, kw, node):
        return st.heap[st.env[name].sid].nk

    def wf(ex, st, args, kw, node):
        return z3.And(*objects.symdict_wf(st.heap[st.env[name].sid]))
    return {f"{name}_has": FuncV(has), f"{name}_val": FuncV(val), f"{name}_key": FuncV(key), f"{name}_nk": FuncV(nk), f"{name}_wf": FuncV(wf)}


def _res_dict_ghosts():
    """accessors of the dictionary returned as result[1]"""
    from pyvc.core import FuncV

    def mk(field):
        def f(ex, st, args, kw, node):
            dd = st.heap[st.env["result"][1].sid]
            if field == "nk":
                return dd.nk
            if field == "wf":
                return z3.And(*objects.symdict_wf(dd))
            return z3.Select(getattr(dd, field), args[0])
        return FuncV(f)
    return {"res_has": mk("has"), "res_val": mk("val"), "res_key": mk("keys"), "res_nk": mk("nk"), "res_wf": mk("wf")}


GH = {"DT": lambda i: DT(i), "CNT": CNT}
GH.update(_dict_ghosts("dt_with_count"))
GH.update(_res_dict_ghosts())

def SUBSEQ(d):
    return [f"len(result[0]) == CNT({d}, L)",
            f"forall(i, 0, L, implies(DT(i) == {d}, result[0][CNT({d}, i)] is records[i]))",
            f"res_nk() == 1 and res_key(0) == {d} and res_has({d})",
            f"res_val({d}) == CNT({d}, L)"]


PREP = {
    "frequency_domain_resampling": Contract(
        qual="hvsrpy.processing.prepare_records_with_inconsistent_dt", params=["records", "settings"], ghost=GH,
        ensures=["result[0] is records",
                 "forall_real(d, res_has(d) == (CNT(d, L) >= 1))", "forall_real(d, implies(res_has(d), res_val(d) == CNT(d, L)))", "res_wf()"],
        loops={0: COUNT_INV}, sym_dicts=("dt_with_count",), axioms=AX_CNT, make_inputs=_prep_inputs("frequency_domain_resampling"), modifies=[]),
    "keeping_smallest_time_step": Contract(
        qual="hvsrpy.processing.prepare_records_with_inconsistent_dt", params=["records", "settings"], ghost=GH,
        ensures=["forall_real(d, implies(CNT(d, L) >= 1, smallest_dt <= d))", "CNT(smallest_dt, L) >= 1"] + SUBSEQ("smallest_dt"),
        loops={0: COUNT_INV,
               1: ["count == CNT(smallest_dt, _k1)", "len(abbr_records) == count",
                   "forall(i, 0, _k1, implies(DT(i) == smallest_dt, abbr_records[CNT(smallest_dt, i)] is records[i]))"]},
        sym_dicts=("dt_with_count",), sym_lists={"abbr_records": "SeismicRecording3C"}, axioms=AX_CNT, make_inputs=_prep_inputs("keeping_smallest_time_step"), modifies=[]),
    "keeping_majority_time_step": Contract(
        qual="hvsrpy.processing.prepare_records_with_inconsistent_dt", params=["records", "settings"], ghost=GH,
        ensures=["forall_real(d, CNT(d, L) <= CNT(majority_dt, L))", "CNT(majority_dt, L) >= 1"] + SUBSEQ("majority_dt"),
        loops={0: COUNT_INV,
               2: ["majority_count >= 0", "_k2 > 0 or majority_count == 0",
                   "forall(t, 0, _k2, dt_with_count_val(dt_with_count_key(t)) <= majority_count)",
                   "_k2 == 0 or (majority_count >= 1 and dt_with_count_has(majority_dt) and dt_with_count_val(majority_dt) == majority_count)"],
               3: ["count == CNT(majority_dt, _k3)", "len(abbr_records) == count",
                   "forall(i, 0, _k3, implies(DT(i) == majority_dt, abbr_records[CNT(majority_dt, i)] is records[i]))"]},
        sym_dicts=("dt_with_count",), sym_lists={"abbr_records": "SeismicRecording3C"}, axioms=AX_CNT, make_inputs=_prep_inputs("keeping_majority_time_step"), modifies=[]),
}
for _pol, _c in PREP.items():
    TASKS.append(FunctionTask(_c, label=f"hvsrpy.processing.prepare_records_with_inconsistent_dt[{_pol}]",
                              clauses=["the retained recordings are exactly those with the smallest / a most frequent step, in original order; dictionary = step -> count"]))
TASKS += CNT_LEMMAS
