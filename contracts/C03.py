"""C03 - one curve per window, in input order, independent of the other windows (hvsrpy/processing.py).

Under contract: check_nyquist_frequency (raises iff some centre frequency exceeds the Nyquist frequency of the given step).
The row bookkeeping of the three traditional_* drivers and prepare_records_with_inconsistent_dt are evaluated natively
(bounded/C03.py, exhaustive over all arrangements of <= 3 time steps over <= 4 recordings) - see DESIGN.md for why the
dictionary-with-float-keys bookkeeping is not yet inside the PyVC subset.
"""
import z3

from pyvc.core import I, R
from pyvc.contract import Contract, FunctionTask, sym_arr1
from pyvc import npmodel as npm

nc = z3.Int("nc")
dt = z3.Real("dt")


def _inputs(ex, st):
    st.env["dt"] = dt
    st.env["fcs"] = sym_arr1(ex, st, "fcs", nc)
    st.env["nc"] = nc
    return [nc >= 1]


CHECK_NYQUIST = Contract(
    qual="hvsrpy.processing.check_nyquist_frequency", params=["dt", "fcs"],
    requires=["dt > 0"],
    raises={"ValueError": "exists(c, 0, nc, fcs[c] > 1/(2*dt))"},
    ensures=["forall(c, 0, nc, fcs[c] <= 1/(2*dt))"],
    make_inputs=_inputs, modifies=[],
    notes="A-NP-MAX: max(fcs) bounds every element and is attained")

TASKS = [FunctionTask(CHECK_NYQUIST, clauses=["centre frequencies above Nyquist are refused"])]

META = dict(
    level="other",
    explanation="proved: check_nyquist_frequency raises ValueError iff some centre frequency exceeds 1/(2 dt) (for all vectors); bounded: the "
                "order / independence / policy clauses are evaluated natively for every arrangement of <=3 time steps over 1-4 recordings, 4 "
                "methods x 3 policies, each row compared with the recording processed alone; Nyquist refusal for 11 arrangements x 6 frequencies",
    trusted_base=["A-REAL", "A-PY", "A-NP-MAX (max of an array bounds every element and is attained)", "PyVC engine + z3/cvc5"],
    assumptions=["A-REAL", "A-PY", "A-NP-MAX", "A-DICT"],
)
