"""C15 - settings round-trip through files and are independent of one another (settings.py, object_io.py).

Structural obligations read from the AST of every settings constructor, of Settings.attr_dict / load and of the type-dispatching reader;
the file round trip itself (json) is external and evaluated natively (bounded/C15.py).
"""
import ast

from pyvc.contract import StructTask

CLASSES = ["Settings", "PreProcessingSettings", "HvsrPreProcessingSettings", "PsdPreProcessingSettings", "PsdProcessingSettings", "HvsrProcessingSettings",
           "HvsrTraditionalProcessingSettingsBase", "HvsrTraditionalProcessingSettings", "HvsrTraditionalSingleAzimuthProcessingSettings",
           "HvsrTraditionalRotDppProcessingSettings", "HvsrAzimuthalProcessingSettings", "HvsrDiffuseFieldProcessingSettings"]
# parameters whose values are immutable (numbers, strings, booleans, None): storing them by reference shares no mutable state
IMMUTABLE_PARAMS = {"hvsrpy_version", "orient_to_degrees_from_north", "window_length_in_seconds", "detrend", "ignore_dissimilar_time_step_warning",
                    "preprocessing_method", "processing_method", "differentiate", "handle_dissimilar_time_steps_by", "method_to_combine_horizontals",
                    "azimuth_in_degrees", "ppth_percentile_for_rotdpp_computation"}


def _is_copy(expr, param):
    """expr is deepcopy(...param...) or np.array(param): fresh at every level"""
    if isinstance(expr, ast.Call):
        name = ast.unparse(expr.func)
        if name in ("deepcopy", "copy.deepcopy"):
            return any(isinstance(x, ast.Name) and x.id == param for x in ast.walk(expr))
        if name in ("np.array",) and len(expr.args) == 1 and isinstance(expr.args[0], ast.Name) and expr.args[0].id == param:
            return True
    return False


def constructors(loader):
    src, tree = loader.load_module("hvsrpy.settings")
    classes = {n.name: n for n in tree.body if isinstance(n, ast.ClassDef)}
    out = []
    for cname in CLASSES:
        c = classes.get(cname)
        if c is None:
            out.append((f"{cname} exists", False, "class not found"))
            continue
        init = [m for m in c.body if isinstance(m, ast.FunctionDef) and m.name == "__init__"]
        if not init:
            out.append((f"{cname}.__init__ exists", False, ""))
            continue
        init = init[0]
        params = [a.arg for a in init.args.args[1:]]
        listed, assigned = [], {}
        for st in ast.walk(init):
            if isinstance(st, ast.Assign) and ast.unparse(st.targets[0]) == "self.attrs" and isinstance(st.value, ast.List):
                listed += [e.value for e in st.value.elts if isinstance(e, ast.Constant)]
            if isinstance(st, ast.Call) and ast.unparse(st.func) == "self.attrs.extend" and st.args and isinstance(st.args[0], ast.List):
                listed += [e.value for e in st.args[0].elts if isinstance(e, ast.Constant)]
            if isinstance(st, ast.Assign) and isinstance(st.targets[0], ast.Attribute) and ast.unparse(st.targets[0].value) == "self" \
                    and st.targets[0].attr != "attrs":
                assigned[st.targets[0].attr] = st.value
        out.append((f"{cname}: every name added to attrs is assigned", set(listed) <= set(assigned), str(sorted(set(listed) - set(assigned)))))
        out.append((f"{cname}: every public attribute assigned is listed in attrs (nothing silently not saved)",
                    {a for a in assigned if not a.startswith('_')} <= set(listed), str(sorted(set(assigned) - set(listed)))))
        out.append((f"{cname}: attrs lists no name twice", len(listed) == len(set(listed)), str(listed)))
        for attr, expr in assigned.items():
            used = [x.id for x in ast.walk(expr) if isinstance(x, ast.Name) and x.id in params]
            for p in used:
                if p in IMMUTABLE_PARAMS:
                    continue
                out.append((f"{cname}: self.{attr} stores a fresh copy of parameter `{p}` (no state shared with defaults, callers or other objects)",
                            _is_copy(expr, p), ast.unparse(expr)))
        # parameters handed to the base class constructor are copied there (checked for that class); all others must be stored here
        sup = [st for st in ast.walk(init) if isinstance(st, ast.Call) and ast.unparse(st.func) == "super().__init__"]
        passed = {k.arg for s_ in sup for k in s_.keywords}
        stored_params = {x.id for e in assigned.values() for x in ast.walk(e) if isinstance(x, ast.Name)}
        missing = [p for p in params if p not in passed and p not in stored_params]
        out.append((f"{cname}: every constructor argument is stored or passed to the base class", not missing, str(missing)))
    return out


def attr_dict_and_load(loader):
    fn, _ = loader.find("hvsrpy.settings.Settings.attr_dict")
    stores = [st for st in ast.walk(fn) if isinstance(st, ast.Assign) and ast.unparse(st.targets[0]) == "attr_dict[name]"]
    ok = len(stores) == 1 and isinstance(stores[0].value, ast.Call) and ast.unparse(stores[0].value.func) in ("deepcopy", "copy.deepcopy")
    out = [("attr_dict: every value handed out is a deep copy (the dictionary shares no mutable state with the object)", ok,
            "; ".join(ast.unparse(s_) for s_ in stores))]
    loop = [st for st in ast.walk(fn) if isinstance(st, ast.For)]
    out.append(("attr_dict: iterates over exactly self.attrs", any(ast.unparse(l.iter) == "self.attrs" for l in loop), ""))
    fn, _ = loader.find("hvsrpy.settings.Settings.load")
    loops = [st for st in ast.walk(fn) if isinstance(st, ast.For) and ast.unparse(st.iter).endswith(".items()")]
    ok = False
    for l in loops:
        tgt = ast.unparse(l.target).replace("(", "").replace(")", "")
        k, v = [x.strip() for x in tgt.split(",")] if "," in tgt else (None, None)
        ok |= any(isinstance(b, ast.Expr) and ast.unparse(b.value) == f"setattr(self, {k}, {v})" for b in l.body)     # directly in the loop body: unconditional
    loads = [st for st in ast.walk(fn) if isinstance(st, ast.Call) and ast.unparse(st.func) == "json.load"]
    out.append(("load: reads the file with json.load and assigns every key unconditionally (None included)", ok and len(loads) == 1, ast.unparse(fn)[-200:]))
    fn, _ = loader.find("hvsrpy.settings.Settings.save")
    dumps = [st for st in ast.walk(fn) if isinstance(st, ast.Call) and ast.unparse(st.func) == "json.dump"]
    out.append(("save: dumps self.attr_dict", len(dumps) == 1 and ast.unparse(dumps[0].args[0]) == "self.attr_dict", ast.unparse(fn)[-150:]))
    return out


def dispatch(loader):
    fn, _ = loader.find("hvsrpy.object_io.read_settings_object_from_file")
    table = []

    def walk(stmts, conds):
        for st in stmts:
            if isinstance(st, ast.If):
                walk(st.body, conds + [ast.unparse(st.test)])
                walk(st.orelse, conds + ["not " + ast.unparse(st.test)])
            elif isinstance(st, ast.Assign) and ast.unparse(st.targets[0]) == "settings_object":
                table.append((tuple(c for c in conds if not c.startswith("not ")), ast.unparse(st.value)))
    walk(fn.body, [])
    got = {(tuple(x.replace("attr_dict.keys()", "D").replace("attr_dict", "D") for x in c)): v for c, v in table}
    want = {
        ("'preprocessing_method' in D", "D['preprocessing_method'] == 'psd'"): "PsdPreProcessingSettings()",
        ("'preprocessing_method' in D", "D['preprocessing_method'] == 'hvsr'"): "HvsrPreProcessingSettings()",
        ("'processing_method' in D", "D['processing_method'] == 'psd'"): "PsdProcessingSettings()",
        ("'processing_method' in D", "D['processing_method'] == 'azimuthal'"): "HvsrAzimuthalProcessingSettings()",
        ("'processing_method' in D", "D['processing_method'] == 'diffuse_field'"): "HvsrDiffuseFieldProcessingSettings()",
        ("'processing_method' in D", "D['processing_method'] == 'traditional'", "D['method_to_combine_horizontals'] == 'rotdpp'"): "HvsrTraditionalRotDppProcessingSettings()",
        ("'processing_method' in D", "D['processing_method'] == 'traditional'", "D['method_to_combine_horizontals'] == 'single_azimuth'"): "HvsrTraditionalSingleAzimuthProcessingSettings()",
        ("'processing_method' in D", "D['processing_method'] == 'traditional'"): "HvsrTraditionalProcessingSettings()",
    }
    out = [(f"reader: {' and '.join(k)} -> {v}", got.get(k) == v, f"found {got.get(k)}") for k, v in want.items()]
    out.append(("reader: no other dispatch entries", set(got) == set(want), str(sorted(set(got) - set(want)))))
    tail = [ast.unparse(b) for b in fn.body[-2:]]
    out.append(("reader: the selected object then loads the file and is returned", tail == ["settings_object.load(fname)", "return settings_object"], str(tail)))
    return out


TASKS = [StructTask("constructors", constructors), StructTask("attr_dict-save-load", attr_dict_and_load, textual=True), StructTask("reader-dispatch", dispatch)]

META = dict(
    level="other",
    explanation="structural obligations on the AST: every settings constructor assigns exactly the attributes it lists in attrs, stores every mutable "
                "argument through deepcopy / np.array (fresh at every level: no state shared with default-argument objects, callers or other objects), "
                "passes or stores every argument; attr_dict hands out deep copies of exactly self.attrs; save dumps attr_dict; load assigns every key "
                "unconditionally; the reader's discriminator table maps to the eight classes; bounded: real save/load round trips of random legal "
                "attribute values for the 8 classes, (pre)processing with reloaded settings, cross-object / caller / default independence by mutation",
    trusted_base=["copy.deepcopy and np.array allocate fresh storage at every level", "json dump/load (bounded only)", "the AST pattern matcher"],
    assumptions=["A-JSON", "A-NP-ALLOC", "IMMUTABLE_PARAMS table (numbers/strings/booleans/None)"],
)
