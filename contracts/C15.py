"""C15 - settings round-trip through files and are independent of one another (settings.py, object_io.py).

Structural obligations read from the AST of every settings constructor, of Settings.attr_dict / load and of the type-dispatching reader;
the file round trip itself (json) is external and evaluated natively (bounded/C15.py).
"""
import ast

from pyvc.contract import StructTask

CLASSES = ["Settings", "PreProcessingSettings", "HvsrPreProcessingSettings", "PsdPreProcessingSettings", "PsdProcessingSettings", "HvsrProcessingSettings",
           "HvsrTraditionalProcessingSettingsBase", "HvsrTraditionalProcessingSettings", "HvsrTraditionalSingleAzimuthProcessingSettings",
           "HvsrTraditionalRotDppProcessingSettings", "HvsrAzimuthalProcessingSettings", "HvsrDiffuseFieldProcessingSettings"]
# parameters whose values are immutable (numbers, strings, booleans, None): storing them by reference shares no mutable state
IMMUTABLE_PARAMS = {"hvsrpy_version", "orient_to_degrees_from_north", "window_length_in_seconds", "detrend", "ignore_dissimilar_time_step_warning",
                    "preprocessing_method", "processing_method", "differentiate", "handle_dissimilar_time_steps_by", "method_to_combine_horizontals",
                    "azimuth_in_degrees", "ppth_percentile_for_rotdpp_computation"}


def _is_copy(expr, param):
    """expr is deepcopy(...param...) or np.array(param): fresh at every level"""
    if isinstance(expr, ast.Call):
        name = ast.unparse(expr.func)
        if name in ("deepcopy", "copy.deepcopy"):
            return any(isinstance(x, ast.Name) and x.id == param for x in ast.walk(expr))
        if name in ("np.array",) and len(expr.args) == 1 and isinstance(expr.args[0], ast.Name) and expr.args[0].id == param:
            return True
    return False


def constructors(loader):
    src, tree = loader.load_module("hvsrpy.settings")
    classes = {n.name: n for n in tree.body if isinstance(n, ast.ClassDef)}
    out = []
    for cname in CLASSES:
        c = classes.get(cname)
        if c is None:
            out.append((f"{cname} exists", False, "class not found"))
            continue
        init = [m for m in c.body if isinstance(m, ast.FunctionDef) and m.name == "__init__"]
        if not init:
            out.append((f"{cname}.__init__ exists", False, ""))
            continue
        init = init[0]
        params = [a.arg for a in init.args.args[1:]]
        listed, assigned = [], {}
        for st in ast.walk(init):
            if isinstance(st, ast.Assign) and ast.unparse(st.targets[0]) == "self.attrs" and isinstance(st.value, ast.List):
                listed += [e.value for e in st.value.elts if isinstance(e, ast.Constant)]
            if isinstance(st, ast.Call) and ast.unparse(st.func) == "self.attrs.extend" and st.args and isinstance(st.args[0], ast.List):
                listed += [e.value for e in st.args[0].elts if isinstance(e, ast.Constant)]
            if isinstance(st, ast.Assign) and isinstance(st.targets[0], ast.Attribute) and ast.unparse(st.targets[0].value) == "self" \
                    and st.targets[0].attr != "attrs":
                assigned[st.targets[0].attr] = st.value
        out.append((f"{cname}: every name added to attrs is assigned", set(listed) <= set(assigned), str(sorted(set(listed) - set(assigned)))))
        out.append((f"{cname}: every public attribute assigned is listed in attrs (nothing silently not saved)",
                    {a for a in assigned if not a.startswith('_')} <= set(listed), str(sorted(set(assigned) - set(listed)))))
        out.append((f"{cname}: attrs lists no name twice", len(listed) == len(set(listed)), str(listed)))
        for attr, expr in assigned.items():
            used = [x.id for x in ast.walk(expr) if isinstance(x, ast.Name) and x.id in params]
            for p in used:
                if p in IMMUTABLE_PARAMS:
                    continue
                out.append((f"{cname}: self.{attr} stores a fresh copy of parameter `{p}` (no state shared with defaults, callers or other objects)",
                            _is_copy(expr, p), ast.unparse(expr)))
        # parameters handed to the base class constructor are copied there (checked for that class); all others must be stored here
        sup = [st for st in ast.walk(init) if isinstance(st, ast.Call) and ast.unparse(st.func) == "super().__init__"]
        passed = {k.arg for s_ in sup for k in s_.keywords}
        stored_params = {x.id for e in assigned.values() for x in ast.walk(e) if isinstance(x, ast.Name)}
        missing = [p for p in params if p not in passed and p not in stored_params]
        out.append((f"{cname}: every constructor argument is stored or passed to the base class", not missing, str(missing)))
    return out


def attr_dict_and_load(loader):
    fn, _ = loader.find("hvsrpy.settings.Settings.attr_dict")
    stores = [st for st in ast.walk(fn) if isinstance(st, ast.Assign) and ast.unparse(st.targets[0]) == "attr_dict[name]"]
    ok = len(stores) == 1 and isinstance(stores[0].value, ast.Call) and ast.unparse(stores[0].value.func) in ("deepcopy", "copy.deepcopy")
    out = [("attr_dict: every value handed out is a deep copy (the dictionary shares no mutable state with the object)", ok,
            "; ".join(ast.unparse(s_) for s_ in stores))]
    loop = [st for st in ast.walk(fn) if isinstance(st, ast.For)]
    out.append(("attr_dict: iterates over exactly self.attrs", any(ast.unparse(l.iter) == "self.attrs" for l in loop), ""))
    fn, _ = loader.find("hvsrpy.settings.Settings.load")
    loops = [st for st in ast.walk(fn) if isinstance(st, ast.For) and ast.unparse(st.iter).endswith(".items()")]
    ok = False
    for l in loops:
        tgt = ast.unparse(l.target).replace("(", "").replace(")", "")
        k, v = [x.strip() for x in tgt.split(",")] if "," in tgt else (None, None)
        ok |= any(isinstance(b, ast.Expr) and ast.unparse(b.value) == f"setattr(self, {k}, {v})" for b in l.body)     # directly in the loop body: unconditional
    loads = [st for st in ast.walk(fn) if isinstance(st, ast.Call) and ast.unparse(st.func) == "json.load"]
    out.append(("load: reads the file with json.load and assigns every key unconditionally (None included)", ok and len(loads) == 1, ast.unparse(fn)[-200:]))
    fn, _ = loader.find("hvsrpy.settings.Settings.save")
    dumps = [st for st in ast.walk(fn) if isinstance(st, ast.Call) and ast.unparse(st.func) == "json.dump"]
    out.append(("save: dumps self.attr_dict", len(dumps) == 1 and ast.unparse(dumps[0].args[0]) == "self.attr_dict", ast.unparse(fn)[-150:]))
    return out


def dispatch(loader):
    fn, _ = loader.find("hvsrpy.object_io.read_settings_object_from_file")
    table = []

    def walk(stmts, conds):
        for st in stmts:
            if isinstance(st, ast.If):
                walk(st.body, conds + [ast.unparse(st.test)])
                walk(st.orelse, conds + ["not " + ast.unparse(st.test)])
            elif isinstance(st, ast.Assign) and ast.unparse(st.targets[0]) == "settings_object":
                table.append((tuple(c for c in conds if not c.startswith("not ")), ast.unparse(st.value)))
    walk(fn.body, [])
    got = {(tuple(x.replace("attr_dict.keys()", "D").replace("attr_dict", "D") for x in c)): v for c, v in table}
    want = {
        ("'preprocessing_method' in D", "D['preprocessing_method'] == 'psd'"): "PsdPreProcessingSettings()",
        ("'preprocessing_method' in D", "D['preprocessing_method'] == 'hvsr'"): "HvsrPreProcessingSettings()",
        ("'processing_method' in D", "D['processing_method'] == 'psd'"): "PsdProcessingSettings()",
        ("'processing_method' in D", "D['processing_method'] == 'azimuthal'"): "HvsrAzimuthalProcessingSettings()",
        ("'processing_method' in D", "D['processing_method'] == 'diffuse_field'"): "HvsrDiffuseFieldProcessingSettings()",
        ("'processing_method' in D", "D['processing_method'] == 'traditional'", "D['method_to_combine_horizontals'] == 'rotdpp'"): "HvsrTraditionalRotDppProcessingSettings()",
        ("'processing_method' in D", "D['processing_method'] == 'traditional'", "D['method_to_combine_horizontals'] == 'single_azimuth'"): "HvsrTraditionalSingleAzimuthProcessingSettings()",
        ("'processing_method' in D", "D['processing_method'] == 'traditional'"): "HvsrTraditionalProcessingSettings()",
    }
    out = [(f"reader: {' and '.join(k)} -> {v}", got.get(k) == v, f"found {got.get(k)}") for k, v in want.items()]
    out.append(("reader: no other dispatch entries", set(got) == set(want), str(sorted(set(got) - set(want)))))
    tail = [ast.unparse(b) for b in fn.body[-2:]]
    out.append(("reader: the selected object then loads the file and is returned", tail == ["settings_object.load(fname)", "return settings_object"], str(tail)))
    return out


# (all three are expectations about how the source is spelled - `deepcopy(x)` / `np.array(x)` on the right-hand side, the discriminator conditions of the reader: a mismatch is
# "undecided", the function contracts below - the twelve constructors on their bodies, the reader for twelve discriminator cases - and the native evaluation decide)
TASKS = [StructTask("constructors", constructors, textual=True), StructTask("attr_dict-save-load", attr_dict_and_load, textual=True), StructTask("reader-dispatch", dispatch, textual=True)]

# ---------------------------------------------------------------------------------------------------------------------
# the type-dispatching reader, Settings.save and Settings.load on the executed bodies (json / the file are opaque): which class is instantiated for which
# stored discriminator, that the object then loads the same file, that save hands json exactly attr_dict, and that load assigns every stored entry.
import z3
from pyvc.core import I, R, B, FuncV, ModV, DictV, StrV, Tup, NONE, ClsV, ORef, Undecided, lit
from pyvc.contract import Contract, FunctionTask, sym_obj

_CLASSES = ("PsdPreProcessingSettings", "HvsrPreProcessingSettings", "PsdProcessingSettings", "HvsrAzimuthalProcessingSettings", "HvsrDiffuseFieldProcessingSettings",
            "HvsrTraditionalRotDppProcessingSettings", "HvsrTraditionalSingleAzimuthProcessingSettings", "HvsrTraditionalProcessingSettings")


def _settings_cls(name):
    c = ClsV(name)
    c.ctor = lambda ex, st, a, k, n_, _n=name: ex.alloc_obj(st, _n, {"__loaded": NONE, "__defaults": z3.BoolVal(not a and not k)}, "fresh")
    return c


def _m_open15(ex, st, args, kw, node):
    return sym_obj(ex, st, "File", {"name": args[0], "mode": args[1]}, owner="fresh")


def _m_load_method(ex, st, args, kw, node):
    st.heap[args[0].oid].fields["__loaded"] = args[1]
    return NONE


def _reader_inputs(content):
    def mk(ex, st):
        st.env["fname"] = StrV("<fname>")
        st.env["__content"] = DictV({k: StrV(v) for k, v in content.items()})
        return []
    return mk


def _is_new(ex, st, a, k, n_):
    o, cls = a[0], a[1].s
    if not isinstance(o, ORef):
        return z3.BoolVal(False)
    d = st.heap[o.oid]
    return z3.And(z3.BoolVal(d.cls == cls and d.owner == "fresh" and d.fields["__loaded"] is st.env["fname"]), d.fields["__defaults"])


_READER_ENV = dict({c: _settings_cls(c) for c in _CLASSES}, open=FuncV(_m_open15, "open"),
                   json=ModV("json", {"load": FuncV(lambda ex, st, a, k, n_: st.env["__content"], "json.load")}))
_READER_REG = {f"{c}.load": FuncV(_m_load_method, "load") for c in _CLASSES}
_CASES = [({"preprocessing_method": "psd"}, "PsdPreProcessingSettings"), ({"preprocessing_method": "hvsr"}, "HvsrPreProcessingSettings"),
          ({"processing_method": "psd"}, "PsdProcessingSettings"), ({"processing_method": "azimuthal"}, "HvsrAzimuthalProcessingSettings"),
          ({"processing_method": "diffuse_field"}, "HvsrDiffuseFieldProcessingSettings"),
          ({"processing_method": "traditional", "method_to_combine_horizontals": "rotdpp"}, "HvsrTraditionalRotDppProcessingSettings"),
          ({"processing_method": "traditional", "method_to_combine_horizontals": "single_azimuth"}, "HvsrTraditionalSingleAzimuthProcessingSettings"),
          ({"processing_method": "traditional", "method_to_combine_horizontals": "geometric_mean"}, "HvsrTraditionalProcessingSettings"),
          ({"processing_method": "traditional", "method_to_combine_horizontals": "squared_average"}, "HvsrTraditionalProcessingSettings"),
          ({"preprocessing_method": "other"}, None), ({"processing_method": "other"}, None), ({"hvsrpy_version": "x"}, None)]
for _content, _cls in _CASES:
    _lab = ",".join(f"{k}={v}" for k, v in _content.items())
    if _cls is None:
        _c = Contract(qual="hvsrpy.object_io.read_settings_object_from_file", params=["fname"], make_inputs=_reader_inputs(_content), raises={"NotImplementedError": "True"},
                      ensures=[], modifies=[])
    else:
        _c = Contract(qual="hvsrpy.object_io.read_settings_object_from_file", params=["fname"], ghost={"is_new": FuncV(_is_new, "is_new")}, make_inputs=_reader_inputs(_content),
                      ensures=[f"is_new(result, '{_cls}')"], modifies=[],
                      notes="a new default-constructed object of the class the stored discriminator names, which then loads the same file")
    TASKS.append(FunctionTask(_c, module_env=_READER_ENV, registry=_READER_REG, label=f"hvsrpy.object_io.read_settings_object_from_file[{_lab}]",
                              clauses=["the dispatching reader yields an object of the class that was saved"]))


# Settings.save / Settings.load
def _m_dump15(ex, st, args, kw, node):
    st.env["__dumped"] = Tup((args[0], args[1]))
    return NONE


_ATTR_DICT = Contract(qual="hvsrpy.settings.Settings.attr_dict", params=["self"], ensures=[], modifies=[], is_property=True,
                      make_result=lambda ex, st, env: DictV({"<attr_dict of>": env["self"]}))


def _save_inputs15(ex, st):
    st.env["self"] = sym_obj(ex, st, "Settings", {}, owner="param:self")
    st.env["fname"] = StrV("<fname>")
    return []


SAVE15 = Contract(qual="hvsrpy.settings.Settings.save", params=["self", "fname"], make_inputs=_save_inputs15, modifies=[],
                  ghost={"dumped": FuncV(lambda ex, st, a, k, n_: z3.BoolVal(isinstance(st.env.get("__dumped"), Tup) and isinstance(st.env["__dumped"][0], DictV)
                                                                               and st.env["__dumped"][0].items.get("<attr_dict of>") is st.env["self"]
                                                                               and st.heap[st.env["__dumped"][1].oid].fields["name"] is st.env["fname"]
                                                                               and st.heap[st.env["__dumped"][1].oid].fields["mode"].s == "w"), "dumped")},
                  ensures=["dumped()"], notes="json.dump receives exactly self.attr_dict and the file opened for writing under the name given")
SAVE15.ghost_state = ("__dumped",)
TASKS.append(FunctionTask(SAVE15, module_env={"open": FuncV(_m_open15, "open"), "json": ModV("json", {"dump": FuncV(_m_dump15, "json.dump")})},
                          registry={"Settings.attr_dict": _ATTR_DICT}, clauses=["save writes the attribute dictionary"]))
V1, V2 = z3.Real("stored_value_1"), z3.Real("stored_value_2")


def _m_setattr(ex, st, args, kw, node):
    o, name, val = args
    if not isinstance(name, StrV) or name.s.startswith("<"):
        raise Undecided("setattr with a name that is not concrete")
    d = st.heap[o.oid]
    if d.owner != "fresh":
        st.writes.append((d.owner, f"{d.cls}.{name.s}", getattr(node, "lineno", 0)))
    d.fields[name.s] = val
    return NONE


def _m_items(ex, st, args, kw, node):
    return Tup(Tup((StrV(k), v)) for k, v in args[0].items.items())


def _load_inputs15(ex, st):
    st.env["self"] = sym_obj(ex, st, "Settings", {"alpha": z3.Real("old_alpha"), "beta": z3.Real("old_beta"), "gamma": z3.Real("old_gamma"), "delta": z3.Real("old_delta")}, owner="param:self")
    st.env["fname"] = StrV("<fname>")
    st.env["__content"] = DictV({"alpha": V1, "beta": V2, "nested": DictV({"k": V1}), "delta": NONE})
    return []


from pyvc import npmodel as _npm15
_npm15.DICT_METHODS.setdefault("items", _m_items)
LOAD15 = Contract(qual="hvsrpy.settings.Settings.load", params=["self", "fname"], make_inputs=_load_inputs15, modifies=["param:self"],
                  ghost={"V1": V1, "V2": V2, "is_content": FuncV(lambda ex, st, a, k, n_: z3.BoolVal(a[0] is st.env["__content"].items["nested"]), "is_content")},
                  ensures=["self.alpha == V1 and self.beta == V2", "is_content(self.nested)", "self.delta is None", "self.gamma == old(self.gamma)"],
                  notes="every entry of the stored dictionary (here two numbers, a nested dictionary and a null) becomes the attribute of that name; attributes the file does not "
                        "mention keep their value")
TASKS.append(FunctionTask(LOAD15, module_env={"open": FuncV(_m_open15, "open"), "json": ModV("json", {"load": FuncV(lambda ex, st, a, k, n_: st.env["__content"], "json.load")}),
                                               "setattr": FuncV(_m_setattr, "setattr")},
                          clauses=["load assigns every stored entry"]))

# ---------------------------------------------------------------- Settings.attr_dict on its executed body
# An object with five listed attributes of the kinds settings carry - a number, an array, a dictionary holding an array and a number, None, a list - and one
# attribute that is *not* listed.  The dictionary handed out has exactly the listed names in the listed order; numbers, None and lists as they are; arrays as
# lists of the same values; the nested dictionary entry by entry; and nothing in it is storage of the object (deep copy at every level).
from pyvc.core import ARef as _ARef, LRef as _LRef
NB, NK = z3.Int("n_beta"), z3.Int("n_k1")
BETA, K1 = z3.Const("beta_values", z3.ArraySort(z3.IntSort(), z3.RealSort())), z3.Const("k1_values", z3.ArraySort(z3.IntSort(), z3.RealSort()))
_LISTED = ["alpha", "beta", "gamma", "delta", "eps"]


def _attr_inputs(ex, st):
    beta = ex.alloc_arr(st, (NB,), BETA, "real", "param:self.beta", tag="beta")
    k1 = ex.alloc_arr(st, (NK,), K1, "real", "param:self.gamma.k1", tag="k1")
    eps = ex.alloc_list(st, [z3.Real("eps0"), z3.Real("eps1")], owner="param:self.eps")
    st.env["self"] = sym_obj(ex, st, "Settings", {"attrs": ex.alloc_list(st, [StrV(a) for a in _LISTED], owner="param:self.attrs"), "alpha": z3.Real("alpha"), "beta": beta,
                                                  "gamma": DictV({"k1": k1, "k2": z3.Real("k2")}), "delta": NONE, "eps": eps, "unlisted": z3.Real("unlisted")}, owner="param:self")
    st.env["__in"] = Tup((beta, k1, eps))
    return [NB >= 0, NK >= 0]


def _fresh_storage(ex, st, a, k, n_):
    """every array / list reachable from the result is storage allocated by the call (none of the object's own)"""
    own = {r.sid for r in st.env["__in"]}

    def walk(v):
        if isinstance(v, (_ARef, _LRef)):
            d = st.heap[v.sid]
            if v.sid in own or getattr(d, "owner", "fresh") != "fresh" or getattr(d, "view_of", None) in own:
                return False
            return all(walk(x) for x in d.items) if isinstance(v, _LRef) else True
        if isinstance(v, DictV):
            return all(walk(x) for x in v.items.values())
        if isinstance(v, Tup):
            return all(walk(x) for x in v)
        return True
    return z3.BoolVal(walk(a[0]))


ATTR_DICT = Contract(
    qual="hvsrpy.settings.Settings.attr_dict", params=["self"], make_inputs=_attr_inputs, is_property=True, modifies=[],
    ghost={"keys_are": FuncV(lambda ex, st, a, k, n_: z3.BoolVal(isinstance(a[0], DictV) and list(a[0].items) == _LISTED), "keys_are"),
           "fresh_storage": FuncV(_fresh_storage, "fresh_storage"), "BETA": lambda i: z3.Select(BETA, i), "K1": lambda i: z3.Select(K1, i), "NB": NB, "NK": NK,
           "is_list": FuncV(lambda ex, st, a, k, n_: z3.BoolVal(isinstance(a[0], _LRef) or (isinstance(a[0], _ARef) and st.heap[a[0].sid].pylist)), "is_list"),
           "is_dict": FuncV(lambda ex, st, a, k, n_: z3.BoolVal(isinstance(a[0], DictV) and list(a[0].items) == ["k1", "k2"]), "is_dict")},
    ensures=["keys_are(result)", "result['alpha'] == self.alpha", "is_list(result['beta']) and len(result['beta']) == NB and forall(i, 0, NB, result['beta'][i] == BETA(i))",
             "is_dict(result['gamma'])", "is_list(result['gamma']['k1']) and len(result['gamma']['k1']) == NK and forall(i, 0, NK, result['gamma']['k1'][i] == K1(i))", "result['gamma']['k2'] == self.gamma['k2']",
             "result['delta'] is None", "is_list(result['eps']) and len(result['eps']) == 2 and result['eps'][0] == self.eps[0] and result['eps'][1] == self.eps[1]", "fresh_storage(result)"],
    notes="exactly the listed attributes in the listed order (an attribute that is not listed is not handed out); arrays become lists of the same values, also inside a "
          "dictionary; numbers, None and lists keep their value; no array or list of the result is storage of the object")
TASKS.append(FunctionTask(ATTR_DICT, module_env={"deepcopy": _npm15.DEEPCOPY}, label="hvsrpy.settings.Settings.attr_dict[number, array, dict of array and number, None, list]",
                          clauses=["the saved dictionary holds every listed attribute by content and shares no storage with the object"]))

META = dict(
    level="other",
    explanation="structural obligations on the AST: every settings constructor assigns exactly the attributes it lists in attrs, stores every mutable "
                "argument through deepcopy / np.array (fresh at every level: no state shared with default-argument objects, callers or other objects), "
                "passes or stores every argument; attr_dict hands out deep copies of exactly self.attrs; save dumps attr_dict; load assigns every key "
                "unconditionally; the reader's discriminator table maps to the eight classes; bounded: real save/load round trips of random legal "
                "attribute values for the 8 classes, (pre)processing with reloaded settings, cross-object / caller / default independence by mutation",
    trusted_base=["copy.deepcopy and np.array allocate fresh storage at every level", "json dump/load (bounded only)", "the AST pattern matcher"],
    assumptions=["A-JSON", "A-NP-ALLOC", "IMMUTABLE_PARAMS table (numbers/strings/booleans/None)"],
)

# write_settings_object_to_file: the object's own save(), once, under the name given
def _wso_inputs(ex, st):
    st.env["settings_object"] = sym_obj(ex, st, "Settings", {}, owner="param:settings_object")
    st.env["fname"] = StrV("<fname>")
    st.env["__saved"] = Tup(())
    return []


_WSO = Contract(qual="hvsrpy.object_io.write_settings_object_to_file", params=["settings_object", "fname"], make_inputs=_wso_inputs, modifies=[],
                ghost={"saved_once": FuncV(lambda ex, st, a, k, n_: z3.BoolVal(len(st.env["__saved"]) == 1 and st.env["__saved"][0][0].oid == st.env["settings_object"].oid
                                                                                 and st.env["__saved"][0][1] is st.env["fname"]), "saved_once")},
                ensures=["saved_once()"], notes="exactly one save() of the object given, under the file name given")
_WSO.ghost_state = ("__saved",)
TASKS.append(FunctionTask(_WSO, registry={"Settings.save": FuncV(lambda ex, st, a, k, n_: (st.env.__setitem__("__saved", Tup(tuple(st.env["__saved"]) + (Tup((a[0], a[1])),))), NONE)[1], "Settings.save")},
                          label="hvsrpy.object_io.write_settings_object_to_file", clauses=["the writer saves the object it is given"]))

# ---------------------------------------------------------------------------------------------------------------------
# The twelve settings constructors on their executed bodies, base constructors inlined through super().__init__ (read from the same source).  Every parameter is
# given: numbers, strings and booleans as symbolic scalars; [a, b] lists, the smoothing dictionary (with its array of centre frequencies), the FFT dictionary and
# the azimuth array as mutable objects owned by the caller - the same objects a default argument would be, since Python builds a default once and shares it.
# Proved: attrs lists exactly the constructor's parameters, once each; attribute p holds the content of argument p; and no list, dictionary or array reachable
# from the new object is storage of an argument (so nothing is shared with the caller, with a default, or - through either - with another settings object).
import ast as _ast15
from pyvc import loader as _loader15
_SET_CLASSES = ("Settings", "PreProcessingSettings", "HvsrPreProcessingSettings", "PsdPreProcessingSettings", "PsdProcessingSettings", "HvsrProcessingSettings",
                "HvsrTraditionalProcessingSettingsBase", "HvsrTraditionalProcessingSettings", "HvsrTraditionalSingleAzimuthProcessingSettings",
                "HvsrTraditionalRotDppProcessingSettings", "HvsrAzimuthalProcessingSettings", "HvsrDiffuseFieldProcessingSettings")


def _ctor_params(cls):
    node, _ = _loader15.find(f"hvsrpy.settings.{cls}")
    init = [m for m in node.body if isinstance(m, _ast15.FunctionDef) and m.name == "__init__"][0]
    a = init.args
    names = [x.arg for x in a.args][1:]
    return list(zip(names, a.defaults))


def _sym_value(ex, st, name, default, fft_given):
    """a symbolic argument of the kind the default has"""
    owner = f"param:{name}"
    if isinstance(default, _ast15.List):
        items = [NONE if (isinstance(e_, _ast15.Constant) and e_.value is None) else (StrV(f"<{name}[{j}]>") if isinstance(e_, _ast15.Constant) and isinstance(e_.value, str)
                                                                                       else z3.Real(f"{name}_{j}")) for j, e_ in enumerate(default.elts)]
        return ex.alloc_list(st, items, owner=owner)
    if isinstance(default, _ast15.Call) and _ast15.unparse(default.func) == "dict":
        fc = ex.alloc_arr(st, (z3.Int("n_center_frequencies"),), z3.Const("center_frequencies", z3.ArraySort(z3.IntSort(), z3.RealSort())), "real", owner + ".center_frequencies_in_hz", tag="fcs")
        return DictV({"operator": StrV("<operator>"), "bandwidth": z3.Real("bandwidth"), "center_frequencies_in_hz": fc}, owner=owner)
    if isinstance(default, _ast15.Call) and _ast15.unparse(default.func).startswith("np."):
        return ex.alloc_arr(st, (z3.Int(f"n_{name}"),), z3.Const(name + "_values", z3.ArraySort(z3.IntSort(), z3.RealSort())), "real", owner, tag=name)
    if isinstance(default, _ast15.Constant) and default.value is None:
        if name == "fft_settings" and fft_given:
            return DictV({"n": z3.Int("fft_n")}, owner=owner)
        return NONE
    if isinstance(default, _ast15.Constant) and isinstance(default.value, bool):
        return z3.Bool(name)
    if isinstance(default, _ast15.Constant) and isinstance(default.value, str) or isinstance(default, _ast15.Name):
        return StrV(f"<{name}>")
    return z3.Real(name)


def _set_inputs(cls, fft_given):
    def mk(ex, st):
        st.env["self"] = sym_obj(ex, st, cls, {}, owner="param:self")
        given = {}
        for name, default in _ctor_params(cls):
            given[name] = st.env[name] = _sym_value(ex, st, name, default, fft_given)
        st.env["__given"] = given
        return [z3.Int("n_center_frequencies") >= 0, z3.Int("n_azimuths_in_degrees") >= 0]
    return mk


def _same_content_fresh(ex, st, got, want, fresh_needed=True):
    """got holds the content of want; every list / dictionary / array of got is fresh storage (none of want's)"""
    if isinstance(want, _ARef):
        if not isinstance(got, _ARef) or got.sid == want.sid:
            return False
        dg, dw = st.heap[got.sid], st.heap[want.sid]
        return dg.owner == "fresh" and dg.view_of is None and len(dg.shape) == len(dw.shape) and all(z3.eq(z3.simplify(a), z3.simplify(b)) for a, b in zip(dg.shape, dw.shape)) \
            and z3.eq(dg.data, dw.data)
    if isinstance(want, _LRef):
        if isinstance(got, _ARef):          # np.array(list): an array of the list's elements
            dg = st.heap[got.sid]
            items = st.heap[want.sid].items
            n = z3.simplify(dg.shape[0])
            return dg.owner == "fresh" and z3.is_int_value(n) and n.as_long() == len(items) and \
                all(z3.eq(z3.simplify(z3.Select(dg.data, j)), z3.simplify(_npm15.real(x))) for j, x in enumerate(items))
        if not isinstance(got, _LRef) or got.sid == want.sid:
            return False
        lg, lw = st.heap[got.sid], st.heap[want.sid]
        return lg.owner == "fresh" and len(lg.items) == len(lw.items) and all(_same_content_fresh(ex, st, a, b) for a, b in zip(lg.items, lw.items))
    if isinstance(want, DictV):
        return isinstance(got, DictV) and got is not want and list(got.items) == list(want.items) and all(_same_content_fresh(ex, st, got.items[k_], want.items[k_]) for k_ in want.items)
    if isinstance(want, StrV):
        return isinstance(got, StrV) and got.s == want.s
    if want is NONE:
        return got is NONE
    from pyvc.core import lit as _lit15, is_z3 as _isz3
    return _isz3(_lit15(got)) and z3.eq(_lit15(got), _lit15(want))


def _stored(ex, st, a, k, n_):
    f = st.heap[st.env["self"].oid].fields
    given = st.env["__given"]
    attrs = f.get("attrs")
    if not isinstance(attrs, _LRef):
        return z3.BoolVal(False)
    listed = [x.s for x in st.heap[attrs.sid].items if isinstance(x, StrV)]
    if sorted(listed) != sorted(given) or len(set(listed)) != len(listed):
        return z3.BoolVal(False)
    return z3.BoolVal(all(name in f and _same_content_fresh(ex, st, f[name], val) for name, val in given.items()))


def _m_np_array15(ex, st, args, kw, node):
    v = args[0]
    if isinstance(v, _ARef):
        d = ex.arr(st, v)
        return ex.alloc_arr(st, d.shape, d.data, d.elem, "fresh", tag="array")
    return _npm15.NP.attrs["array"].fn(ex, st, args, kw, node)


_SET_ENV = {"deepcopy": _npm15.DEEPCOPY, "__version__": StrV("<version>"), "np": ModV("np", dict(_npm15.NP.attrs, array=FuncV(_m_np_array15, "np.array")))}
for _cls in _SET_CLASSES:
    _has_fft = any(nm == "fft_settings" for nm, _ in _ctor_params(_cls))
    for _fft in ((False, True) if _has_fft else (False,)):
        _c = Contract(qual=f"hvsrpy.settings.{_cls}.__init__", params=["self"] + [nm for nm, _ in _ctor_params(_cls)], ghost={"stored": FuncV(_stored, "stored")},
                      make_inputs=_set_inputs(_cls, _fft), ensures=["stored()"], modifies=["param:self"],
                      notes="attrs lists exactly the constructor's parameters; each attribute holds its argument's content; no list, dictionary or array of the object is "
                            "storage of an argument (base constructors inlined)")
        TASKS.append(FunctionTask(_c, module_env=_SET_ENV, label=f"hvsrpy.settings.{_cls}.__init__" + ("[fft_settings given]" if _fft else ""),
                                  clauses=["settings objects hold copies of what they are given: no state shared with callers, defaults or other objects"]))

# Settings.__eq__ (contracts/similar.py): equal iff the attribute dictionaries are - the comparison the round-trip clause of the harness does *not* rely on (it compares content
# attribute by attribute), put under contract for completeness
import contracts.similar as _SIM
TASKS += [t for t in _SIM.TASKS if ".settings." in t.label]
