"""The three dispatch functions under contract: process, traditional_hvsr_processing_base (processing.py) and preprocess (preprocessing.py).

Every one of them looks a key of the settings up in a module-level table and calls what it finds with the caller's two arguments.  The tables are decided
key by key on the AST (C01, C10: "TABLE[key] is function f"); here the tables are symbolic - entry k is the opaque function DRIVER(k, ., .) - and the
postcondition says: the result is what the entry *of the settings' key* returns for *the caller's* recordings and *the caller's* settings object, that entry
is called exactly once and no other entry is called at all.  That replaces the textual obligation "the body is spelled `return TABLE[key](records, settings)`"
(undecided on any harmless rewrite) by a semantic one (decided for any body).
"""
import z3

from pyvc.core import I, FuncV, DictV, StrV, ORef, Undecided
from pyvc.contract import Contract, FunctionTask, sym_obj

DRIVER = z3.Function("DRIVER", I, I, I, I)        # (code of the table entry, identity of the recordings argument, identity of the settings argument) -> result

PROCESSING = ("traditional", "azimuthal", "diffuse_field", "psd")
TRADITIONAL = ("arithmetic_mean", "squared_average", "quadratic_mean", "root_mean_square", "effective_amplitude_spectrum", "geometric_mean",
               "total_horizontal_energy", "vector_summation", "maximum_horizontal_value", "rotdpp", "single_azimuth", "directional_energy")
PREPROCESSING = ("hvsr", "psd")


def _ident(v):
    if isinstance(v, ORef):                            # identity of a heap object: its allocation number (a copy made by the body has another one)
        return z3.IntVal(int(v.oid.split("#")[1]))
    raise Undecided("a table entry is handed something other than the caller's objects")


def _entry(code):
    def f(ex, st, args, kw, node):
        if len(args) != 2 or kw:
            raise Undecided("a table entry is called with other than two positional arguments")
        st.env["__calls"] = z3.simplify(st.env["__calls"] + 1)
        st.env["__last"] = z3.IntVal(code)
        return DRIVER(z3.IntVal(code), _ident(args[0]), _ident(args[1]))
    return FuncV(f, f"entry{code}")


def _inputs(field, key):
    def mk(ex, st):
        st.env["records"] = sym_obj(ex, st, "Records", {}, owner="param:records")
        st.env["settings"] = sym_obj(ex, st, "Settings", {field: StrV(key)}, owner="param:settings")
        st.env["__calls"], st.env["__last"] = z3.IntVal(0), z3.IntVal(-1)
        return []
    return mk


def _ghost(keys):
    return {"DRIVER": FuncV(lambda ex, st, a, k, n_: DRIVER(z3.IntVal(keys.index(a[0].s)), _ident(a[1]), _ident(a[2])), "DRIVER"),
            "CALLS": FuncV(lambda ex, st, a, k, n_: st.env["__calls"], "CALLS"),
            "LAST": FuncV(lambda ex, st, a, k, n_: st.env["__last"], "LAST")}


def _tasks(qual, table, field, keys, clause):
    out = []
    for key in keys:
        c = Contract(qual=qual, params=["records", "settings"], ghost=_ghost(keys), make_inputs=_inputs(field, key),
                     ensures=[f"result == DRIVER('{key}', records, settings)", "CALLS() == 1", f"LAST() == {keys.index(key)}"], modifies=[],
                     notes=f"{table}[settings.{field}] is called once with the caller's recordings and the caller's settings object, and its result is returned as it is")
        c.ghost_state = ("__calls", "__last")
        env = {table: DictV({k: _entry(i) for i, k in enumerate(keys)})}
        out.append(FunctionTask(c, module_env=env, label=f"{qual}[{field}={key}]", clauses=[clause]))
    return out


PROCESS_TASKS = _tasks("hvsrpy.processing.process", "PROCESSING_METHODS", "processing_method", PROCESSING,
                       "process() returns what the driver registered for the settings' processing method returns for the caller's recordings and settings")
TRADITIONAL_TASKS = _tasks("hvsrpy.processing.traditional_hvsr_processing_base", "TRADITIONAL_PROCESSING_REGISTER", "method_to_combine_horizontals", TRADITIONAL,
                           "the traditional driver is the one registered for the settings' way of combining the horizontals")
PREPROCESS_TASKS = _tasks("hvsrpy.preprocessing.preprocess", "PREPROCESSING_METHODS", "preprocessing_method", PREPROCESSING,
                          "preprocess() returns what the routine registered for the settings' preprocessing method returns for the caller's recordings and settings")
TASKS = PROCESS_TASKS + TRADITIONAL_TASKS + PREPROCESS_TASKS
