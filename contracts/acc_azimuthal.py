"""Statistic accessors of HvsrAzimuthal under contract (hvsr_azimuthal.py): which values, selected by which mask, in which order, with which
weights, reach which estimator.

The per-azimuth results are a symbolic-length list of symbolic HvsrTraditional objects.  A statistic of the azimuthal object is the weighted
estimator (contracts/C11.py: _nanmean_weighted / _nanstd_weighted(denominator='cheng') with explicit weights) applied to the *concatenation over
the azimuths, in list order,* of a per-azimuth selection.  That concatenation is written BLOCKS(values, mask): block a is the sub-sequence of
values(hvsrs[a]) where mask(hvsrs[a]) is True (A-NP-MASK); the estimators are uninterpreted functions of (distribution, blocks, weights).
The weights are what _compute_statistical_weights returns (its own contract, C11: azimuth-major, n_a entries of 1/(A n_a) for azimuth a with
n_a = number of True entries of the *peak* mask) - the same block structure as the concatenation, which is why values and weights are aligned.
Proved here: the routing - fn statistics read peak vectors through the peak masks, curve statistics read column c of the amplitude rows through
the window masks, all azimuths in list order, the weights of _compute_statistical_weights, the distribution asked for, the Cheng denominator.
"""
import z3

from pyvc.core import I, R, B, A2, ARef, MaskedV, SeqV, FuncV, ModV, DictV, StrV, Tup, NONE, NoneV, Undecided, lit
from pyvc.contract import Contract, FunctionTask, sym_obj
from pyvc import npmodel as npm, objects
from pyvc.objects import new_symlist, SObj
from contracts.acc_traditional import dcode, DISTRIBUTION_MAP, SPELLINGS, NTH, _axis0

AR, AB = z3.ArraySort(I, R), z3.ArraySort(I, B)
H = z3.Int("n_hvsrs")
HV = z3.Const("hvsr_ids", z3.ArraySort(I, I))
M = z3.Int("n_frequencies")
DIST = z3.Int("distribution")
WTS = z3.Const("statistical_weights", AR)       # what self._compute_statistical_weights() returns for the (unchanged) object
NW = z3.Int("n_statistical_weights")

BLK = z3.ArraySort(I, AR)                        # azimuth -> values of that azimuth
BLKB = z3.ArraySort(I, AB)                       # azimuth -> mask of that azimuth
LEN = z3.ArraySort(I, I)                         # azimuth -> length of the vectors of that azimuth
WMEAN = z3.Function("WMEAN_BLOCKS", I, BLK, BLKB, LEN, I, AR, I, R)            # (distribution, values, masks, lengths, H, weights, n_weights)
WSTD = z3.Function("WSTD_BLOCKS", I, I, BLK, BLKB, LEN, I, AR, I, R)           # (distribution, denominator code, ...)
WCOV = z3.Function("WCOV_BLOCKS", BLK, BLK, BLKB, LEN, I, AR, I, I)            # np.cov(x, y, aweights=w): opaque 2x2 result (id)
DENOM = {"nist": 0, "cheng": 1}


class FlatV:
    """concatenation, in sequence order, of a symbolic sequence of selections (what _flatten_list / np.concatenate / np.array make of it)"""

    def __init__(self, seq, f=None):
        self.seq, self.f = seq, f      # f: optional element-wise function applied after the concatenation (np.log)


_a0 = z3.Int("a!blk")


def _blocks(ex, st, flat):
    """(values, masks, lengths) of the concatenation as functions of the azimuth index"""
    s2 = st.fork()
    s2.pc.append(z3.And(_a0 >= 0, _a0 < flat.seq.length))
    v = flat.seq.getter(ex, s2, _a0)
    if not isinstance(v, MaskedV):
        raise Undecided("the concatenated sequence does not consist of boolean-mask selections")
    dv, dm = ex.arr(s2, v.arr), ex.arr(s2, v.mask)
    if dv.rank != 1:
        raise Undecided("selection of rank 2 in a concatenation")
    data = dv.data
    if flat.f is not None:
        j = z3.Int("j!blk")
        data = z3.Lambda([j], flat.f(z3.Select(dv.data, j)))
    return (z3.Lambda([_a0], z3.simplify(data)), z3.Lambda([_a0], z3.simplify(dm.data)), z3.Lambda([_a0], z3.simplify(dv.shape[0])), flat.seq.length)


def _flatten_model(ex, st, args, kw, node):
    x = args[0]
    if not isinstance(x, SeqV):
        raise Undecided("_flatten_list / np.concatenate of something other than a symbolic sequence")
    return FlatV(x)


def _np_array(ex, st, args, kw, node):
    if isinstance(args[0], FlatV) and not kw:
        return args[0]
    return npm.NP.attrs["array"].fn(ex, st, args, kw, node)


def _np_log(ex, st, args, kw, node):
    if isinstance(args[0], FlatV) and args[0].f is None:
        return FlatV(args[0].seq, lambda t: npm.LOG(t))
    return npm.NP.attrs["log"].fn(ex, st, args, kw, node)


def _weights_of(ex, st, w):
    if not isinstance(w, ARef):
        raise Undecided("weights that are not an array")
    d = ex.arr(st, w)
    return d.data, d.shape[0]


def _estimator(kind):
    def f(ex, st, args, kw, node):
        names = ["distribution", "values", "weights", "mean_kwargs" if kind == "mean" else "std_kwargs"] + (["denominator"] if kind == "std" else [])
        b = dict(zip(names, args))
        b.update(kw)
        v = b.get("values")
        if not isinstance(v, FlatV) or v.f is not None:
            raise Undecided("the estimator is handed something other than a concatenation of selections")
        opts = b.get(names[3], NONE)
        if not (isinstance(opts, NoneV) or _axis0(opts)):       # axis=0 on a 1-D sample is the default reduction
            raise Undecided("estimator options the accessor contracts do not cover")
        vals, masks, lens, n = _blocks(ex, st, v)
        wd, wn = _weights_of(ex, st, b.get("weights"))
        d = dcode(b["distribution"])
        if kind == "mean":
            return WMEAN(d, vals, masks, lens, n, wd, wn)
        den = b.get("denominator", StrV("nist"))
        if not isinstance(den, StrV) or den.s not in DENOM:
            raise Undecided("denominator")
        return WSTD(d, z3.IntVal(DENOM[den.s]), vals, masks, lens, n, wd, wn)
    return FuncV(f, f"_nan{kind}_weighted")


def _cov_model(ex, st, args, kw, node):
    x, y = args
    if not (isinstance(x, FlatV) and isinstance(y, FlatV)) or set(kw) != {"aweights"}:
        raise Undecided("np.cov other than cov(concatenation, concatenation, aweights=w)")
    xv, xm, xl, n = _blocks(ex, st, x)
    yv, ym, yl, n2 = _blocks(ex, st, y)
    same = z3.ForAll([_a0], z3.Implies(z3.And(_a0 >= 0, _a0 < n), z3.And(z3.simplify(z3.Select(xm, _a0)) == z3.simplify(z3.Select(ym, _a0)),
                                                                        z3.simplify(z3.Select(xl, _a0)) == z3.simplify(z3.Select(yl, _a0)))))
    ex.add_obl(f"safe[cov-same-selection@{node.lineno}]", "safe", st, z3.And(same, n == n2), node.lineno, "both variables are selected by the same masks")
    wd, wn = _weights_of(ex, st, kw["aweights"])
    return WCOV(xv, yv, xm, xl, n, wd, wn)


NP = ModV("np", dict(npm.NP.attrs, array=FuncV(_np_array, "np.array"), concatenate=FuncV(_flatten_model, "np.concatenate"), log=FuncV(_np_log, "np.log"),
                     cov=FuncV(_cov_model, "np.cov")))
ENV = {"_nanmean_weighted": _estimator("mean"), "_nanstd_weighted": _estimator("std"), "_flatten_list": FuncV(_flatten_model, "_flatten_list"), "np": NP,
       "DISTRIBUTION_MAP": DISTRIBUTION_MAP}


# ---------------------------------------------------------------- callees by contract
def _sel_of(field, mask):
    """HvsrTraditional.<property> on a per-azimuth object: the selection of `field` by `mask` of that object (contract: acc_traditional.PROPS)"""
    def mk(ex, st, env):
        o = env["self"]
        return MaskedV(objects.sobj_getattr(ex, st, o, field), objects.sobj_getattr(ex, st, o, mask))
    return Contract(qual="hvsrpy.hvsr_traditional.HvsrTraditional." + {"_main_peak_frq": "peak_frequencies", "_main_peak_amp": "peak_amplitudes"}[field],
                    params=["self"], ensures=[], modifies=[], is_property=True, make_result=mk)


def _weights_call(ex, st, args, kw, node):
    """self._compute_statistical_weights(): one array per (unchanged) object state; its content is the contract WEIGHTS of C11"""
    return ex.alloc_arr(st, (NW,), WTS, "real", "fresh", tag="statistical_weights")


def _inputs(dist=None, with_n=False):
    def mk(ex, st):
        hv = new_symlist(ex, st, "HvsrTraditional", length=H, arr=HV, owner="param:self.hvsrs", name="hvsrs")
        st.env["self"] = sym_obj(ex, st, "HvsrAzimuthal", {"hvsrs": hv}, owner="param:self")
        st.env["distribution"] = DIST if dist is None else StrV(dist)
        if with_n:
            st.env["n"] = z3.Real("n")
        st.env["H"], st.env["M"] = H, M
        return [H >= 1, M >= 1, NW >= 0] + _wf()
    return mk


def _wf():
    """type invariant of the per-azimuth objects (what HvsrTraditional.__init__ establishes and HvsrAzimuthal.__init__ checks with is_similar): the per-window
    vectors and masks of an object have one entry per curve, its amplitude array one row per curve and one column per frequency of the common grid"""
    k = z3.Int("k!wf")
    h = z3.Select(HV, k)
    c = "HvsrTraditional"
    nc = objects.fld(c, "n_curves", I)(h)
    eqs = [objects.arr_len(c, f, h) == nc for f in ("_main_peak_frq", "_main_peak_amp", "valid_peak_boolean_mask", "valid_window_boolean_mask")]
    eqs += [objects.fld(c, "amplitude_rows", I)(h) == nc, objects.fld(c, "amplitude_cols", I)(h) == M, nc >= 0]
    return [z3.ForAll([k], z3.Implies(z3.And(k >= 0, k < H), z3.And(*eqs)), patterns=[z3.Select(HV, k)])]


Q = "hvsrpy.hvsr_azimuthal.HvsrAzimuthal."
TRAD_PROPS = {"HvsrTraditional.peak_frequencies": _sel_of("_main_peak_frq", "valid_peak_boolean_mask"),
              "HvsrTraditional.peak_amplitudes": _sel_of("_main_peak_amp", "valid_peak_boolean_mask")}


# ---------------------------------------------------------------- ghost vocabulary
def _spec_blocks(ex, st, field, mask, column=None, log=False):
    """the concatenation of the property statement: block a = `field` of hvsrs[a] (column `column` of it for the 2-D amplitude) selected by `mask`"""
    o = SObj("HvsrTraditional", z3.Select(HV, _a0), owner="param:self.hvsrs")
    s2 = st.fork()
    arr = objects.sobj_getattr(ex, s2, o, field)
    d = ex.arr(s2, arr)
    if column is not None:
        r = z3.Int("r!m")     # the bound name the engine uses for column views; any name gives an alpha-equivalent term
        data, n = z3.simplify(ex.lam1(lambda r_: ex.sel2(d, r_, column))), d.shape[0]
    else:
        data, n = d.data, d.shape[0]
    if log:
        j = z3.Int("j!blk")
        data = z3.Lambda([j], npm.LOG(z3.Select(data, j)))
    dm = ex.arr(s2, objects.sobj_getattr(ex, s2, o, mask))
    return z3.Lambda([_a0], z3.simplify(data)), z3.Lambda([_a0], z3.simplify(dm.data)), z3.Lambda([_a0], z3.simplify(n)), H


def _g_wmean(ex, st, a, k, n_):
    col = lit(a[3]) if len(a) > 3 else None
    v, m, l, n = _spec_blocks(ex, st, a[1].s, a[2].s, col)
    return WMEAN(dcode(a[0]), v, m, l, n, WTS, NW)


def _g_wstd(ex, st, a, k, n_):
    col = lit(a[3]) if len(a) > 3 else None
    v, m, l, n = _spec_blocks(ex, st, a[1].s, a[2].s, col)
    return WSTD(dcode(a[0]), z3.IntVal(DENOM["cheng"]), v, m, l, n, WTS, NW)


GHOST = {"WMEAN": FuncV(_g_wmean, "WMEAN"), "WSTD": FuncV(_g_wstd, "WSTD"), "H": H, "M": M,
         "NTH": FuncV(lambda ex, st, a, k, n_: NTH(lit(a[0]), dcode(a[1]), lit(a[2]), lit(a[3])), "NTH")}
_VP, _VW = "'valid_peak_boolean_mask'", "'valid_window_boolean_mask'"


def _scalar(name, spec, dist=None, with_n=False, note=""):
    params = ["self"] + (["n"] if with_n else []) + ["distribution"]
    return Contract(qual=Q + name, params=params, defaults={"distribution": "lognormal"}, ghost=GHOST, make_inputs=_inputs(dist, with_n),
                    ensures=[f"result == {spec}"], modifies=[], make_result=lambda ex, st, env: ex.fresh(name, R), notes=note)


MEAN_FRQ = _scalar("mean_fn_frequency", f"WMEAN(distribution, '_main_peak_frq', {_VP})", note="weighted mean over the accepted peak frequencies of all azimuths, azimuth-major")
MEAN_AMP = _scalar("mean_fn_amplitude", f"WMEAN(distribution, '_main_peak_amp', {_VP})", note="weighted mean over the accepted peak amplitudes of all azimuths, azimuth-major")
STD_FRQ = _scalar("std_fn_frequency", f"WSTD(distribution, '_main_peak_frq', {_VP})", note="Cheng et al. weighted standard deviation over the accepted peak frequencies")
STD_AMP = _scalar("std_fn_amplitude", f"WSTD(distribution, '_main_peak_amp', {_VP})", note="Cheng et al. weighted standard deviation over the accepted peak amplitudes")

# the two list-valued properties: element a is the per-azimuth property of hvsrs[a] (callers only concatenate them)
_REG = dict(TRAD_PROPS)
_REG["HvsrAzimuthal._compute_statistical_weights"] = FuncV(_weights_call, "_compute_statistical_weights")


def _prop_list(prop):
    """HvsrAzimuthal.peak_frequencies / peak_amplitudes as seen by the accessors: the sequence [hvsr.<prop> for hvsr in self.hvsrs]"""
    def mk(ex, st, env):
        hv = st.heap[env["self"].oid].fields["hvsrs"]
        n = st.heap[hv.sid].length
        c = TRAD_PROPS["HvsrTraditional." + prop]
        return SeqV(n, lambda ex_, st_, i: c.make_result(ex_, st_, {"self": objects.symlist_get(ex_, st_, hv, i)}), owner="fresh", name=prop)
    return Contract(qual=Q + prop, params=["self"], ensures=[], modifies=[], is_property=True, make_result=mk)


_REG["HvsrAzimuthal.peak_frequencies"] = _prop_list("peak_frequencies")
_REG["HvsrAzimuthal.peak_amplitudes"] = _prop_list("peak_amplitudes")

TASKS = []
# the list-valued properties themselves: their body is the comprehension the model above stands for
for _prop, _field in (("peak_frequencies", "_main_peak_frq"), ("peak_amplitudes", "_main_peak_amp")):
    def _same_blocks(ex, st, a, k, n_, _field=_field):
        r = a[0]
        if not isinstance(r, SeqV):
            return z3.BoolVal(False)
        v, m, l, n = _blocks(ex, st, FlatV(r))
        sv, sm, sl, sn = _spec_blocks(ex, st, _field, "valid_peak_boolean_mask")
        return z3.And(v == sv, m == sm, l == sl, n == sn)
    TASKS.append(FunctionTask(Contract(qual=Q + _prop, params=["self"], ghost=dict(GHOST, per_azimuth_selections=FuncV(_same_blocks, "per_azimuth_selections")),
                                       make_inputs=_inputs(), ensures=["per_azimuth_selections(result)"], modifies=[], is_property=True,
                                       notes=f"one entry per azimuth, in list order: the accepted entries of that azimuth's {_field}"),
                              registry=TRAD_PROPS, module_env=ENV, clauses=["per-azimuth accepted peaks in azimuth order"]))

for c in (MEAN_FRQ, MEAN_AMP, STD_FRQ, STD_AMP):
    TASKS.append(FunctionTask(c, registry=_REG, module_env=ENV, clauses=["azimuthal resonance statistics: accepted peaks of every azimuth, the statistical weights, Cheng denominator"]))

# ---------------------------------------------------------------- cov_fn
for _sp in SPELLINGS:
    def _g_cov(ex, st, a, k, n_, _log=(_sp != "normal")):
        xv, xm, xl, n = _spec_blocks(ex, st, "_main_peak_frq", "valid_peak_boolean_mask", log=_log)
        yv, ym, yl, n = _spec_blocks(ex, st, "_main_peak_amp", "valid_peak_boolean_mask", log=_log)
        return WCOV(xv, yv, xm, xl, n, WTS, NW)
    TASKS.append(FunctionTask(Contract(qual=Q + "cov_fn", params=["self", "distribution"], ghost=dict(GHOST, WCOV=FuncV(_g_cov, "WCOV")), make_inputs=_inputs(_sp),
                                       ensures=["result == WCOV()"], modifies=[],
                                       notes="weighted covariance (numpy aweights = the statistical weights) of the accepted peaks' frequencies and amplitudes, of their "
                                             "logarithms for the lognormal spellings"),
                              registry=_REG, module_env=ENV, label=Q + f"cov_fn[{_sp}]", clauses=["weighted covariance over the accepted peaks of every azimuth"]))

# ---------------------------------------------------------------- mean_curve / std_curve: column by column
FREQ = z3.Const("frequency", AR)


def _curve_inputs(ex, st):
    facts = _inputs()(ex, st)
    # `frequency` is a property reading hvsrs[0].frequency; the curves only need its length and that it is not written
    return facts


def _frequency_prop(ex, st, env):
    return ex.alloc_arr(st, (M,), FREQ, "real", "param:self.hvsrs", tag="frequency")


_REGC = dict(_REG)
_REGC["HvsrAzimuthal.frequency"] = Contract(qual=Q + "frequency", params=["self"], ensures=[], modifies=[], is_property=True, make_result=_frequency_prop)
MEAN_CURVE = Contract(qual=Q + "mean_curve", params=["self", "distribution"], defaults={"distribution": "lognormal"}, ghost=GHOST, make_inputs=_curve_inputs,
                      ensures=["len(result) == M", f"forall(c, 0, M, result[c] == WMEAN(distribution, 'amplitude', {_VW}, c))"],
                      loops={0: [f"forall(c, 0, _k0, mean_curve[c] == WMEAN(distribution, 'amplitude', {_VW}, c))", "len(mean_curve) == M"]},
                      stable_shapes=("mean_curve",), modifies=[],
                      make_result=lambda ex, st, env: ex.alloc_arr(st, (M,), ex.fresh("mean_curve", AR), "real", "fresh", tag="mean_curve"),
                      notes="column c: weighted mean over column c of the accepted windows' rows of every azimuth, with the statistical weights")
STD_CURVE = Contract(qual=Q + "std_curve", params=["self", "distribution"], defaults={"distribution": "lognormal"}, ghost=GHOST, make_inputs=_curve_inputs,
                     ensures=["len(result) == M", f"forall(c, 0, M, result[c] == WSTD(distribution, 'amplitude', {_VW}, c))"],
                     loops={0: [f"forall(c, 0, _k0, std_curve[c] == WSTD(distribution, 'amplitude', {_VW}, c))", "len(std_curve) == M"]},
                     stable_shapes=("std_curve",), modifies=[],
                     make_result=lambda ex, st, env: ex.alloc_arr(st, (M,), ex.fresh("std_curve", AR), "real", "fresh", tag="std_curve"),
                     notes="column c: Cheng et al. weighted standard deviation over column c of the accepted windows' rows of every azimuth")
for c in (MEAN_CURVE, STD_CURVE):
    TASKS.append(FunctionTask(c, registry=_REGC, module_env=ENV, clauses=["azimuthal curve statistics: accepted windows of every azimuth, the statistical weights"]))

# ---------------------------------------------------------------- +-n values
from contracts.acc_traditional import _nth_model
_METHODS = {"HvsrAzimuthal.mean_fn_frequency": MEAN_FRQ, "HvsrAzimuthal.mean_fn_amplitude": MEAN_AMP, "HvsrAzimuthal.std_fn_frequency": STD_FRQ,
            "HvsrAzimuthal.std_fn_amplitude": STD_AMP, "HvsrAzimuthal.mean_curve": MEAN_CURVE, "HvsrAzimuthal.std_curve": STD_CURVE}
_ENVN = dict(ENV, _nth_std_factory=FuncV(_nth_model, "_nth_std_factory"))
for _nm, _field in (("frequency", "'_main_peak_frq'"), ("amplitude", "'_main_peak_amp'")):
    c = _scalar(f"nth_std_fn_{_nm}", f"NTH(n, distribution, WMEAN(distribution, {_field}, {_VP}), WSTD(distribution, {_field}, {_VP}))", with_n=True,
                note="the +-n value from the weighted mean and the weighted standard deviation of the same quantity and distribution")
    TASKS.append(FunctionTask(c, registry=_METHODS, module_env=_ENVN, clauses=["azimuthal +-n values combine mean and standard deviation of the same quantity"]))
TASKS.append(FunctionTask(
    Contract(qual=Q + "nth_std_curve", params=["self", "n", "distribution"], ghost=GHOST, make_inputs=_inputs(None, True),
             ensures=["len(result) == M", f"forall(c, 0, M, result[c] == NTH(n, distribution, WMEAN(distribution, 'amplitude', {_VW}, c), WSTD(distribution, 'amplitude', {_VW}, c)))"],
             modifies=[], notes="the +-n curve, column by column, from the weighted mean and standard-deviation curves"),
    registry=_METHODS, module_env=_ENVN, clauses=["azimuthal +-n curve combines the weighted mean and standard-deviation curves"]))

ASSUMPTIONS = ["A-NP-MASK", "A-CONCAT: np.concatenate / np.array of a list of selections is their concatenation in list order (numpy; _flatten_list itself is proved to be that concatenation, with the prefix-sum block structure of the weights)",
               "the weighted estimators are opaque functions of (distribution, per-azimuth selections, weights) in the accessor proofs (their formulas: C11's contracts of statistics.py)",
               "_compute_statistical_weights is one array per object state (its content: C11's contract)", "np.cov(x, y, aweights=w) opaque (A-NP-COV)"]

# ---------------------------------------------------------------- _flatten_list itself: the concatenation in list order (what A-CONCAT assumes of it)
NL = z3.Int("n_lists")
LENF = z3.Function("LEN", I, I)                # length of inner list a
ELF = z3.Function("EL", I, I, R)               # element i of inner list a
OFFF = z3.Function("OFF", I, I)                # ghost prefix sums of the lengths
_b = z3.Int("a!off")
AX_OFF = [OFFF(0) == 0, z3.ForAll([_b], z3.Implies(_b >= 0, OFFF(_b + 1) == OFFF(_b) + LENF(_b)), patterns=[OFFF(_b + 1)])]


def _fl_inputs(ex, st):
    inner = lambda ex_, st_, a: SeqV(LENF(a), lambda ex2, st2, i, _a=a: ELF(_a, i), owner="param:unflattened_list", name="inner")
    st.env["unflattened_list"] = SeqV(NL, inner, owner="param:unflattened_list", name="unflattened_list")
    st.env["NL"] = NL
    k = z3.Int("k!len")
    return [NL >= 0, z3.ForAll([k], z3.Implies(z3.And(k >= 0, k < NL), LENF(k) >= 0), patterns=[LENF(k)])]


FLATTEN = Contract(
    qual="hvsrpy.statistics._flatten_list", params=["unflattened_list"], ghost={"OFF": OFFF, "LEN": LENF, "EL": ELF}, axioms=AX_OFF, make_inputs=_fl_inputs,
    ensures=["len(result) == OFF(NL)", "forall(a, 0, NL, forall(i, 0, LEN(a), result[OFF(a) + i] == EL(a, i)))"],
    loops={0: ["len(flattened_list) == OFF(_k0)", "OFF(_k0) >= 0", "forall(a, 0, _k0, OFF(a) >= 0 and OFF(a) + LEN(a) <= OFF(_k0))",
               "forall(a, 0, _k0, forall(i, 0, LEN(a), flattened_list[OFF(a) + i] == EL(a, i)))"]},
    sym_lists={"flattened_list": "real"}, modifies=[],
    notes="the inner lists one after the other in list order: entry OFF(a) + i is element i of list a, OFF the prefix sums of the lengths - the block structure "
          "_compute_statistical_weights gives the weights")
TASKS.append(FunctionTask(FLATTEN, clauses=["the per-azimuth values are concatenated in azimuth order (aligned with the weights)"]))
