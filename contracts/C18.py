"""C18 - recordings persist exactly; copies are independent; trim keeps the right samples (timeseries.py, seismic_recording_3c.py).

Under contract: TimeSeries.__init__ (the stored samples are a fresh copy), n_samples / fs / fnyq / time, from_timeseries, trim.
JSON persistence (json.dump / json.load of repr(float)) is external (A-JSON-FLOAT) and evaluated natively.
"""
import z3

from pyvc.core import I, R, B, ORef, ModV, FuncV, Tup, NONE
from pyvc.contract import Contract, FunctionTask, sym_arr1, sym_obj

N = z3.Int("N")
dt = z3.Real("dt")


def _self_ts(ex, st):
    amp = sym_arr1(ex, st, "self_amplitude", N, owner="param:self.amplitude")
    st.env["self"] = sym_obj(ex, st, "TimeSeries", {"amplitude": amp, "dt_in_seconds": dt}, owner="param:self")
    st.env["N"], st.env["dt"] = N, dt
    return [N >= 0, dt > 0]


def prop(name, ens, req=()):
    return Contract(qual=f"hvsrpy.timeseries.TimeSeries.{name}", params=["self"], requires=list(req), ensures=ens, make_inputs=_self_ts, modifies=[], is_property=True)


N_SAMPLES = prop("n_samples", ["result == len(self.amplitude)"])
FS = prop("fs", ["result == 1 / self.dt_in_seconds"])
FNYQ = prop("fnyq", ["result == 1 / (2 * self.dt_in_seconds)"])
TIME = Contract(qual="hvsrpy.timeseries.TimeSeries.time", params=["self"], ensures=["len(result) == N", "forall(i, 0, N, result[i] == i * self.dt_in_seconds)"],
                make_inputs=_self_ts, modifies=[],
                make_result=lambda ex, st, env: ex.alloc_arr(st, (ex.arr(st, st.heap[env["self"].oid].fields["amplitude"]).shape[0],),
                                                             ex.lam1(lambda i: z3.ToReal(i) * st.heap[env["self"].oid].fields["dt_in_seconds"]), "real", "fresh", tag="time"))

# fs / fnyq are written through other properties of the same object: registry for the property-on-property reads
PROP_REG = {"TimeSeries.fs": FS, "TimeSeries.n_samples": N_SAMPLES}

# ---------------------------------------------------------------- __init__
na = z3.Int("n_amp")
dtin = z3.Real("dt_in")


def _init_inputs(ex, st):
    st.env["self"] = sym_obj(ex, st, "TimeSeries", {}, owner="param:self")
    st.env["amplitude"] = sym_arr1(ex, st, "amplitude", na, owner="param:amplitude")
    st.env["dt_in_seconds"] = dtin
    st.env["na"] = na
    return [na >= 0]


INIT = Contract(
    qual="hvsrpy.timeseries.TimeSeries.__init__", params=["self", "amplitude", "dt_in_seconds"],
    ensures=["len(self.amplitude) == na", "forall(i, 0, na, self.amplitude[i] == amplitude[i])", "not (self.amplitude is amplitude)",
             "self.dt_in_seconds == dt_in_seconds"],
    make_inputs=_init_inputs, modifies=["param:self"],
    notes="np.array(amplitude, dtype=double) allocates (A-NP-ALLOC): the object owns fresh storage; the try/except TypeError path and the ndim test concern "
          "non-array input and are outside the symbolic input (a 1-D float array)")


# ---------------------------------------------------------------- from_timeseries
def _ft_inputs(ex, st):
    amp = sym_arr1(ex, st, "src_amplitude", N, owner="param:timeseries.amplitude")
    st.env["timeseries"] = sym_obj(ex, st, "TimeSeries", {"amplitude": amp, "dt_in_seconds": dt}, owner="param:timeseries")
    st.env["cls"] = CLS
    st.env["N"] = N
    return [N >= 0]


def _cls_call(ex, st, args, kw, node):
    """cls(amplitude, dt): the constructor under its contract INIT"""
    a, d = args[0], args[1]
    da = ex.arr(st, a)
    amp = ex.alloc_arr(st, da.shape, da.data, da.elem, "fresh", tag="copy")
    return ex.alloc_obj(st, "TimeSeries", {"amplitude": amp, "dt_in_seconds": d}, owner="fresh")


CLS = FuncV(_cls_call, "TimeSeries")
FROM_TS = Contract(
    qual="hvsrpy.timeseries.TimeSeries.from_timeseries", params=["cls", "timeseries"],
    ensures=["len(result.amplitude) == N", "forall(i, 0, N, result.amplitude[i] == timeseries.amplitude[i])", "not (result.amplitude is timeseries.amplitude)",
             "result.dt_in_seconds == timeseries.dt_in_seconds", "not (result is timeseries)"],
    make_inputs=_ft_inputs, modifies=[])

# ---------------------------------------------------------------- trim
t0, t1 = z3.Reals("start_time end_time")


def _trim_inputs(ex, st):
    facts = _self_ts(ex, st)
    st.env["start_time"], st.env["end_time"] = t0, t1
    return facts + [N >= 1]


def _time_method(ex, st, args, kw, node):
    o = st.heap[args[0].oid]
    d = ex.arr(st, o.fields["amplitude"])
    return ex.alloc_arr(st, (d.shape[0],), ex.lam1(lambda i: z3.ToReal(i) * o.fields["dt_in_seconds"]), "real", "fresh", tag="time")


def near(idx, x):
    return (f"0 <= {idx} and {idx} <= N - 1 and forall(k, 0, N, abs({idx} * dt - {x}) <= abs(k * dt - {x})) and "
            f"forall(k, 0, {idx}, abs(k * dt - {x}) > abs({idx} * dt - {x}))")


TRIM = Contract(
    qual="hvsrpy.timeseries.TimeSeries.trim", params=["self", "start_time", "end_time"],
    raises={"IndexError": "start_time < 0 or start_time >= end_time or end_time > (N - 1) * dt"},
    ensures=[near("start_index", "start_time"), near("end_index", "end_time"), "start_index <= end_index",
             "len(self.amplitude) == end_index - start_index + 1",
             "forall(t, 0, len(self.amplitude), self.amplitude[t] == old(self.amplitude)[start_index + t])",
             "self.dt_in_seconds == dt"],
    make_inputs=_trim_inputs, modifies=["param:self"],
    notes="samples from the one nearest start_time through the one nearest end_time, inclusive; A-ARGMIN (first index of the minimum)")

TASKS = [
    FunctionTask(N_SAMPLES, clauses=["n_samples = len(amplitude)"]), FunctionTask(FS, clauses=["fs = 1/dt"]),
    FunctionTask(FNYQ, registry=PROP_REG, clauses=["fnyq = fs/2"]), FunctionTask(TIME, registry=PROP_REG, clauses=["time[i] = i dt"]),
    FunctionTask(INIT, clauses=["the series owns a fresh copy of the samples"]),
    FunctionTask(FROM_TS, clauses=["copy constructor shares no sample storage"]),
    FunctionTask(TRIM, registry={"TimeSeries.time": FuncV(_time_method, "TimeSeries.time")}, clauses=["nearest-sample inclusive trim; illogical ranges refused"]),
]

# ---------------------------------------------------------------------------------------------------------------------
# SeismicRecording3C._to_dict / _from_dict: what save() hands to json and what load() builds from it.  json.dump / json.load are external
# (A-JSON-FLOAT: repr(float) round-trips); the two functions around them are under contract, the composition is the lemma below.
from pyvc.core import DictV, StrV
from pyvc.objects import SObj, fld, arr_len, arr_at
import contracts.C10 as C10

NS_ID, EW_ID, VT_ID = z3.Ints("ns_id ew_id vt_id")
DEG3 = z3.Real("degrees_from_north")
_COMP = {"ns": NS_ID, "ew": EW_ID, "vt": VT_ID}


def _td_inputs(ex, st):
    st.env["self"] = sym_obj(ex, st, "SeismicRecording3C", {"ns": SObj("TimeSeries", NS_ID, "param:self.ns"), "ew": SObj("TimeSeries", EW_ID, "param:self.ew"),
                                                            "vt": SObj("TimeSeries", VT_ID, "param:self.vt"), "degrees_from_north": DEG3, "meta": DictV({})}, owner="param:self")
    return [arr_len("TimeSeries", "amplitude", c) >= 0 for c in _COMP.values()]


_same = lambda key, comp: (f"len(result['{key}']) == len(self.{comp}.amplitude) and "
                           f"forall(i, 0, len(self.{comp}.amplitude), result['{key}'][i] == self.{comp}.amplitude[i])")
TO_DICT = Contract(qual="hvsrpy.seismic_recording_3c.SeismicRecording3C._to_dict", params=["self"], make_inputs=_td_inputs, modifies=[],
                   ensures=["result['dt_in_seconds'] == self.ns.dt_in_seconds", _same("ns_amplitude", "ns"), _same("ew_amplitude", "ew"), _same("vt_amplitude", "vt"),
                            "result['degrees_from_north'] == self.degrees_from_north"],
                   notes="every sample of every component, the time step and the orientation go into the dictionary")

NA_, NB_, NC_ = z3.Ints("n_ns n_ew n_vt")
DTD, DEGD = z3.Reals("dt_in_seconds stored_degrees")


def _fd_inputs(ex, st):
    st.env["data"] = DictV({"ns_amplitude": sym_arr1(ex, st, "ns_amplitude", NA_, owner="param:data.ns_amplitude"),
                            "ew_amplitude": sym_arr1(ex, st, "ew_amplitude", NB_, owner="param:data.ew_amplitude"),
                            "vt_amplitude": sym_arr1(ex, st, "vt_amplitude", NC_, owner="param:data.vt_amplitude"),
                            "dt_in_seconds": DTD, "degrees_from_north": DEGD, "meta": DictV({})})
    st.env["cls"] = FuncV(_m_3c_ctor, "SeismicRecording3C")
    return [NA_ >= 0, NB_ >= 0, NC_ >= 0]


def _m_3c_ctor(ex, st, args, kw, node):
    """SeismicRecording3C(ns, ew, vt, degrees_from_north, meta): components copied, orientation reduced to [0, 360) - its contract is proved in C04"""
    d = kw["degrees_from_north"]
    return ex.alloc_obj(st, "SeismicRecording3C", {"ns": args[0], "ew": args[1], "vt": args[2],
                                                   "degrees_from_north": d - 360 * z3.ToReal(z3.ToInt(d / 360)), "meta": kw.get("meta", NONE)}, "fresh")


_from = lambda key, comp, n: (f"len(result.{comp}.amplitude) == {n} and forall(i, 0, {n}, result.{comp}.amplitude[i] == data['{key}'][i]) and "
                              f"result.{comp}.dt_in_seconds == data['dt_in_seconds']")
FROM_DICT = Contract(qual="hvsrpy.seismic_recording_3c.SeismicRecording3C._from_dict", params=["cls", "data"], make_inputs=_fd_inputs, modifies=[],
                     ghost={"NA_": NA_, "NB_": NB_, "NC_": NC_, "floor": lambda x: z3.ToReal(z3.ToInt(x))},
                     ensures=[_from("ns_amplitude", "ns", "NA_"), _from("ew_amplitude", "ew", "NB_"), _from("vt_amplitude", "vt", "NC_"),
                              "result.degrees_from_north == data['degrees_from_north'] - 360 * floor(data['degrees_from_north'] / 360)"],
                     notes="the recording built from a dictionary carries exactly its samples, time step and (reduced) orientation")
TASKS += [FunctionTask(TO_DICT, clauses=["what is written is the recording's content"]),
          FunctionTask(FROM_DICT, module_env={"TimeSeries": C10.TS_CTOR}, clauses=["what is read back is the stored content"])]
_d = z3.Real("d")
from pyvc.contract import LemmaTask
TASKS.append(LemmaTask("orientation-survives-reduction", [_d >= 0, _d < 360], _d - 360 * z3.ToReal(z3.ToInt(_d / 360)) == _d,
                       "an orientation already in [0, 360) - what the constructor stores - is unchanged by the reduction applied on load"))

# ---------------------------------------------------------------------------------------------------------------------
# from_seismic_recording_3c, save, load: the copy constructor copies every component through TimeSeries.from_timeseries (proved above) and hands the
# orientation and meta on; save writes exactly _to_dict(); load builds the recording from exactly what json.load returns.
def _m_from_timeseries_obj(ex, st, args, kw, node):
    """tseries.from_timeseries(tseries) on a symbolic component: a fresh TimeSeries with the same content (contract FROM_TS)"""
    src = args[-1]
    n = arr_len("TimeSeries", "amplitude", src.id)
    j = z3.Int("j!cp")
    amp = ex.alloc_arr(st, (n,), z3.Lambda([j], arr_at("TimeSeries", "amplitude", src.id, j)), "real", "fresh", tag="copy")
    return ex.alloc_obj(st, "TimeSeries", {"amplitude": amp, "dt_in_seconds": fld("TimeSeries", "dt_in_seconds", R)(src.id)}, "fresh")


def _m_3c_ctor_plain(ex, st, args, kw, node):
    return ex.alloc_obj(st, "SeismicRecording3C", {"ns": args[0], "ew": args[1], "vt": args[2], "degrees_from_north": kw["degrees_from_north"],
                                                   "meta": kw.get("meta", NONE)}, "fresh")


def _copy3_inputs(ex, st):
    facts = _td_inputs(ex, st)
    st.env["seismic_recording_3c"] = st.env.pop("self")
    st.env["cls"] = FuncV(_m_3c_ctor_plain, "SeismicRecording3C")
    return facts


_cp = lambda comp: (f"len(result.{comp}.amplitude) == len(seismic_recording_3c.{comp}.amplitude) and "
                    f"forall(i, 0, len(result.{comp}.amplitude), result.{comp}.amplitude[i] == seismic_recording_3c.{comp}.amplitude[i]) and "
                    f"result.{comp}.dt_in_seconds == seismic_recording_3c.{comp}.dt_in_seconds and fresh_samples(result.{comp})")
COPY3 = Contract(qual="hvsrpy.seismic_recording_3c.SeismicRecording3C.from_seismic_recording_3c", params=["cls", "seismic_recording_3c"], make_inputs=_copy3_inputs,
                 ghost={"fresh_samples": FuncV(lambda ex, st, a, k, n_: z3.BoolVal(isinstance(a[0], ORef) and st.heap[st.heap[a[0].oid].fields["amplitude"].sid].owner == "fresh"), "fresh_samples")},
                 ensures=[_cp("ns"), _cp("ew"), _cp("vt"), "result.degrees_from_north == seismic_recording_3c.degrees_from_north"], modifies=[],
                 notes="ns -> ns, ew -> ew, vt -> vt, each through TimeSeries.from_timeseries (fresh sample storage); orientation handed to the constructor")
TASKS.append(FunctionTask(COPY3, registry={"TimeSeries.from_timeseries": FuncV(_m_from_timeseries_obj, "TimeSeries.from_timeseries")},
                          clauses=["the copy constructor copies every component and shares no sample storage"]))


class _File:
    pass


def _m_open(ex, st, args, kw, node):
    return sym_obj(ex, st, "File", {"name": args[0], "mode": args[1]}, owner="fresh")


def _m_json_dump(ex, st, args, kw, node):
    st.env["__dumped"] = Tup((args[0], args[1]))
    return NONE


def _m_json_load(ex, st, args, kw, node):
    st.env["__loaded_from"] = args[0]
    return st.env["__file_content"]


_TD_CALL = Contract(qual=TO_DICT.qual, params=["self"], ensures=[], modifies=[],
                    make_result=lambda ex, st, env: DictV({"<the dictionary _to_dict returns for>": env["self"]}))


def _save_inputs(ex, st):
    facts = _td_inputs(ex, st)
    st.env["fname"] = StrV("<fname>")
    return facts


SAVE = Contract(qual="hvsrpy.seismic_recording_3c.SeismicRecording3C.save", params=["self", "fname"], make_inputs=_save_inputs, modifies=[],
                ghost={"dumped": FuncV(lambda ex, st, a, k, n_: z3.BoolVal(isinstance(st.env.get("__dumped"), Tup) and isinstance(st.env["__dumped"][0], DictV)
                                                                             and st.env["__dumped"][0].items.get("<the dictionary _to_dict returns for>") is st.env["self"]
                                                                             and st.heap[st.env["__dumped"][1].oid].fields["name"] is st.env["fname"]
                                                                             and st.heap[st.env["__dumped"][1].oid].fields["mode"].s == "w"), "dumped")},
                ensures=["dumped()"], notes="json.dump receives exactly self._to_dict() and the file opened for writing under the name given")
SAVE.ghost_state = ("__dumped",)
TASKS.append(FunctionTask(SAVE, module_env={"open": FuncV(_m_open, "open"), "json": ModV("json", {"dump": FuncV(_m_json_dump, "json.dump")})},
                          registry={"SeismicRecording3C._to_dict": _TD_CALL}, clauses=["save writes the recording's dictionary"]))


def _load_inputs(ex, st):
    st.env["fname"] = StrV("<fname>")
    st.env["__file_content"] = DictV({"<what json.load returned>": z3.IntVal(1)})
    st.env["cls"] = ModV("SeismicRecording3C", {"_from_dict": FuncV(lambda ex_, st_, a, k, n_: Tup((StrV("<_from_dict of>"), a[0])), "_from_dict")})
    return []


LOAD = Contract(qual="hvsrpy.seismic_recording_3c.SeismicRecording3C.load", params=["cls", "fname"], make_inputs=_load_inputs, modifies=[],
                ghost={"loaded": FuncV(lambda ex, st, a, k, n_: z3.BoolVal(isinstance(a[0], Tup) and a[0][1] is st.env["__file_content"]
                                                                             and st.heap[st.env["__loaded_from"].oid].fields["name"] is st.env["fname"]
                                                                             and st.heap[st.env["__loaded_from"].oid].fields["mode"].s == "r"), "loaded")},
                ensures=["loaded(result)"], notes="the recording is _from_dict of exactly what json.load returns for the file of the name given")
LOAD.ghost_state = ("__loaded_from",)
TASKS.append(FunctionTask(LOAD, module_env={"open": FuncV(_m_open, "open"), "json": ModV("json", {"load": FuncV(_m_json_load, "json.load")})},
                          clauses=["load builds the recording from the stored dictionary"]))

META = dict(
    level="other",
    explanation="proved: TimeSeries.__init__ / from_timeseries give the object fresh sample storage with equal content; n_samples, fs, fnyq, time; trim keeps "
                "exactly the samples from the first one nearest start_time through the first one nearest end_time and raises IndexError iff the range "
                "is illogical; bounded: JSON save/load restores samples bit for bit, dt, orientation modulo 360 and meta content after random operation "
                "sequences; np.shares_memory on every copy/split/component pair; trim against brute-force nearest-sample search incl. record level",
    trusted_base=["A-REAL", "A-PY", "A-NP-ALLOC (np.array copies)", "A-ARGMIN", "A-JSON-FLOAT (bounded only)", "PyVC engine + z3/cvc5"],
    assumptions=["A-REAL", "A-PY", "A-NP-ALLOC", "A-ARGMIN", "A-JSON-FLOAT"],
)

# is_similar / __eq__ of TimeSeries and SeismicRecording3C (contracts/similar.py): the recording's constructor refuses components that are not similar
import contracts.similar as _SIM
TASKS += [t for t in _SIM.TASKS if ".timeseries." in t.label or ".seismic_recording_3c." in t.label]
