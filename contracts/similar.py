"""is_similar / __eq__ of the data classes under contract.

The constructors (SeismicRecording3C, HvsrAzimuthal, HvsrTraditional.from_hvsr_curves) refuse components / curves that are not "similar"; their contracts take
that test as a named condition (SIMILAR).  Here the test itself is put under contract: what it compares (the *other* object's fields with *self*'s, never a field
with itself), with which tolerance, and in the case of __eq__ that similarity is a conjunct.  `np.allclose / np.isclose` are opaque predicates of their two
operands and tolerances (ALLCLOSE), `!=` between library objects is the negation of an opaque EQUAL of the two identities: routing contracts.
"""
import z3

from pyvc.core import I, R, B, ARef, ORef, FuncV, ModV, ClsV, StrV, Tup, NONE, NoneV, Undecided, lit, real as real_
from pyvc.contract import Contract, FunctionTask, sym_obj, sym_arr1
from pyvc import npmodel as npm

AR = z3.ArraySort(I, R)
ALLCLOSE = z3.Function("np_allclose", AR, I, AR, I, R, R, B)          # (a, len a, b, len b, atol, rtol)
EQUAL = z3.Function("objects_equal", I, I, B)                          # == between two library objects (their own __eq__)
SIMILAR = z3.Function("objects_similar", I, I, B)                      # self.is_similar(other) of a contained object

NS, NO = z3.Ints("n_self n_other")
XS, XO = z3.Const("x_self", AR), z3.Const("x_other", AR)
AS, AO = z3.Const("a_self", AR), z3.Const("a_other", AR)
DS, DO = z3.Reals("dt_self dt_other")


def _tol(kw, name, default):
    return real_(kw[name]) if name in kw else z3.RealVal(default)


def _m_allclose(ex, st, args, kw, node):
    if len(args) != 2 or set(kw) - {"atol", "rtol"}:
        raise Undecided("np.allclose called in another way than (a, b, atol=, rtol=)")
    a, b = ex.arr(st, args[0]), ex.arr(st, args[1])
    return ALLCLOSE(a.data, a.shape[0], b.data, b.shape[0], _tol(kw, "atol", "1e-8"), _tol(kw, "rtol", "1e-5"))


_NP = ModV("np", dict(npm.NP.attrs, allclose=FuncV(_m_allclose, "np.allclose")))


def _ident(v):
    if isinstance(v, ORef):
        return z3.IntVal(int(v.oid.split("#")[1]))
    raise Undecided("a comparison of something other than two library objects")


def _m_sim(ex, st, args, kw, node):
    # a.is_similar(b): bound method - args = [a, b]
    if len(args) != 2 or kw:
        raise Undecided("is_similar called with options")
    return SIMILAR(_ident(args[0]), _ident(args[1]))


ENV = {"np": _NP, "TimeSeries": ClsV("TimeSeries"), "HvsrCurve": ClsV("HvsrCurve"), "HvsrTraditional": ClsV("HvsrTraditional"), "Psd": ClsV("Psd"),
       "SeismicRecording3C": ClsV("SeismicRecording3C"), "HvsrAzimuthal": ClsV("HvsrAzimuthal")}
TASKS = []


# ---- TimeSeries ------------------------------------------------------------------------------------------------------------------------------------------------
def _ts(ex, st, name, n, x, dt):
    amp = sym_arr1(ex, st, f"samples_{name}", n, owner=f"param:{name}.amplitude")
    st.pc.append(z3.ForAll([z3.Int("k!s")], z3.Select(ex.arr(st, amp).data, z3.Int("k!s")) == z3.Select(x, z3.Int("k!s"))))
    return sym_obj(ex, st, "TimeSeries", {"amplitude": amp, "dt_in_seconds": dt}, owner=f"param:{name}")


def _ts_inputs(other):
    def mk(ex, st):
        st.env["self"] = _ts(ex, st, "self", NS, AS, DS)
        if other == "series":
            st.env["other"] = _ts(ex, st, "other", NO, AO, DO)
        elif other == "curve":
            st.env["other"] = sym_obj(ex, st, "HvsrCurve", {"frequency": sym_arr1(ex, st, "f", NO, owner="param:other.frequency")}, owner="param:other")
        elif other == "number":
            st.env["other"] = DO
        else:
            st.env["other"] = NONE
        return [NS >= 0, NO >= 0, DS > 0, DO > 0]
    return mk


_GH = {"NS": NS, "NO": NO, "DS": DS, "DO": DO,
       "ALLCLOSE": FuncV(lambda ex, st, a, k, n_: ALLCLOSE(ex.arr(st, a[0]).data, ex.arr(st, a[0]).shape[0], ex.arr(st, a[1]).data, ex.arr(st, a[1]).shape[0], real_(a[2]), real_(a[3])), "ALLCLOSE"),
       "SIMILAR": FuncV(lambda ex, st, a, k, n_: SIMILAR(_ident(a[0]), _ident(a[1])), "SIMILAR"),
       "EQUAL": FuncV(lambda ex, st, a, k, n_: EQUAL(_ident(a[0]), _ident(a[1])), "EQUAL")}
_Q = "hvsrpy.timeseries.TimeSeries."
TASKS.append(FunctionTask(Contract(qual=_Q + "is_similar", params=["self", "other"], ghost=_GH, make_inputs=_ts_inputs("series"),
                                   ensures=["result == (abs(DO - DS) <= 1e-8 and NO == NS)"], modifies=[],
                                   notes="two time series are similar iff their time steps differ by at most 1e-8 s and they have the same number of samples"),
                          module_env=ENV, label=_Q + "is_similar[a time series]", clauses=["similar = same time step (1e-8 s) and same number of samples"]))
for _o in ("curve", "number", "none"):
    TASKS.append(FunctionTask(Contract(qual=_Q + "is_similar", params=["self", "other"], ghost=_GH, make_inputs=_ts_inputs(_o), ensures=["result == False"], modifies=[],
                                       notes="anything that is not a time series is not similar (no attribute of it is read: no exception)"),
                              module_env=ENV, label=_Q + f"is_similar[{_o}]", clauses=["something that is not a time series is not similar to one"]))
TASKS.append(FunctionTask(Contract(qual=_Q + "__eq__", params=["self", "other"], ghost=_GH, make_inputs=_ts_inputs("series"),
                                   ensures=["result == (SIMILAR(self, other) and ALLCLOSE(self.amplitude, other.amplitude, 1e-8, 1e-5))"], modifies=[],
                                   notes="equal = similar and the samples of the one close to the samples of the other (numpy's default tolerances)"),
                          module_env=ENV, registry={"TimeSeries.is_similar": FuncV(_m_sim, "TimeSeries.is_similar")}, label=_Q + "__eq__",
                          clauses=["equal = similar and samples close"]))


# ---- the curve classes: HvsrCurve, HvsrTraditional, Psd -------------------------------------------------------------------------------------------------------------
ATOL, RTOL = z3.Reals("atol rtol")


def _curve(ex, st, cls, name, n, with_amp=True):
    f = {"frequency": sym_arr1(ex, st, f"frequency_{name}", n, owner=f"param:{name}.frequency")}
    return sym_obj(ex, st, cls, f, owner=f"param:{name}")


def _cv_inputs(cls, other, tol):
    def mk(ex, st):
        st.env["self"] = _curve(ex, st, cls, "self", NS)
        if other == "same":
            st.env["other"] = _curve(ex, st, cls, "other", NO)
        elif other == "series":
            st.env["other"] = _ts(ex, st, "other", NO, AO, DO)
        elif other == "foreign":                         # an object of another curve class with a frequency vector of its own
            st.env["other"] = _curve(ex, st, {"HvsrCurve": "Psd", "HvsrTraditional": "HvsrCurve", "Psd": "HvsrTraditional"}[cls], "other", NO)
        else:
            st.env["other"] = NONE
        if tol:
            st.env["atol"], st.env["rtol"] = ATOL, RTOL
        return [NS >= 0, NO >= 0, DS > 0, DO > 0, ATOL >= 0, RTOL >= 0]
    return mk


for _cls, _mod, _defaults, _has_tol in (("HvsrCurve", "hvsr_curve", ("1e-9", "0"), True), ("HvsrTraditional", "hvsr_traditional", ("1e-8", "1e-5"), False),
                                        ("Psd", "psd", ("1e-9", "0"), True)):
    _q = f"hvsrpy.{_mod}.{_cls}.is_similar"
    _confs = [(False, _defaults)] + ([(True, ("atol", "rtol"))] if _has_tol else [])
    for _given, (_a, _r) in _confs:
        _params = ["self", "other"] + (["atol", "rtol"] if _given else [])
        TASKS.append(FunctionTask(Contract(qual=_q, params=_params, ghost=(dict(_GH, atol=ATOL, rtol=RTOL) if _given else _GH), make_inputs=_cv_inputs(_cls, "same", _given),
                                           ensures=[f"result == (NS == NO and ALLCLOSE(self.frequency, other.frequency, {_a}, {_r}))"], modifies=[],
                                           notes="similar iff as many frequencies and the frequencies of the one close to those of the other, with the tolerances "
                                                 + ("the caller gives" if _given else f"atol = {_a}, rtol = {_r}")),
                                  module_env=ENV, label=_q + ("[tolerances given]" if _given else "[default tolerances]"),
                                  clauses=["similar = same number of frequencies and frequencies close (self's against the other's)"]))
    for _o in ("series", "foreign", "none"):
        TASKS.append(FunctionTask(Contract(qual=_q, params=["self", "other"], ghost=_GH, make_inputs=_cv_inputs(_cls, _o, False), ensures=["result == False"], modifies=[],
                                           notes="an object of another class is not similar, whatever fields it has"),
                                  module_env=ENV, label=_q + f"[{_o}]", clauses=["an object of another class is not similar"]))


# ---- SeismicRecording3C ----------------------------------------------------------------------------------------------------------------------------------------
DEG_S, DEG_O = z3.Reals("degrees_self degrees_other")


def _rec(ex, st, name, deg):
    f = {c_: sym_obj(ex, st, "TimeSeries", {}, owner=f"param:{name}.{c_}") for c_ in ("ns", "ew", "vt")}
    f["degrees_from_north"] = deg
    f["meta"] = sym_obj(ex, st, "dict", {}, owner=f"param:{name}.meta")
    return sym_obj(ex, st, "SeismicRecording3C", f, owner=f"param:{name}")


def _rec_inputs(other):
    def mk(ex, st):
        st.env["self"] = _rec(ex, st, "self", DEG_S)
        st.env["other"] = _rec(ex, st, "other", DEG_O) if other == "recording" else (_ts(ex, st, "other", NO, AO, DO) if other == "series" else NONE)
        return [NO >= 0, DO > 0]
    return mk


_QR = "hvsrpy.seismic_recording_3c.SeismicRecording3C."
_REG_TS = {"TimeSeries.is_similar": FuncV(_m_sim, "TimeSeries.is_similar")}
TASKS.append(FunctionTask(Contract(qual=_QR + "is_similar", params=["self", "other"], ghost=_GH, make_inputs=_rec_inputs("recording"),
                                   ensures=["result == (SIMILAR(self.ns, other.ns) and SIMILAR(self.ew, other.ew) and SIMILAR(self.vt, other.vt))"], modifies=[],
                                   notes="two recordings are similar iff each component of the one is similar to the same component of the other"),
                          module_env=ENV, registry=_REG_TS, label=_QR + "is_similar[a recording]", clauses=["similar = component by component (ns with ns, ew with ew, vt with vt)"]))
for _o in ("series", "none"):
    TASKS.append(FunctionTask(Contract(qual=_QR + "is_similar", params=["self", "other"], ghost=_GH, make_inputs=_rec_inputs(_o), ensures=["result == False"], modifies=[]),
                              module_env=ENV, registry=_REG_TS, label=_QR + f"is_similar[{_o}]", clauses=["something that is not a recording is not similar to one"]))


# ---- HvsrAzimuthal -----------------------------------------------------------------------------------------------------------------------------------------------
from pyvc.objects import new_symlist, SObj
HS, HO = z3.Ints("n_azimuths_self n_azimuths_other")
HVS, HVO = z3.Const("hvsrs_self", z3.ArraySort(I, I)), z3.Const("hvsrs_other", z3.ArraySort(I, I))
AZS, AZO = z3.Const("azimuths_self", AR), z3.Const("azimuths_other", AR)
_ident_orig = _ident


def _ident(v):                                              # per-azimuth objects are entries of a symbolic list: identified by their symbolic id
    if isinstance(v, SObj):
        return v.id
    return _ident_orig(v)


_GH = dict(_GH, SIMILAR=FuncV(lambda ex, st, a, k, n_: SIMILAR(_ident(a[0]), _ident(a[1])), "SIMILAR"), EQUAL=FuncV(lambda ex, st, a, k, n_: EQUAL(_ident(a[0]), _ident(a[1])), "EQUAL"),
           HS=HS, HO=HO)


def _m_sim_az(ex, st, args, kw, node):
    if len(args) != 2 or kw:
        raise Undecided("is_similar called with options")
    return SIMILAR(_ident(args[0]), _ident(args[1]))


def _az(ex, st, name, n, hv, az):
    return sym_obj(ex, st, "HvsrAzimuthal", {"hvsrs": new_symlist(ex, st, "HvsrTraditional", length=n, arr=hv, owner=f"param:{name}.hvsrs", name=f"hvsrs_{name}"),
                                             "azimuths": new_symlist(ex, st, None, length=n, arr=az, owner=f"param:{name}.azimuths", name=f"azimuths_{name}")}, owner=f"param:{name}")


def _az_inputs(other):
    def mk(ex, st):
        st.env["self"] = _az(ex, st, "self", HS, HVS, AZS)
        st.env["other"] = _az(ex, st, "other", HO, HVO, AZO) if other == "azimuthal" else (_curve(ex, st, "HvsrTraditional", "other", NO) if other == "traditional" else NONE)
        return [HS >= 1, HO >= 1, NO >= 0]            # type invariant (the constructor reads hvsrs[0] and appends to both lists together): one azimuth per object, at least one
    return mk


_QA = "hvsrpy.hvsr_azimuthal.HvsrAzimuthal."
_REG_TR = {"HvsrTraditional.is_similar": FuncV(_m_sim_az, "HvsrTraditional.is_similar")}
TASKS.append(FunctionTask(Contract(qual=_QA + "is_similar", params=["self", "other"], ghost=_GH, make_inputs=_az_inputs("azimuthal"),
                                   ensures=["result == (HS == HO and SIMILAR(self.hvsrs[0], other.hvsrs[0]) and forall(j, 0, HS, abs(self.azimuths[j] - other.azimuths[j]) <= 0.1))"],
                                   loops={0: ["forall(j, 0, _k, abs(self.azimuths[j] - other.azimuths[j]) <= 0.1)"]}, modifies=[],
                                   notes="similar iff as many azimuths, the first per-azimuth objects similar (all of one object are: its constructor), and azimuth k of the one "
                                         "within 0.1 degree of azimuth k of the other for every k"),
                          module_env=ENV, registry=_REG_TR, label=_QA + "is_similar[an azimuthal object]",
                          clauses=["similar = same number of azimuths, similar curves, azimuths pairwise within 0.1 degree"]))
for _o in ("traditional", "none"):
    TASKS.append(FunctionTask(Contract(qual=_QA + "is_similar", params=["self", "other"], ghost=_GH, make_inputs=_az_inputs(_o), ensures=["result == False"], modifies=[]),
                              module_env=ENV, registry=_REG_TR, label=_QA + f"is_similar[{_o}]", clauses=["something that is not an azimuthal object is not similar to one"]))


# ---- __eq__ of the containers: similarity, then the parts pairwise (the parts' own == as an opaque predicate of the two objects) --------------------------------------
def _m_eq(ex, st, args, kw, node):
    return EQUAL(_ident(args[0]), _ident(args[1]))


_REG_EQ = {"HvsrTraditional.__eq__": FuncV(_m_eq, "HvsrTraditional.__eq__"), "TimeSeries.__eq__": FuncV(_m_eq, "TimeSeries.__eq__"), "dict.__eq__": FuncV(_m_eq, "dict.__eq__"),
           "HvsrAzimuthal.is_similar": FuncV(_m_sim_az, "HvsrAzimuthal.is_similar"), "SeismicRecording3C.is_similar": FuncV(_m_sim_az, "SeismicRecording3C.is_similar")}
TASKS.append(FunctionTask(Contract(qual=_QA + "__eq__", params=["self", "other"], ghost=_GH, make_inputs=_az_inputs("azimuthal"), requires=["HS == HO"],
                                   ensures=["result == (SIMILAR(self, other) and forall(j, 0, HS, EQUAL(self.hvsrs[j], other.hvsrs[j])))"],
                                   loops={0: ["forall(j, 0, _k, EQUAL(self.hvsrs[j], other.hvsrs[j]))"]}, modifies=[],
                                   notes="equal iff similar and the per-azimuth objects pairwise equal (object k of the one with object k of the other); similar objects have as "
                                         "many azimuths (is_similar's contract), which is the precondition here"),
                          module_env=ENV, registry=_REG_EQ, label=_QA + "__eq__", clauses=["equal = similar and per-azimuth objects pairwise equal"]))
TASKS.append(FunctionTask(Contract(qual=_QR + "__eq__", params=["self", "other"], ghost=dict(_GH, DEG_S=DEG_S, DEG_O=DEG_O), make_inputs=_rec_inputs("recording"),
                                   ensures=["result == (SIMILAR(self, other) and EQUAL(self.ns, other.ns) and EQUAL(self.ew, other.ew) and EQUAL(self.vt, other.vt) "
                                            "and EQUAL(self.meta, other.meta) and abs(DEG_S - DEG_O) <= 0.1)"], modifies=[],
                                   notes="equal iff similar, the three components and the meta information pairwise equal and the orientations within 0.1 degree"),
                          module_env=ENV, registry=_REG_EQ, label=_QR + "__eq__", clauses=["equal = similar, components / meta pairwise equal, orientation within 0.1 degree"]))


# ---- the two one-line properties of HvsrAzimuthal ----------------------------------------------------------------------------------------------------------------
def _az_self(ex, st):
    st.env["self"] = _az(ex, st, "self", HS, HVS, AZS)
    return [HS >= 1]


TASKS.append(FunctionTask(Contract(qual=_QA + "n_azimuths", params=["self"], ghost=_GH, make_inputs=_az_self, ensures=["result == HS"], modifies=[], is_property=True,
                                   notes="the number of azimuths is the length of the azimuth list"),
                          module_env=ENV, label=_QA + "n_azimuths", clauses=["n_azimuths = number of azimuths"]))
TASKS.append(FunctionTask(Contract(qual=_QA + "amplitude", params=["self"], ghost=_GH, make_inputs=_az_self, ensures=["len(result) == HS"], modifies=[], is_property=True,
                                   notes="one table of curves per azimuth, in azimuth order (entry k is hvsrs[k].amplitude: the comprehension's element expression)"),
                          module_env=ENV, label=_QA + "amplitude", clauses=["amplitude = the per-azimuth tables in azimuth order"]))


# ---- HvsrTraditional.__eq__: similar, as many curves, the tables of curves close, both accept masks equal entry by entry -----------------------------------------------
from pyvc.contract import sym_arr2
from pyvc.core import A2
ALLCLOSE2 = z3.Function("np_allclose_2d", A2(R), I, I, A2(R), I, I, R, R, B)
KS, KO, MF = z3.Ints("n_curves_self n_curves_other n_frequencies")


def _m_allclose_any(ex, st, args, kw, node):
    a, b = ex.arr(st, args[0]), ex.arr(st, args[1])
    if a.rank == 2 and b.rank == 2 and not (set(kw) - {"atol", "rtol"}):
        return ALLCLOSE2(a.data, a.shape[0], a.shape[1], b.data, b.shape[0], b.shape[1], _tol(kw, "atol", "1e-8"), _tol(kw, "rtol", "1e-5"))
    return _m_allclose(ex, st, args, kw, node)


def _m_all(ex, st, args, kw, node):
    """np.all of a boolean vector: every entry true (by its definition; an empty vector gives True)"""
    d = ex.arr(st, args[0])
    if d.elem != "bool" or d.rank != 1 or kw or len(args) != 1:
        raise Undecided("np.all of something other than one boolean vector")
    k = z3.Int("k!all")
    return z3.ForAll([k], z3.Implies(z3.And(k >= 0, k < d.shape[0]), ex.sel1(d, k)))


def _trad(ex, st, name, k):
    f = {"frequency": sym_arr1(ex, st, f"frequency_{name}", MF, owner=f"param:{name}.frequency"),
         "amplitude": sym_arr2(ex, st, f"amplitude_{name}", k, MF, owner=f"param:{name}.amplitude"),
         "valid_window_boolean_mask": sym_arr1(ex, st, f"valid_window_{name}", k, elem="bool", owner=f"param:{name}.valid_window_boolean_mask"),
         "valid_peak_boolean_mask": sym_arr1(ex, st, f"valid_peak_{name}", k, elem="bool", owner=f"param:{name}.valid_peak_boolean_mask"),
         "n_curves": k}
    return sym_obj(ex, st, "HvsrTraditional", f, owner=f"param:{name}")


def _trad_inputs(ex, st):
    st.env["self"], st.env["other"] = _trad(ex, st, "self", KS), _trad(ex, st, "other", KO)
    return [KS >= 1, KO >= 1, MF >= 1]


_QT = "hvsrpy.hvsr_traditional.HvsrTraditional."
_GT = dict(_GH, KS=KS, KO=KO,
           ALLCLOSE2=FuncV(lambda ex, st, a, k, n_: ALLCLOSE2(ex.arr(st, a[0]).data, ex.arr(st, a[0]).shape[0], ex.arr(st, a[0]).shape[1], ex.arr(st, a[1]).data, ex.arr(st, a[1]).shape[0],
                                                             ex.arr(st, a[1]).shape[1], z3.RealVal("1e-8"), z3.RealVal("1e-5")), "ALLCLOSE2"))
TASKS.append(FunctionTask(Contract(qual=_QT + "__eq__", params=["self", "other"], ghost=_GT, make_inputs=_trad_inputs,
                                   ensures=["result == (SIMILAR(self, other) and KS == KO and ALLCLOSE2(self.amplitude, other.amplitude) "
                                            "and forall(i, 0, KS, self.valid_window_boolean_mask[i] == other.valid_window_boolean_mask[i]) "
                                            "and forall(i, 0, KS, self.valid_peak_boolean_mask[i] == other.valid_peak_boolean_mask[i]))"], modifies=[],
                                   notes="equal iff similar, as many curves, the curves of the one close to the other's and both accept masks equal entry by entry"),
                          module_env=dict(ENV, np=ModV("np", dict(_NP.attrs, allclose=FuncV(_m_allclose_any, "np.allclose"), all=FuncV(_m_all, "np.all")))),
                          registry={"HvsrTraditional.is_similar": FuncV(_m_sim_az, "HvsrTraditional.is_similar")}, label=_QT + "__eq__",
                          clauses=["equal = similar, same number of curves, curves close, accept masks equal"]))


# ---- Settings.__eq__: equal iff the two attribute dictionaries are equal (each object's own attr_dict; its content: contracts/C15.py) ------------------------------------
def _attr_dict_of(ex, st, env):
    o = env["self"]
    return sym_obj(ex, st, "dict", {"of": _ident(o)}, owner="fresh")


_ATTR = Contract(qual="hvsrpy.settings.Settings.attr_dict", params=["self"], ensures=[], modifies=[], is_property=True, make_result=_attr_dict_of)


def _m_dict_eq(ex, st, args, kw, node):
    a, b = (st.heap[x.oid].fields["of"] for x in args)
    return EQUAL(a, b)


def _set_inputs(ex, st):
    st.env["self"] = sym_obj(ex, st, "Settings", {}, owner="param:self")
    st.env["other"] = sym_obj(ex, st, "Settings", {}, owner="param:other")
    return []


TASKS.append(FunctionTask(Contract(qual="hvsrpy.settings.Settings.__eq__", params=["self", "other"], ghost=_GH, make_inputs=_set_inputs,
                                   ensures=["result == EQUAL(self, other)"], modifies=[],
                                   notes="two settings objects are equal iff the attribute dictionary of the one equals that of the other (EQUAL here: dictionary equality of the "
                                         "two objects' attr_dict)"),
                          module_env=ENV, registry={"Settings.attr_dict": _ATTR, "dict.__eq__": FuncV(_m_dict_eq, "dict.__eq__")}, label="hvsrpy.settings.Settings.__eq__",
                          clauses=["settings are equal iff their attribute dictionaries are"]))
