"""C04 - sensor orientation and azimuth handling are geometrically consistent (seismic_recording_3c.py, processing.py).

Under contract: SeismicRecording3C.orient_sensor_to (exact clockwise-from-north rotation of the horizontals, vertical untouched,
stored orientation updated), the orientation normalisation of SeismicRecording3C.__init__, processing.single_azimuth (in C01) and
the geometric lemmas of the statement over those contracts (A-TRIG: cos^2+sin^2=1, angle addition, parity).
"""
import z3

from pyvc.core import I, R, B, DictV, StrV, NONE
from pyvc.contract import Contract, FunctionTask, LemmaTask, sym_arr1, sym_obj
from pyvc import npmodel as npm
from pyvc.npmodel import SIN, COS, PI

N = z3.Int("N")
d0, d1 = z3.Reals("d0 degrees_from_north")


def _orient_inputs(ex, st):
    ns = sym_arr1(ex, st, "ns_amplitude", N, owner="param:self.ns.amplitude")
    ew = sym_arr1(ex, st, "ew_amplitude", N, owner="param:self.ew.amplitude")
    vt = sym_arr1(ex, st, "vt_amplitude", N, owner="param:self.vt.amplitude")
    mk = lambda a, nm: sym_obj(ex, st, "TimeSeries", {"amplitude": a, "dt_in_seconds": z3.Real("dt")}, owner=f"param:self.{nm}")
    meta = DictV({"current degrees from north": d0, "deployed degrees from north": d0}, owner="param:self.meta")
    st.env["self"] = sym_obj(ex, st, "SeismicRecording3C", {"ns": mk(ns, "ns"), "ew": mk(ew, "ew"), "vt": mk(vt, "vt"),
                                                           "degrees_from_north": d0, "meta": meta}, owner="param:self")
    st.env["degrees_from_north"] = d1
    st.env["N"], st.env["d0"] = N, d0
    return [N >= 0]


RAD = "((degrees_from_north - d0) * pi / 180)"
ORIENT = Contract(
    qual="hvsrpy.seismic_recording_3c.SeismicRecording3C.orient_sensor_to", params=["self", "degrees_from_north"],
    requires=[],
    ensures=[
        "len(self.ns.amplitude) == N and len(self.ew.amplitude) == N",
        # clockwise-from-north convention: a sensor whose north axis points to azimuth t records ns = N cos t + E sin t, ew = -N sin t + E cos t
        f"forall(i, 0, N, self.ns.amplitude[i] == old(self.ew.amplitude)[i]*sin({RAD}) + old(self.ns.amplitude)[i]*cos({RAD}))",
        f"forall(i, 0, N, self.ew.amplitude[i] == old(self.ew.amplitude)[i]*cos({RAD}) - old(self.ns.amplitude)[i]*sin({RAD}))",
        "forall(i, 0, N, self.vt.amplitude[i] == old(self.vt.amplitude)[i])",
        "self.degrees_from_north == degrees_from_north",
        "self.meta['current degrees from north'] == degrees_from_north",
        "self.meta['deployed degrees from north'] == d0",
    ],
    modifies=["param:self", "param:self.ns", "param:self.ew", "param:self.meta"],
    make_inputs=_orient_inputs,
    notes="frame: the vertical component, dt and the deployed orientation are not written; the new horizontal arrays are fresh storage")

# ---------------------------------------------------------------- lemmas (pure trigonometry over the contract's formulas)
TRIG = npm.ax_trig() + npm.ax_trig_add()
n_, e_, a, b, t, m_, al = z3.Reals("n e a b t m alpha")


def rot(nv, ev, ang):
    """orient by angle difference ang (radians): returns (ns', ew') per the postcondition of orient_sensor_to"""
    return ev * SIN(ang) + nv * COS(ang), ev * COS(ang) - nv * SIN(ang)


def inst(*angles):
    """ground instances of A-TRIG at the given angle terms (the solver is not asked to find them)"""
    out = []
    for x in angles:
        out.append(SIN(x) * SIN(x) + COS(x) * COS(x) == 1)
    return out


def lemmas():
    out = []
    ns1, ew1 = rot(n_, e_, a)
    out.append(LemmaTask("rotation-preserves-energy", inst(a), ns1 * ns1 + ew1 * ew1 == n_ * n_ + e_ * e_,
                         "ns'^2 + ew'^2 = ns^2 + ew^2 for every sample"))
    # composition: orient by a then by b == orient by a+b (so orient(theta2) o orient(theta1) = orient(theta2) from any start)
    ns2, ew2 = rot(ns1, ew1, b)
    ns12, ew12 = rot(n_, e_, a + b)
    add = [COS(a + b) == COS(a) * COS(b) - SIN(a) * SIN(b), SIN(a + b) == SIN(a) * COS(b) + COS(a) * SIN(b)]
    out.append(LemmaTask("rotation-composes", add, z3.And(ns2 == ns12, ew2 == ew12), "two successive re-orientations equal the single one by the summed angle"))
    # invertibility: a then -a is the identity
    nsi, ewi = rot(ns1, ew1, -a)
    par = [COS(-a) == COS(a), SIN(-a) == -SIN(a)] + inst(a)
    out.append(LemmaTask("rotation-invertible", par, z3.And(nsi == n_, ewi == e_), "orienting back restores every sample"))
    # 360-degree residues: angles differing by 2 pi act identically
    per = [COS(a + 2 * PI) == COS(a), SIN(a + 2 * PI) == SIN(a)]
    nsp, ewp = rot(n_, e_, a + 2 * PI)
    out.append(LemmaTask("rotation-360-periodic", per, z3.And(nsp == ns1, ewp == ew1), "values outside [0,360) act as their residues (A-TRIG periodicity instance)"))
    # polarisation: true motion (N, E) = (m cos alpha, m sin alpha) recorded by a sensor deployed at angle t, oriented to north
    rec_ns = (m_ * COS(al)) * COS(t) + (m_ * SIN(al)) * SIN(t)
    rec_ew = -(m_ * COS(al)) * SIN(t) + (m_ * SIN(al)) * COS(t)
    back_ns, back_ew = rot(rec_ns, rec_ew, -t)
    out.append(LemmaTask("polarisation-reappears", [COS(-t) == COS(t), SIN(-t) == -SIN(t)] + inst(t),
                         z3.And(back_ns == m_ * COS(al), back_ew == m_ * SIN(al)),
                         "motion polarised along azimuth alpha reappears on that azimuth after orienting to north"))
    # single azimuth projection == ns after orienting by that angle
    out.append(LemmaTask("single-azimuth-is-oriented-north-component", [], n_ * COS(a) + e_ * SIN(a) == rot(n_, e_, a)[0],
                         "processing.single_azimuth(ns, ew, a) is the ns component produced by orient_sensor_to(old + a)"))
    # 180-degree periodicity of the projection up to sign (|rfft(-x)| = |rfft(x)| by A-FFT-LIN)
    out.append(LemmaTask("single-azimuth-180-antiperiodic", [COS(a + PI) == -COS(a), SIN(a + PI) == -SIN(a)],
                         n_ * COS(a + PI) + e_ * SIN(a + PI) == -(n_ * COS(a) + e_ * SIN(a)), "h(a+180) = -h(a)"))
    # rotation invariance of |NS|^2+|EW|^2 for complex spectra (re, im pairs), A-FFT-LIN
    nr, ni, er, ei = z3.Reals("nr ni er ei")
    n2r, n2i = er * SIN(a) + nr * COS(a), ei * SIN(a) + ni * COS(a)
    e2r, e2i = er * COS(a) - nr * SIN(a), ei * COS(a) - ni * SIN(a)
    out.append(LemmaTask("spectral-energy-rotation-invariant", inst(a), n2r * n2r + n2i * n2i + e2r * e2r + e2i * e2i == nr * nr + ni * ni + er * er + ei * ei,
                         "|NS'|^2 + |EW'|^2 = |NS|^2 + |EW|^2: squared-average, total-horizontal-energy and diffuse-field combinations are orientation independent"))
    return out


# ---------------------------------------------------------------- SeismicRecording3C.__init__ (orientation normalisation, component copies)
from pyvc.core import ModV, FuncV, ORef, Tup
NI = z3.Int("NI")
dti = z3.Real("dt_in")
SIMILAR = z3.Function("is_similar_result", I, B)   # outcome of the three is_similar calls (ns/ns, ns/ew, ns/vt), uninterpreted here (C18)


def _ts_param(ex, st, name):
    amp = sym_arr1(ex, st, f"{name}_amplitude", NI, owner=f"param:{name}.amplitude")
    return sym_obj(ex, st, "TimeSeries", {"amplitude": amp, "dt_in_seconds": dti, "__name": StrV(name)}, owner=f"param:{name}")


def _from_timeseries(ex, st, args, kw, node):
    """TimeSeries.from_timeseries(ts): copy constructor - fresh object owning a fresh copy of the samples (contract verified in C18)"""
    src = st.heap[args[0].oid]
    d = ex.arr(st, src.fields["amplitude"])
    amp = ex.alloc_arr(st, d.shape, d.data, d.elem, "fresh", tag="copy")
    return ex.alloc_obj(st, "TimeSeries", {"amplitude": amp, "dt_in_seconds": src.fields["dt_in_seconds"]}, owner="fresh")


_sim_counter = [0]


def _is_similar(ex, st, args, kw, node):
    _sim_counter[0] += 1
    return SIMILAR(z3.IntVal(_sim_counter[0] % 3))


def _init_inputs(meta_none):
    def mk(ex, st):
        _sim_counter[0] = 0
        st.env["self"] = sym_obj(ex, st, "SeismicRecording3C", {}, owner="param:self")
        for nm in ("ns", "ew", "vt"):
            st.env[nm] = _ts_param(ex, st, nm)
        st.env["degrees_from_north"] = d1
        st.env["meta"] = NONE if meta_none else DictV({"file name(s)": StrV("f.mseed")}, owner="param:meta")
        st.env["NI"] = NI
        return [NI >= 0]
    return mk


def init_contract(meta_none):
    return Contract(
        qual="hvsrpy.seismic_recording_3c.SeismicRecording3C.__init__", params=["self", "ns", "ew", "vt", "degrees_from_north", "meta"],
        defaults={"degrees_from_north": 0., "meta": None},
        raises={"ValueError": "not (SIMILAR(1) and SIMILAR(2) and SIMILAR(0))"},
        ensures=["0 <= self.degrees_from_north and self.degrees_from_north < 360",
                 "exists(kq, -1000000000, 1000000000, degrees_from_north == self.degrees_from_north + 360 * kq)",
                 "forall(i, 0, NI, self.ns.amplitude[i] == ns.amplitude[i] and self.ew.amplitude[i] == ew.amplitude[i] and self.vt.amplitude[i] == vt.amplitude[i])",
                 "not (self.ns.amplitude is ns.amplitude) and not (self.ew.amplitude is ew.amplitude) and not (self.vt.amplitude is vt.amplitude)",
                 "self.meta['current degrees from north'] == self.degrees_from_north and self.meta['deployed degrees from north'] == self.degrees_from_north"],
        requires=["degrees_from_north > -360000000000 and degrees_from_north < 360000000000"],
        ghost={"SIMILAR": SIMILAR}, modifies=["param:self"], make_inputs=_init_inputs(meta_none),
        notes="normalisation d - 360*floor(d/360); components are copied (fresh storage); is_similar outcomes are opaque here")


_TS_MOD = ModV("TimeSeries", {"from_timeseries": FuncV(_from_timeseries, "TimeSeries.from_timeseries")})
INIT_TASKS = [FunctionTask(init_contract(mn), module_env={"TimeSeries": _TS_MOD},
                           registry={"TimeSeries.is_similar": FuncV(_is_similar, "TimeSeries.is_similar")},
                           label=f"hvsrpy.seismic_recording_3c.SeismicRecording3C.__init__[meta={'None' if mn else 'dict'}]",
                           clauses=["orientation normalised into [0,360), congruent mod 360; components copied"]) for mn in (True, False)]

TASKS = [FunctionTask(ORIENT, clauses=["exact rotation in the clockwise-from-north convention, vertical untouched"])] + INIT_TASKS + lemmas()

# ---------------------------------------------------------------- HvsrAzimuthal._check_input: azimuths outside [0, 180] are refused
from pyvc.core import ClsV as _ClsV
from pyvc.objects import SObj as _SObj
_az = z3.Real("azimuth")


def _ci_inputs(kind):
    def mk(ex, st):
        st.env["hvsr"] = _SObj("HvsrTraditional" if kind == "traditional" else "HvsrCurve", z3.Int("hvsr_id"), "param:hvsr")
        st.env["azimuth"] = _az
        return []
    return mk


for _kind in ("traditional", "other"):
    _c = Contract(qual="hvsrpy.hvsr_azimuthal.HvsrAzimuthal._check_input", params=["hvsr", "azimuth"], make_inputs=_ci_inputs(_kind), modifies=[],
                  raises=({"ValueError": "azimuth < 0 or azimuth > 180"} if _kind == "traditional" else {"TypeError": "True"}),
                  ensures=(["result[0] is hvsr", "result[1] == azimuth", "0 <= result[1] and result[1] <= 180"] if _kind == "traditional" else []),
                  notes="an azimuth is accepted iff it lies in [0, 180]; anything but an HvsrTraditional is a TypeError")
    TASKS.append(FunctionTask(_c, module_env={"HvsrTraditional": _ClsV("HvsrTraditional")}, label=f"hvsrpy.hvsr_azimuthal.HvsrAzimuthal._check_input[{_kind}]",
                              clauses=["azimuths are accepted exactly on [0, 180]"]))

# SeismicRecording3C.split keeps the orientation (its contract is stated and proved with the C10 contracts; it is an obligation of this property too)
import contracts.C10 as _C10
import contracts.C03 as _C03
# azimuthal processing = one single-azimuth run per azimuth with the caller's other settings (proved with the C03 contracts; an obligation here too)
TASKS += [t for t in _C03.TASKS if getattr(t, "label", "").startswith("hvsrpy.processing.azimuthal_hvsr_processing")]
TASKS += [t for t in _C10.TASKS if getattr(t, "label", "") == "hvsrpy.seismic_recording_3c.SeismicRecording3C.split" or (hasattr(t, "contract") and t.contract.qual.endswith("SeismicRecording3C.split"))]

META = dict(
    level="other",
    explanation="proved: orient_sensor_to is the stated rotation for every recording and angle (pointwise postcondition, frame, stored orientation); "
                "lemmas: energy preservation, composition, invertibility, 360-periodicity, polarisation, single-azimuth = oriented north component, "
                "180-degree antiperiodicity, rotation invariance of |NS|^2+|EW|^2; bounded: the processing-level consequences (azimuthal = stack, "
                "RotDpp monotone in the percentile and within min/max over azimuths, rotation-invariant methods independent of orientation, "
                "preprocessing orients every record) evaluated natively",
    trusted_base=["A-REAL", "A-PY", "A-NP-ELEM", "A-TRIG (cos^2+sin^2=1, angle addition, parity, periodicity as named instances)", "A-FFT-LIN", "A-PCTL", "PyVC engine + z3/cvc5"],
    assumptions=["A-REAL", "A-PY", "A-NP-ELEM", "A-TRIG", "A-FFT-LIN", "A-PCTL"],
)
