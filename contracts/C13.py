"""C13 - time-domain rejection keeps exactly the windows that satisfy the criterion (window_rejection.py).

Under contract: maximum_value_window_rejection (normalised and absolute thresholds, three component subsets, no / traditional / two-azimuth
object attached).  sta_lta_window_rejection works through numpy reshape / mean(axis=1) and is evaluated natively (bounded/C13.py).
"""
import z3

from pyvc.core import I, R, B, NONE, StrV, Tup, ClsV
from pyvc.contract import Contract, FunctionTask, sym_obj, sym_arr1
from pyvc import objects
from pyvc.objects import fld, arr_at, arr_len, new_symlist

L = z3.Int("L")
RECS = z3.Const("record_ids", z3.ArraySort(I, I))
thr = z3.Real("maximum_value_threshold")
MX = z3.Function("MX", I, R)          # largest absolute sample of record r over the examined components
GM = z3.Real("GM")                    # largest MX over all records (the normaliser)
KC = z3.Function("KC", I, I)          # number of kept records before r


def comp_id(r, c):
    return fld("SeismicRecording3C", c, I)(z3.Select(RECS, r))


def X(r, c, j):
    return arr_at("TimeSeries", "amplitude", comp_id(r, c), j)


def NS(r, c):
    return arr_len("TimeSeries", "amplitude", comp_id(r, c))


def zabs(x):
    return z3.If(x >= 0, x, -x)


def axioms(comps, normalized):
    r, j, q = z3.Ints("r!mx j!mx q!mx")
    ax = [z3.ForAll([r], MX(r) >= 0, patterns=[MX(r)])]
    for c in comps:
        ax.append(z3.ForAll([r, j], z3.Implies(z3.And(j >= 0, j < NS(r, c)), zabs(X(r, c, j)) <= MX(r)), patterns=[X(r, c, j)]))
    ax.append(z3.ForAll([r], z3.Or(MX(r) == 0, *[z3.Exists([j], z3.And(j >= 0, j < NS(r, c), zabs(X(r, c, j)) == MX(r))) for c in comps]), patterns=[MX(r)]))
    keep = (lambda rr: MX(rr) / GM < thr) if normalized else (lambda rr: MX(rr) < thr)
    ax += [KC(0) == 0, z3.ForAll([r], z3.Implies(r >= 0, KC(r + 1) == KC(r) + z3.If(keep(r), 1, 0)), patterns=[KC(r + 1)]),
           z3.ForAll([r], z3.Implies(r >= 0, z3.And(KC(r) >= 0, KC(r) <= r)), patterns=[KC(r)]),
           # monotone: consequence of the unfolding by induction (step lemma below; A-INDUCTION)
           z3.ForAll([r, q], z3.Implies(z3.And(0 <= r, r <= q), KC(r) <= KC(q)), patterns=[z3.MultiPattern(KC(r), KC(q))]),
           # strict at a kept record (base: unfolding at r; step: monotone) - stated with the trigger the subsequence invariant needs
           z3.ForAll([r, q], z3.Implies(z3.And(0 <= r, r < q, keep(r)), KC(r) < KC(q)), patterns=[z3.MultiPattern(KC(r), KC(q))])]
    if normalized:
        ax += [z3.ForAll([q], z3.Implies(z3.And(q >= 0, q < L), MX(q) <= GM), patterns=[MX(q)]), z3.Exists([q], z3.And(q >= 0, q < L, MX(q) == GM)), GM > 0]
    return ax, keep


def make_inputs(comps, normalized, attach):
    def mk(ex, st):
        st.env["records"] = new_symlist(ex, st, "SeismicRecording3C", length=L, arr=RECS, owner="param:records", name="records")
        st.env["maximum_value_threshold"] = thr
        st.env["normalized"] = z3.BoolVal(normalized)
        st.env["components"] = Tup(StrV(c) for c in comps)
        st.env["L"] = L

        def mk_tr(nm):
            vw = sym_arr1(ex, st, f"{nm}_vw", L, elem="bool", owner=f"param:{nm}.valid_window_boolean_mask")
            vp = sym_arr1(ex, st, f"{nm}_vp", L, elem="bool", owner=f"param:{nm}.valid_peak_boolean_mask")
            return sym_obj(ex, st, "HvsrTraditional", {"valid_window_boolean_mask": vw, "valid_peak_boolean_mask": vp}, owner=f"param:{nm}")
        if attach == "none":
            st.env["hvsr"] = NONE
        elif attach == "traditional":
            st.env["hvsr"] = mk_tr("hvsr")
        else:
            a, b = mk_tr("az0"), mk_tr("az1")
            st.env["hvsr"] = sym_obj(ex, st, "HvsrAzimuthal", {"hvsrs": ex.alloc_list(st, [a, b], owner="param:hvsr.hvsrs")}, owner="param:hvsr")
            st.env["az0"], st.env["az1"] = a, b
        r = z3.Int("r!ns")
        facts = [L >= 1]
        for c in comps:
            facts.append(z3.ForAll([r], NS(r, c) >= 1, patterns=[NS(r, c)]))
        return facts
    return mk


def contract(comps, normalized, attach):
    ax, keep = axioms(comps, normalized)
    KEEP = "(MX(r) / GM < maximum_value_threshold)" if normalized else "(MX(r) < maximum_value_threshold)"
    ens = ["len(result) == KC(L)",
           f"forall(r, 0, L, implies({KEEP}, result[KC(r)] is records[r]))"]
    mask = lambda obj: [f"len({obj}.valid_window_boolean_mask) == L and len({obj}.valid_peak_boolean_mask) == L",
                        f"forall(r, 0, L, {obj}.valid_window_boolean_mask[r] == {KEEP})", f"forall(r, 0, L, {obj}.valid_peak_boolean_mask[r] == {KEEP})"]
    if attach == "traditional":
        ens += mask("hvsr")
    elif attach == "azimuthal":
        ens += mask("az0") + mask("az1")
    keepk = KEEP.replace("(r)", "(i)")
    return Contract(
        qual="hvsrpy.window_rejection.maximum_value_window_rejection", params=["records", "maximum_value_threshold", "normalized", "components", "hvsr"],
        ghost={"MX": MX, "KC": KC, "GM": GM}, requires=[], ensures=ens,
        loops={0: ["forall(q, 0, _k0, maximum_values[q] == MX(q))", "len(maximum_values) == L"],
               2: ["len(passing_records) == KC(_k2)", "len(valid_window_boolean_mask) == _k2",
                   f"forall(i, 0, _k2, valid_window_boolean_mask[i] == {keepk})",
                   f"forall(i, 0, _k2, implies({keepk}, passing_records[KC(i)] is records[i]))"]},
        sym_lists={"passing_records": "SeismicRecording3C", "valid_window_boolean_mask": "bool"}, axioms=ax,
        make_inputs=make_inputs(comps, normalized, attach),
        modifies=["param:hvsr", "param:az0", "param:az1"],
        notes="MX(r) = largest absolute sample of record r over the examined components (complete characterisation: bounds every sample, attained or 0); "
              "normalised: relative to GM = max_r MX(r) > 0 (precondition: some examined sample is non-zero)")


HVT, HVA = ClsV("HvsrTraditional"), ClsV("HvsrAzimuthal")
TASKS = []
for comps in (("ns", "ew", "vt"), ("vt",), ("ns", "ew")):
    for normalized in (True, False):
        for attach in ("none", "traditional", "azimuthal"):
            if comps != ("ns", "ew", "vt") and attach == "azimuthal":
                continue
            TASKS.append(FunctionTask(contract(comps, normalized, attach), module_env={"HvsrTraditional": HVT, "HvsrAzimuthal": HVA},
                                      label=f"hvsrpy.window_rejection.maximum_value_window_rejection[{'+'.join(comps)},{'normalised' if normalized else 'absolute'},hvsr={attach}]",
                                      clauses=["keep iff largest absolute sample (relative when normalised) below threshold; same objects in order; masks = selection"]))

from pyvc.contract import LemmaTask
_r, _q = z3.Ints("r q")
_kp = z3.Bool("keep_q")
TASKS += [LemmaTask("kept-count-monotone[step]", [_r >= 0, _q >= _r, KC(_r) <= KC(_q), KC(_q + 1) == KC(_q) + z3.If(_kp, 1, 0)], KC(_r) <= KC(_q + 1), "KC(r) <= KC(q) ==> KC(r) <= KC(q+1)"),
          LemmaTask("kept-count-strict[base]", [_r >= 0, _kp, KC(_r + 1) == KC(_r) + z3.If(_kp, 1, 0)], KC(_r) < KC(_r + 1), "a kept record increases the count"),
          LemmaTask("kept-count-strict[step]", [_r >= 0, _q > _r, KC(_r) < KC(_q), KC(_q) <= KC(_q + 1)], KC(_r) < KC(_q + 1), "strictness is kept by monotonicity"),
          LemmaTask("kept-count-range[step]", [_r >= 0, KC(_r) >= 0, KC(_r) <= _r, KC(_r + 1) == KC(_r) + z3.If(_kp, 1, 0)], z3.And(KC(_r + 1) >= 0, KC(_r + 1) <= _r + 1), "0 <= KC(r) <= r")]

META = dict(
    level="other",
    explanation="proved: maximum_value_window_rejection for three component subsets x normalised/absolute x (no object, traditional, two-azimuth azimuthal): the "
                "returned list is the order-preserving subsequence of the same objects with largest absolute sample (relative to the overall largest when "
                "normalised) below the threshold, attached objects end with both masks equal to that selection; bounded: sta_lta_window_rejection "
                "(numpy reshape / mean(axis=1) outside the subset) and the same maximum-value contract natively incl. call sequences",
    trusted_base=["A-REAL", "A-PY", "A-NP-MAX / A-NP-ABS", "symbolic list/object model", "azimuthal case proved for two azimuths (loop over a concrete list unrolled)", "PyVC engine + z3/cvc5"],
    assumptions=["A-REAL", "A-PY", "A-NP-MAX", "A-NP-MEAN (bounded)", "A-NP-RESHAPE (bounded)"],
)
