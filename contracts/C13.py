"""C13 - time-domain rejection keeps exactly the windows that satisfy the criterion (window_rejection.py).

No obligation is discharged deductively yet for this property: sta_lta_window_rejection works through numpy reshape / mean(axis=1)
and both functions branch on isinstance of the attached HVSR object; the contract (DESIGN.md 5/C13) is evaluated natively.
"""
TASKS = []
META = dict(
    level="other",
    explanation="bounded only: the executable form of the C13 contract (keep predicate per window and component, object identity and order of the "
                "returned windows, accept masks of an attached traditional / azimuthal object equal to the last selection, records unmodified, "
                "amplitude-scale invariance, conjunction over components, monotonicity in the limits) is evaluated natively on generated windows; "
                "no PyVC obligation is claimed for this property",
    trusted_base=["numpy reshape/mean/abs/max", "the native oracle in bounded/C13.py"],
    assumptions=["A-NP-MEAN", "A-NP-MAX", "A-NP-RESHAPE"],
)
