"""C13 - time-domain rejection keeps exactly the windows that satisfy the criterion (window_rejection.py).

Under contract: maximum_value_window_rejection (normalised and absolute thresholds, three component subsets, no / traditional / two-azimuth
object attached).  sta_lta_window_rejection works through numpy reshape / mean(axis=1) and is evaluated natively (bounded/C13.py).
"""
import z3

from pyvc.core import I, R, B, NONE, StrV, Tup, ClsV
from pyvc.contract import Contract, FunctionTask, sym_obj, sym_arr1
from pyvc import objects
from pyvc.objects import fld, arr_at, arr_len, new_symlist

L = z3.Int("L")
RECS = z3.Const("record_ids", z3.ArraySort(I, I))
thr = z3.Real("maximum_value_threshold")
MX = z3.Function("MX", I, R)          # largest absolute sample of record r over the examined components
GM = z3.Real("GM")                    # largest MX over all records (the normaliser)
KC = z3.Function("KC", I, I)          # number of kept records before r


def comp_id(r, c):
    return fld("SeismicRecording3C", c, I)(z3.Select(RECS, r))


def X(r, c, j):
    return arr_at("TimeSeries", "amplitude", comp_id(r, c), j)


def NS(r, c):
    return arr_len("TimeSeries", "amplitude", comp_id(r, c))


def zabs(x):
    return z3.If(x >= 0, x, -x)


def axioms(comps, normalized):
    r, j, q = z3.Ints("r!mx j!mx q!mx")
    ax = [z3.ForAll([r], MX(r) >= 0, patterns=[MX(r)])]
    for c in comps:
        ax.append(z3.ForAll([r, j], z3.Implies(z3.And(j >= 0, j < NS(r, c)), zabs(X(r, c, j)) <= MX(r)), patterns=[X(r, c, j)]))
    ax.append(z3.ForAll([r], z3.Or(MX(r) == 0, *[z3.Exists([j], z3.And(j >= 0, j < NS(r, c), zabs(X(r, c, j)) == MX(r))) for c in comps]), patterns=[MX(r)]))
    keep = (lambda rr: MX(rr) / GM < thr) if normalized else (lambda rr: MX(rr) < thr)
    ax += [KC(0) == 0, z3.ForAll([r], z3.Implies(r >= 0, KC(r + 1) == KC(r) + z3.If(keep(r), 1, 0)), patterns=[KC(r + 1)]),
           z3.ForAll([r], z3.Implies(r >= 0, z3.And(KC(r) >= 0, KC(r) <= r)), patterns=[KC(r)]),
           # monotone: consequence of the unfolding by induction (step lemma below; A-INDUCTION)
           z3.ForAll([r, q], z3.Implies(z3.And(0 <= r, r <= q), KC(r) <= KC(q)), patterns=[z3.MultiPattern(KC(r), KC(q))]),
           # strict at a kept record (base: unfolding at r; step: monotone) - stated with the trigger the subsequence invariant needs
           z3.ForAll([r, q], z3.Implies(z3.And(0 <= r, r < q, keep(r)), KC(r) < KC(q)), patterns=[z3.MultiPattern(KC(r), KC(q))])]
    if normalized:
        ax += [z3.ForAll([q], z3.Implies(z3.And(q >= 0, q < L), MX(q) <= GM), patterns=[MX(q)]), z3.Exists([q], z3.And(q >= 0, q < L, MX(q) == GM)), GM > 0]
    return ax, keep


def make_inputs(comps, normalized, attach):
    def mk(ex, st):
        st.env["records"] = new_symlist(ex, st, "SeismicRecording3C", length=L, arr=RECS, owner="param:records", name="records")
        st.env["maximum_value_threshold"] = thr
        st.env["normalized"] = z3.BoolVal(normalized)
        st.env["components"] = Tup(StrV(c) for c in comps)
        st.env["L"] = L

        def mk_tr(nm):
            vw = sym_arr1(ex, st, f"{nm}_vw", L, elem="bool", owner=f"param:{nm}.valid_window_boolean_mask")
            vp = sym_arr1(ex, st, f"{nm}_vp", L, elem="bool", owner=f"param:{nm}.valid_peak_boolean_mask")
            return sym_obj(ex, st, "HvsrTraditional", {"valid_window_boolean_mask": vw, "valid_peak_boolean_mask": vp}, owner=f"param:{nm}")
        if attach == "none":
            st.env["hvsr"] = NONE
        elif attach == "traditional":
            st.env["hvsr"] = mk_tr("hvsr")
        else:
            a, b = mk_tr("az0"), mk_tr("az1")
            st.env["hvsr"] = sym_obj(ex, st, "HvsrAzimuthal", {"hvsrs": ex.alloc_list(st, [a, b], owner="param:hvsr.hvsrs")}, owner="param:hvsr")
            st.env["az0"], st.env["az1"] = a, b
        r = z3.Int("r!ns")
        facts = [L >= 1]
        for c in comps:
            facts.append(z3.ForAll([r], NS(r, c) >= 1, patterns=[NS(r, c)]))
        return facts
    return mk


def contract(comps, normalized, attach):
    ax, keep = axioms(comps, normalized)
    KEEP = "(MX(r) / GM < maximum_value_threshold)" if normalized else "(MX(r) < maximum_value_threshold)"
    ens = ["len(result) == KC(L)",
           f"forall(r, 0, L, implies({KEEP}, result[KC(r)] is records[r]))"]
    mask = lambda obj: [f"len({obj}.valid_window_boolean_mask) == L and len({obj}.valid_peak_boolean_mask) == L",
                        f"forall(r, 0, L, {obj}.valid_window_boolean_mask[r] == {KEEP})", f"forall(r, 0, L, {obj}.valid_peak_boolean_mask[r] == {KEEP})"]
    if attach == "traditional":
        ens += mask("hvsr")
    elif attach == "azimuthal":
        ens += mask("az0") + mask("az1")
    keepk = KEEP.replace("(r)", "(i)")
    return Contract(
        qual="hvsrpy.window_rejection.maximum_value_window_rejection", params=["records", "maximum_value_threshold", "normalized", "components", "hvsr"],
        ghost={"MX": MX, "KC": KC, "GM": GM}, requires=[], ensures=ens,
        loops={0: ["forall(q, 0, _k0, maximum_values[q] == MX(q))", "len(maximum_values) == L"],
               2: ["len(passing_records) == KC(_k2)", "len(valid_window_boolean_mask) == _k2",
                   f"forall(i, 0, _k2, valid_window_boolean_mask[i] == {keepk})",
                   f"forall(i, 0, _k2, implies({keepk}, passing_records[KC(i)] is records[i]))"]},
        sym_lists={"passing_records": "SeismicRecording3C", "valid_window_boolean_mask": "bool"}, axioms=ax,
        make_inputs=make_inputs(comps, normalized, attach),
        modifies=["param:hvsr", "param:az0", "param:az1"],
        notes="MX(r) = largest absolute sample of record r over the examined components (complete characterisation: bounds every sample, attained or 0); "
              "normalised: relative to GM = max_r MX(r) > 0 (precondition: some examined sample is non-zero)")


HVT, HVA = ClsV("HvsrTraditional"), ClsV("HvsrAzimuthal")
TASKS = []
for comps in (("ns", "ew", "vt"), ("vt",), ("ns", "ew")):
    for normalized in (True, False):
        for attach in ("none", "traditional", "azimuthal"):
            if comps != ("ns", "ew", "vt") and attach == "azimuthal":
                continue
            TASKS.append(FunctionTask(contract(comps, normalized, attach), module_env={"HvsrTraditional": HVT, "HvsrAzimuthal": HVA},
                                      label=f"hvsrpy.window_rejection.maximum_value_window_rejection[{'+'.join(comps)},{'normalised' if normalized else 'absolute'},hvsr={attach}]",
                                      clauses=["keep iff largest absolute sample (relative when normalised) below threshold; same objects in order; masks = selection"]))

# ---------------------------------------------------------------------------------------------------------------------
# sta_lta_window_rejection: same list / mask bookkeeping, criterion per component from short- and long-term averages.  The averages are
# *named*: STAV(x, q, p)[j] = mean |x[j p : (j+1) p]| (q averages of p samples), LTAV(x, n) = mean |x[0:n]|; np.mean over the samples is
# trusted (A-NP-MEAN), reshape and abs are executed symbolically and matched against those definitions.
from pyvc.core import FuncV, ModV, ARef, Undecided, as_int

ARs = z3.ArraySort(I, R)
STA_S, LTA_S, RMIN, RMAX = z3.Reals("sta_seconds lta_seconds min_sta_lta_ratio max_sta_lta_ratio")
STAV = z3.Function("STAV", ARs, I, I, ARs)
LTAV = z3.Function("LTAV", ARs, I, R)
AMP = objects.arr_term("TimeSeries", "amplitude")
DTf = fld("TimeSeries", "dt_in_seconds", R)
KEEP = z3.Function("KEEP", I, B)             # record r passes on every examined component
KC2 = z3.Function("KC2", I, I)


def _fl(x):
    return z3.ToInt(x)


def _comp_terms(tsid):
    n = arr_len("TimeSeries", "amplitude", tsid)
    p = _fl(STA_S / DTf(tsid))                       # samples per short-term average
    q = n / p                                        # number of short-term averages (integer division)
    pl = _fl(LTA_S / DTf(tsid))                      # samples of the long-term average
    nl = z3.If(pl < p * q, pl, p * q)                # ... taken from the shortened series
    return n, p, q, pl, nl


def _comp_ok(tsid):
    n, p, q, pl, nl = _comp_terms(tsid)
    j = z3.Int("j!sl")
    ratio = z3.Select(STAV(AMP(tsid), q, p), j) / LTAV(AMP(tsid), nl)
    return z3.ForAll([j], z3.Implies(z3.And(j >= 0, j < q), z3.And(ratio <= RMAX, ratio >= RMIN)))


def _find_base(t, acc):
    if z3.is_app(t) and t.decl().name().startswith("fld_TimeSeries_amplitude_array"):
        acc.append(t)
        return
    for c_ in t.children():
        _find_base(c_, acc)
    if z3.is_quantifier(t):
        _find_base(t.body(), acc)


def _m_mean_sl(ex, st, args, kw, node):
    d = ex.arr(st, args[0])
    base = []
    _find_base(d.data, base)
    if not base:
        raise Undecided("np.mean of something that is not built from a time series' samples")
    A = base[0]
    ab = lambda x: z3.If(x >= 0, x, -x)
    if d.rank == 2 and z3.is_int_value(z3.simplify(kw.get("axis", z3.IntVal(-9)))) and z3.simplify(kw["axis"]).as_long() == 1:
        r, c = z3.Ints("r!mm c!mm")
        got = z3.simplify(z3.Select(z3.Select(d.data, r), c))
        want = z3.simplify(ab(z3.Select(A, r * d.shape[1] + c)))
        if not got.eq(want) and not z3.simplify(got - want).eq(z3.RealVal(0)):
            raise Undecided(f"np.mean(axis=1) of an expression the abstraction does not name: {got}")
        ex.safe(st, "mean-of-nonempty-rows", d.shape[1] >= 1, node)
        return ex.alloc_arr(st, (d.shape[0],), STAV(A, d.shape[0], d.shape[1]), "real", "fresh", tag="sta")
    if d.rank == 1 and not kw:
        c = z3.Int("c!mm")
        got = z3.simplify(z3.Select(d.data, c))
        want = z3.simplify(ab(z3.Select(A, c)))
        if not got.eq(want) and not z3.simplify(got - want).eq(z3.RealVal(0)):
            raise Undecided(f"np.mean of an expression the abstraction does not name: {got}")
        return LTAV(A, d.shape[0])
    raise Undecided("np.mean in this form")


def _sl_inputs(comps, attach):
    base = make_inputs(comps, False, attach)

    def mk(ex, st):
        facts = base(ex, st)
        for k in ("maximum_value_threshold", "normalized"):
            st.env.pop(k, None)
        st.env["sta_seconds"], st.env["lta_seconds"], st.env["min_sta_lta_ratio"], st.env["max_sta_lta_ratio"] = STA_S, LTA_S, RMIN, RMAX
        r = z3.Int("r!sl")
        for c in comps:
            n, p, q, pl, nl = _comp_terms(comp_id(r, c))
            # stated input domain: positive steps, at least one sample per short-term average (else the real code divides by zero), and a long-term
            # average that is defined and non-zero
            facts += [z3.ForAll([r], z3.And(DTf(comp_id(r, c)) > 0, p >= 1, pl >= 1, LTAV(AMP(comp_id(r, c)), nl) != 0), patterns=[comp_id(r, c)])]
        return facts + [STA_S > 0, LTA_S > 0]
    return mk


def _sl_axioms(comps):
    r, q = z3.Ints("r!k q!k")
    ok = lambda rr: z3.And(*[_comp_ok(comp_id(rr, c)) for c in comps])
    return [z3.ForAll([r], KEEP(r) == ok(r), patterns=[KEEP(r)]),
            KC2(0) == 0, z3.ForAll([r], z3.Implies(r >= 0, KC2(r + 1) == KC2(r) + z3.If(KEEP(r), 1, 0)), patterns=[KC2(r + 1)]),
            z3.ForAll([r], z3.Implies(r >= 0, z3.And(KC2(r) >= 0, KC2(r) <= r)), patterns=[KC2(r)]),
            z3.ForAll([r, q], z3.Implies(z3.And(0 <= r, r <= q), KC2(r) <= KC2(q)), patterns=[z3.MultiPattern(KC2(r), KC2(q))]),
            z3.ForAll([r, q], z3.Implies(z3.And(0 <= r, r < q, KEEP(r)), KC2(r) < KC2(q)), patterns=[z3.MultiPattern(KC2(r), KC2(q))])]


def sl_contract(comps, attach):
    ens = ["len(result) == KC2(L)", "forall(r, 0, L, implies(KEEP(r), result[KC2(r)] is records[r]))"]
    mask = lambda obj: [f"len({obj}.valid_window_boolean_mask) == L and len({obj}.valid_peak_boolean_mask) == L",
                        f"forall(r, 0, L, {obj}.valid_window_boolean_mask[r] == KEEP(r))", f"forall(r, 0, L, {obj}.valid_peak_boolean_mask[r] == KEEP(r))"]
    if attach == "traditional":
        ens += mask("hvsr")
    exceeds = " or ".join(f"exists(r, 0, L, NPS(r, '{c}') > NSAMP(r, '{c}') or NPL(r, '{c}') > NSAMP(r, '{c}'))" for c in comps)
    gh = {"KEEP": KEEP, "KC2": KC2,
          "NPS": FuncV(lambda ex, st, a, k, n_: _comp_terms(comp_id(a[0], a[1].s))[1], "NPS"), "NPL": FuncV(lambda ex, st, a, k, n_: _comp_terms(comp_id(a[0], a[1].s))[3], "NPL"),
          "NSAMP": FuncV(lambda ex, st, a, k, n_: _comp_terms(comp_id(a[0], a[1].s))[0], "NSAMP")}
    c = Contract(
        qual="hvsrpy.window_rejection.sta_lta_window_rejection",
        params=["records", "sta_seconds", "lta_seconds", "min_sta_lta_ratio", "max_sta_lta_ratio", "components", "hvsr"],
        ghost=gh, ensures=ens, raises_only_if={"IndexError": exceeds}, axioms=_sl_axioms(comps), make_inputs=_sl_inputs(comps, attach),
        loops={0: ["len(passing_records) == KC2(_k0)", "len(valid_window_boolean_mask) == _k0",
                   "forall(i, 0, _k0, valid_window_boolean_mask[i] == KEEP(i))",
                   "forall(i, 0, _k0, implies(KEEP(i), passing_records[KC2(i)] is records[i]))"]},
        sym_lists={"passing_records": "SeismicRecording3C", "valid_window_boolean_mask": "bool"}, modifies=["param:hvsr"],
        notes="a window is kept iff on every examined component every short-term average over the long-term average lies in [min, max]")
    c.array_fields_as_terms = True
    return c


_NP_SL = ModV("np", dict(__import__("pyvc.npmodel", fromlist=["NP"]).NP.attrs, mean=FuncV(_m_mean_sl, "np.mean")))
for comps in (("ns", "ew", "vt"), ("vt",)):
    for attach in ("none", "traditional"):
        TASKS.append(FunctionTask(sl_contract(comps, attach), module_env={"HvsrTraditional": HVT, "HvsrAzimuthal": HVA, "np": _NP_SL},
                                  label=f"hvsrpy.window_rejection.sta_lta_window_rejection[{'+'.join(comps)},hvsr={attach}]",
                                  clauses=["keep iff all short-term / long-term ratios of all examined components lie within the limits; same objects in order; masks = selection"]))

from pyvc.contract import LemmaTask
_r, _q = z3.Ints("r q")
_kp = z3.Bool("keep_q")
TASKS += [LemmaTask("kept-count-monotone[step]", [_r >= 0, _q >= _r, KC(_r) <= KC(_q), KC(_q + 1) == KC(_q) + z3.If(_kp, 1, 0)], KC(_r) <= KC(_q + 1), "KC(r) <= KC(q) ==> KC(r) <= KC(q+1)"),
          LemmaTask("kept-count-strict[base]", [_r >= 0, _kp, KC(_r + 1) == KC(_r) + z3.If(_kp, 1, 0)], KC(_r) < KC(_r + 1), "a kept record increases the count"),
          LemmaTask("kept-count-strict[step]", [_r >= 0, _q > _r, KC(_r) < KC(_q), KC(_q) <= KC(_q + 1)], KC(_r) < KC(_q + 1), "strictness is kept by monotonicity"),
          LemmaTask("kept-count-range[step]", [_r >= 0, KC(_r) >= 0, KC(_r) <= _r, KC(_r + 1) == KC(_r) + z3.If(_kp, 1, 0)], z3.And(KC(_r + 1) >= 0, KC(_r + 1) <= _r + 1), "0 <= KC(r) <= r")]

META = dict(
    level="other",
    explanation="proved: maximum_value_window_rejection for three component subsets x normalised/absolute x (no object, traditional, two-azimuth azimuthal): the "
                "returned list is the order-preserving subsequence of the same objects with largest absolute sample (relative to the overall largest when "
                "normalised) below the threshold, attached objects end with both masks equal to that selection; sta_lta_window_rejection (2 component subsets x "
                "no / traditional object): kept iff on every examined component every short-term average over the long-term average lies within [min, max] "
                "(averages named: STAV(x, q, p)[j] = mean |x[jp:(j+1)p]|, LTAV(x, n) = mean |x[:n]|; reshape and abs executed symbolically and matched, "
                "np.mean trusted), same list / mask bookkeeping, IndexError only if an averaging length exceeds the record; bounded: both contracts natively "
                "incl. call sequences and the numeric value of the averages",
    trusted_base=["A-REAL", "A-PY", "A-NP-MAX / A-NP-ABS", "symbolic list/object model", "azimuthal case proved for two azimuths (loop over a concrete list unrolled)", "PyVC engine + z3/cvc5"],
    assumptions=["A-REAL", "A-PY", "A-NP-MAX", "A-NP-MEAN (np.mean over samples = the named averages; numeric value bounded)",
                 "A-NP-RESHAPE (C order: element (r, c) of x.reshape((a, b)) is x[r b + c])",
                 "sta_lta: positive time steps, at least one sample per short-term average (otherwise the real code divides by zero), long-term average non-zero"],
)
