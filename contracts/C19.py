"""C19 - command-line batch output equals the library pipeline for each file (cli.py).

The schedule quantifier is removed by a contract, not explored: a worker task that (i) works on its own deep copies of both settings
objects, (ii) reads only its own file, and (iii) touches no module-level mutable state is a function of (file, settings content as
loaded); then no chunking, order or worker count can matter (A-POOL: starmap runs every task exactly once).  (i)-(iii) are structural
obligations on the real source.  The real entry point is additionally run on generated files (bounded/C19.py).
"""
import ast

from pyvc import frames
from pyvc.contract import StructTask


def worker(loader):
    fn, _ = loader.find("hvsrpy.cli._process_hvsr")
    body = loader.strip_docstring(fn)
    out = []
    copies = {}
    first_use = {}
    for i, st in enumerate(body):
        if isinstance(st, ast.Assign) and isinstance(st.targets[0], ast.Name) and isinstance(st.value, ast.Call) and ast.unparse(st.value.func) in ("deepcopy", "copy.deepcopy") \
                and len(st.value.args) == 1 and isinstance(st.value.args[0], ast.Name) and st.value.args[0].id == st.targets[0].id:
            copies.setdefault(st.targets[0].id, i)
            continue
        for x in ast.walk(st):
            if isinstance(x, ast.Name) and x.id in ("preprocessing_settings", "processing_settings"):
                first_use.setdefault(x.id, i)
    for p in ("preprocessing_settings", "processing_settings"):
        out.append((f"worker: `{p}` is replaced by deepcopy({p}) before its first use (tasks of a chunk share the argument objects)",
                    p in copies and (p not in first_use or copies[p] < first_use[p]), f"copy at statement {copies.get(p)}, first use at {first_use.get(p)}"))
    calls = [ast.unparse(x) for x in ast.walk(fn) if isinstance(x, ast.Call)]
    out.append(("worker: reads only its own file", "hvsrpy.read([[fname]])" in calls, ""))
    seq = [c for c in calls if c.startswith(("hvsrpy.read(", "hvsrpy.preprocess(", "hvsrpy.process(", "hvsrpy.write_hvsr_object_to_file("))]
    want = ["hvsrpy.read([[fname]])", "hvsrpy.preprocess(srecords, preprocessing_settings)", "hvsrpy.process(srecords, processing_settings)"]
    out.append(("worker: read -> preprocess -> process with the copied settings", seq[:3] == want, str(seq[:3])))
    w = [c for c in calls if c.startswith("hvsrpy.write_hvsr_object_to_file(")]
    out.append(("worker: writes <stem>.csv with the requested distributions",
                len(w) == 1 and "pathlib.Path(fname).stem" in w[0] and "distribution_mc=settings['distribution_mc']" in w[0] and "distribution_fn=settings['distribution_fn']" in w[0], str(w)[:200]))
    return out


def driver(loader):
    fn, _ = loader.find("hvsrpy.cli.cli")
    src = ast.unparse(fn)
    out = [("cli: both settings objects come from read_settings_object_from_file",
            "preprocessing_settings = read_settings_object_from_file(kwargs.pop('preprocessing_settings_file'))" in src and
            "processing_settings = read_settings_object_from_file(kwargs.pop('processing_settings_file'))" in src, ""),
           ("cli: one task per file name through Pool.starmap(_process_hvsr_and_report, zip(fnames, repeat(pre), repeat(proc), repeat(kwargs)))",
            "p.starmap(_process_hvsr_and_report, zip(fnames, itertools.repeat(preprocessing_settings), itertools.repeat(processing_settings), itertools.repeat(kwargs))" in src, ""),
           ("cli: nothing is done when both --no_figure and --no_file are given", "if kwargs['no_figure'] and kwargs['no_file']:\n        return" in src, "")]
    return out


STATE_MODULES = ["hvsrpy.cli", "hvsrpy.data_wrangler", "hvsrpy.preprocessing", "hvsrpy.processing", "hvsrpy.timeseries", "hvsrpy.seismic_recording_3c",
                 "hvsrpy.instrument_response", "hvsrpy.object_io", "hvsrpy.smoothing", "hvsrpy.hvsr_traditional", "hvsrpy.hvsr_curve", "hvsrpy.statistics",
                 "hvsrpy.settings"]


def state(loader):
    out = []
    for m in STATE_MODULES:
        out += frames.module_state_obligations(m)
    return out


TASKS = [StructTask("worker", worker, textual=True), StructTask("driver", driver, textual=True), StructTask("no-module-state", state)]

# ---------------------------------------------------------------------------------------------------------------------
# _process_hvsr under contract (the same facts as the textual obligations above, but decided on the executed body): the stages are opaque functions; what
# is proved is the data flow - the file written is WRITE(PROCESS(PREPROCESS(READ([[fname]]), copy of the preprocessing settings), copy of the processing
# settings)) under the name <stem>.csv with the caller's two distribution options, and neither settings object handed in reaches a stage.
import z3
from pyvc.core import I, R, B, FuncV, ModV, DictV, StrV, Tup, NONE, ORef, LRef, lit
from pyvc.contract import Contract, FunctionTask, sym_obj

READF = z3.Function("READ", I, I)                 # file name id -> list of recordings (id)
PREF = z3.Function("PREPROCESS", I, I, I)         # (recordings id, settings content id) -> windows id
PROCF = z3.Function("PROCESS", I, I, I)           # (windows id, settings content id) -> result id
CONTENT = z3.Function("settings_content", I, I)   # settings object id -> its content (deepcopy preserves it)
STEMCSV = z3.Function("stem_dot_csv", I, I)       # file name id -> "<stem>.csv" (id)
FNAME = z3.Int("fname_id")
DMC, DFN = z3.Ints("distribution_mc distribution_fn")


class _Val(StrV):
    """an opaque value with an identity (file names, recordings, results)"""

    def __init__(self, vid, what="<value>"):
        super().__init__(what)
        self.vid = vid


def _cli_inputs(no_figure, no_file):
    def mk(ex, st):
        st.env["fname"] = _Val(FNAME, "<fname>")
        st.env["preprocessing_settings"] = sym_obj(ex, st, "Settings", {"content": z3.Int("pre_content"), "is_copy": z3.BoolVal(False)}, owner="param:preprocessing_settings")
        st.env["processing_settings"] = sym_obj(ex, st, "Settings", {"content": z3.Int("proc_content"), "is_copy": z3.BoolVal(False)}, owner="param:processing_settings")
        st.env["settings"] = DictV({"no_figure": z3.BoolVal(no_figure), "no_file": z3.BoolVal(no_file), "distribution_mc": DMC, "distribution_fn": DFN, "ymax": z3.Real("ymax")},
                                   owner="param:settings")
        st.env["__written"] = NONE
        return []
    return mk


def _m_deepcopy_obj(ex, st, args, kw, node):
    o = st.heap[args[0].oid]
    return ex.alloc_obj(st, o.cls, {"content": o.fields["content"], "is_copy": z3.BoolVal(True)}, "fresh")


def _own_copy(ex, st, o, node, what):
    ex.add_obl(f"call-pre[{what}:own-copy-of-the-settings@{node.lineno}]", "call-pre", st, st.heap[o.oid].fields["is_copy"], node.lineno,
               f"{what} receives the task's own deep copy of the settings, not the object shared by the tasks of a chunk")
    return st.heap[o.oid].fields["content"]


def _m_read(ex, st, args, kw, node):
    outer = st.heap[args[0].sid].items
    inner = st.heap[outer[0].sid].items if len(outer) == 1 and isinstance(outer[0], LRef) else None
    if inner is None or len(inner) != 1 or not isinstance(inner[0], _Val) or kw:
        raise Undecided("hvsrpy.read is handed something other than [[fname]]")
    return _Val(READF(inner[0].vid), "<recordings>")


from pyvc.core import Undecided
_HV = ModV("hvsrpy", {
    "read": FuncV(_m_read, "hvsrpy.read"),
    "preprocess": FuncV(lambda ex, st, a, k, n_: _Val(PREF(a[0].vid, _own_copy(ex, st, a[1], n_, "preprocess")), "<windows>"), "hvsrpy.preprocess"),
    "process": FuncV(lambda ex, st, a, k, n_: _Val(PROCF(a[0].vid, _own_copy(ex, st, a[1], n_, "process")), "<result>"), "hvsrpy.process"),
    "write_hvsr_object_to_file": FuncV(lambda ex, st, a, k, n_: (st.env.__setitem__("__written", Tup((a[0], a[1], k.get("distribution_mc", NONE), k.get("distribution_fn", NONE)))), NONE)[1],
                                       "hvsrpy.write_hvsr_object_to_file"),
    "HVSRPY_MPL_STYLE": StrV("<style>"),
})


class _Stem(StrV):
    pass


def _m_path(ex, st, args, kw, node):
    return ModV("Path", {"stem": _Val(args[0].vid, "<stem>")})


def _fstring_csv(ex, st, e):
    """f"{pathlib.Path(fname).stem}.csv" - the only f-string whose value matters: the stem of the file name followed by '.csv'"""
    import ast as _ast
    if len(e.values) == 2 and isinstance(e.values[0], _ast.FormattedValue) and isinstance(e.values[1], _ast.Constant) and e.values[1].value == ".csv":
        v = ex.ev(e.values[0].value, st)
        if isinstance(v, _Val) and v.s == "<stem>":
            return _Val(STEMCSV(v.vid), "<stem>.csv")
    return StrV("<fstring>")


_CLI_ENV = {"deepcopy": FuncV(_m_deepcopy_obj, "deepcopy"), "hvsrpy": _HV, "pathlib": ModV("pathlib", {"Path": FuncV(_m_path, "pathlib.Path")}),
            "time": ModV("time", {"perf_counter": FuncV(lambda ex, st, a, k, n_: ex.fresh("t", R), "time.perf_counter")}),
            "print": FuncV(lambda ex, st, a, k, n_: NONE, "print")}


def _written(ex, st, a, k, n_):
    w = st.env["__written"]
    if not isinstance(w, Tup):
        return z3.BoolVal(False)
    h, name, mc, fn = w
    ok = isinstance(h, _Val) and isinstance(name, _Val) and name.s == "<stem>.csv"
    if not ok:
        return z3.BoolVal(False)
    pre, proc = (st.heap[st.env[x].oid].fields["content"] for x in ("preprocessing_settings", "processing_settings"))
    pre0, proc0 = z3.Int("pre_content"), z3.Int("proc_content")
    return z3.And(h.vid == PROCF(PREF(READF(FNAME), pre0), proc0), name.vid == STEMCSV(FNAME), lit(mc) == DMC, lit(fn) == DFN)


WORKER = Contract(qual="hvsrpy.cli._process_hvsr", params=["fname", "preprocessing_settings", "processing_settings", "settings"],
                  ghost={"written": FuncV(_written, "written")}, make_inputs=_cli_inputs(True, False), ensures=["written()"], modifies=[],
                  notes="--no_figure: the file <stem>.csv receives PROCESS(PREPROCESS(READ([[fname]]), own copy of the preprocessing settings), own copy of the processing settings) "
                        "with the caller's distribution options; the settings objects handed in are neither passed on nor written")
WORKER.ghost_state = ("__written",)
WORKER.fstring_model = _fstring_csv
TASKS.append(FunctionTask(WORKER, module_env=_CLI_ENV, label="hvsrpy.cli._process_hvsr[--no_figure]", clauses=["each file's output is the library pipeline for that file with its own settings copies"]))
NOTHING = Contract(qual="hvsrpy.cli._process_hvsr", params=["fname", "preprocessing_settings", "processing_settings", "settings"],
                   ghost={"nothing_written": FuncV(lambda ex, st, a, k, n_: z3.BoolVal(st.env["__written"] is NONE), "nothing_written")},
                   make_inputs=_cli_inputs(True, True), ensures=["nothing_written()"], modifies=[])
NOTHING.ghost_state = ("__written",)
NOTHING.fstring_model = _fstring_csv
TASKS.append(FunctionTask(NOTHING, module_env=_CLI_ENV, label="hvsrpy.cli._process_hvsr[--no_figure --no_file]", clauses=["--no_file writes nothing"]))

# figures switched on (the default): the figure is drawn from the same result, and a figure that cannot be drawn - plot_single_panel_hvsr_curves raises ValueError for a
# mean curve without a peak in the search range (a named condition here) - does not cost the file: it has been written when the exception leaves the worker
from pyvc.core import PyRaiseIf as _PyRaiseIf
CANNOT_DRAW = z3.Bool("the_figure_cannot_be_drawn")
_nop = lambda name: FuncV(lambda ex, st, a, k, n_: NONE, name)


def _m_plot_panel(ex, st, args, kw, node):
    if not (len(args) == 1 and isinstance(args[0], _Val) and args[0].s == "<result>"):
        raise Undecided("the figure is drawn from something other than the result")
    st.env["__drawn"] = args[0]
    if not any(z3.eq(p_, z3.Not(CANNOT_DRAW)) for p_ in st.pc):
        raise _PyRaiseIf(CANNOT_DRAW, "ValueError")
    return NONE


_FIG = ModV("figure", {"savefig": _nop("fig.savefig")})
_AX = ModV("axes", {"set_ylim": _nop("ax.set_ylim")})
_PLT = ModV("plt", {"style": ModV("plt.style", {"use": _nop("plt.style.use")}), "subplots": FuncV(lambda ex, st, a, k, n_: Tup((_FIG, _AX)), "plt.subplots"), "close": _nop("plt.close")})
_HV_FIG = ModV("hvsrpy", dict(_HV.attrs, plot_single_panel_hvsr_curves=FuncV(_m_plot_panel, "hvsrpy.plot_single_panel_hvsr_curves")))
FIGURES = Contract(qual="hvsrpy.cli._process_hvsr", params=["fname", "preprocessing_settings", "processing_settings", "settings"],
                   ghost={"written": FuncV(_written, "written"), "CANNOT_DRAW": CANNOT_DRAW}, make_inputs=_cli_inputs(False, False),
                   ensures=["written()", "not CANNOT_DRAW"], raises_only_if={"ValueError": "CANNOT_DRAW"}, ensures_on_raise={"ValueError": ["written()"]}, modifies=[],
                   notes="figures on: the same file as with --no_figure, and it has been written also when the figure cannot be drawn (the exception of the plotting function "
                         "leaves the worker - and is reported by _process_hvsr_and_report - after the file is there)")
FIGURES.ghost_state = ("__written", "__drawn")
FIGURES.fstring_model = _fstring_csv
FIGURES.conditional_raises = True
TASKS.append(FunctionTask(FIGURES, module_env=dict(_CLI_ENV, hvsrpy=_HV_FIG, plt=_PLT), label="hvsrpy.cli._process_hvsr[figures on]",
                          clauses=["a figure that cannot be drawn does not cost the result file"]))

# ---------------------------------------------------------------------------------------------------------------------
# cli() on its executed body: what the pool is asked to do.  Task i is (file name i, the preprocessing settings object read from the preprocessing file, the
# processing settings object read from the processing file, the remaining options) for the worker _process_hvsr - one task per file name, in the order given,
# every task with the same two settings objects and option dictionary; the options keep the caller's values; nothing is started under --no_figure --no_file.
# A-POOL: starmap runs every task once (tasks of a chunk share the unpickled argument objects - hence the worker's own copies, proved above).
from pyvc.core import SeqV
NFILES = z3.Int("n_file_names")
FN_AT = z3.Function("file_name", I, I)
SETTINGS_READ = z3.Function("settings_object_read_from", I, I)      # settings file id -> content id of the object the reader returns
PRE_FILE, PROC_FILE = z3.Ints("preprocessing_settings_file processing_settings_file")
NPROC, CPUS = z3.Ints("nproc_option cpu_count")
NOFIG, NOFILE = z3.Bools("no_figure no_file")
YMAX = z3.Real("ymax_option")


def _main_inputs(nproc_given):
    def mk(ex, st):
        st.env["ctx"] = NONE
        st.env["kwargs"] = DictV({"file_names": SeqV(NFILES, lambda ex_, st_, i: FN_AT(i), owner="param:file_names", name="file_names"),
                                  "preprocessing_settings_file": PRE_FILE, "processing_settings_file": PROC_FILE, "distribution_fn": DFN, "distribution_mc": DMC,
                                  "no_figure": NOFIG, "no_file": NOFILE, "ymax": YMAX, "nproc": NPROC if nproc_given else NONE})
        st.env["__pools"], st.env["__starmaps"] = [], []
        # preconditions: at least one file name; a positive number of workers (with a single CPU and no --nproc the default is 0 workers and the command fails
        # with an error before any file is processed - no output, hence no wrong output)
        return [NFILES >= 1, NPROC >= 1, CPUS >= 2]
    return mk


def _m_repeat19(ex, st, args, kw, node):
    inf = ex.fresh("unbounded", I)
    st.pc.append(inf >= NFILES)            # itertools.repeat never ends: longer than any list of file names
    x = args[0]
    return SeqV(inf, lambda ex_, st_, i: x, owner="fresh", name="repeat")


def _m_read_settings(ex, st, args, kw, node):
    return ex.alloc_obj(st, "Settings", {"content": SETTINGS_READ(lit(args[0])), "is_copy": z3.BoolVal(False)}, "fresh")


def _m_pool(ex, st, args, kw, node):
    p_ = ex.alloc_obj(st, "Pool", {"size": lit(args[0])}, "fresh")
    st.env["__pools"] = st.env["__pools"] + [p_]
    return p_


FAILS = z3.Function("file_cannot_be_processed", I, z3.BoolSort())      # the library pipeline raises for this file name


def _m_starmap(ex, st, args, kw, node):
    """one result per task, in task order (A-POOL); the reporting worker's result for a file: the file's name when the pipeline raised for it, None otherwise
    (its contract, below)"""
    from pyvc.core import OptV
    pool, fn, tasks = args
    st.env["__starmaps"] = st.env["__starmaps"] + [(pool, fn, tasks, kw.get("chunksize", NONE))]
    return SeqV(NFILES, lambda ex_, st_, i: OptV(z3.Not(FAILS(FN_AT(lit(i)))), FN_AT(lit(i))), owner="fresh", name="starmap results")


def _one_batch(ex, st, a, k, n_):
    """one pool, one starmap on it, for the worker"""
    ps, sm = st.env["__pools"], st.env["__starmaps"]
    return z3.BoolVal(len(ps) == 1 and len(sm) == 1 and sm[0][0].oid == ps[0].oid and isinstance(sm[0][1], FuncV) and sm[0][1].name == "_process_hvsr_and_report" and isinstance(sm[0][2], SeqV))


def _task_is(ex, st, a, k, n_):
    """task i = (file name i, object read from the preprocessing file, object read from the processing file, the option dictionary with the caller's values)"""
    sm = st.env["__starmaps"]
    if len(sm) != 1 or not isinstance(sm[0][2], SeqV):
        return z3.BoolVal(False)
    t = sm[0][2].getter(ex, st, lit(a[0]))
    if not isinstance(t, Tup) or len(t) != 4 or not isinstance(t[1], ORef) or not isinstance(t[2], ORef) or not isinstance(t[3], DictV):
        return z3.BoolVal(False)
    opts = t[3].items
    want = {"distribution_fn": DFN, "distribution_mc": DMC, "no_figure": NOFIG, "no_file": NOFILE, "ymax": YMAX}
    if any(key not in opts or not z3.is_expr(lit(opts[key])) for key in want):
        return z3.BoolVal(False)
    return z3.And(lit(t[0]) == FN_AT(lit(a[0])), st.heap[t[1].oid].fields["content"] == SETTINGS_READ(PRE_FILE), st.heap[t[2].oid].fields["content"] == SETTINGS_READ(PROC_FILE),
                  *[lit(opts[key]) == v for key, v in want.items()])


def _n_tasks(ex, st, a, k, n_):
    sm = st.env["__starmaps"]
    return sm[0][2].length if len(sm) == 1 and isinstance(sm[0][2], SeqV) else z3.IntVal(-1)


_MAIN_GHOST = {"FAILS": lambda i: FAILS(FN_AT(i)), "one_batch": FuncV(_one_batch, "one_batch"), "task_is": FuncV(_task_is, "task_is"), "n_tasks": FuncV(_n_tasks, "n_tasks"), "NFILES": NFILES,
               "nothing_started": FuncV(lambda ex, st, a, k, n_: z3.BoolVal(not st.env["__pools"] and not st.env["__starmaps"]), "nothing_started"),
               "pool_size": FuncV(lambda ex, st, a, k, n_: st.heap[st.env["__pools"][0].oid].fields["size"] if st.env["__pools"] else z3.IntVal(-1), "pool_size"),
               "chunksize": FuncV(lambda ex, st, a, k, n_: lit(st.env["__starmaps"][0][3]) if st.env["__starmaps"] and st.env["__starmaps"][0][3] is not NONE else z3.IntVal(-1), "chunksize"),
               "NOFIG": NOFIG, "NOFILE": NOFILE, "WORKERS": None}
_POOL = FuncV(_m_pool, "Pool", attrs={"context_manager": True})
_MAIN_ENV = {"read_settings_object_from_file": FuncV(_m_read_settings, "read_settings_object_from_file"), "Pool": _POOL,
             "os": ModV("os", {"cpu_count": FuncV(lambda ex, st, a, k, n_: CPUS, "os.cpu_count")}),
             "itertools": ModV("itertools", {"repeat": FuncV(_m_repeat19, "itertools.repeat")}),
             "_process_hvsr_and_report": FuncV(lambda ex, st, a, k, n_: NONE, "_process_hvsr_and_report"),
             "click": ModV("click", {})}
for _given in (False, True):
    _workers = "NPROC" if _given else "CPUS - 1"
    _g = dict(_MAIN_GHOST, WORKERS=(NPROC if _given else CPUS - 1), NPROC=NPROC, CPUS=CPUS)
    _c = Contract(qual="hvsrpy.cli.cli", params=["ctx", "kwargs"], ghost=_g, make_inputs=_main_inputs(_given),
                  ensures=["implies(NOFIG and NOFILE, nothing_started())",
                           "implies(not (NOFIG and NOFILE), one_batch() and n_tasks() == NFILES and forall(i, 0, NFILES, task_is(i)))",
                           "implies(not (NOFIG and NOFILE), pool_size() == min(NFILES, WORKERS) and chunksize() == max(1, NFILES // WORKERS))",
                           "implies(not (NOFIG and NOFILE), forall(i, 0, NFILES, not FAILS(i)))"],
                  raises_only_if={"ClickException": "not (NOFIG and NOFILE) and exists(i, 0, NFILES, FAILS(i))"},
                  ensures_on_raise={"ClickException": ["one_batch() and n_tasks() == NFILES and forall(i, 0, NFILES, task_is(i))"]},
                  modifies=["param:kwargs"],
                  notes="one task per file name in the order given, each with the file's own name and the same settings objects (read once from the two files) and options; "
                        "pool of min(files, workers) processes, chunks of max(1, files // workers); with --no_figure --no_file no pool is started; the command "
                        "ends with an error exactly when the pipeline raised for some file - after every file has had its task")
    _c.ghost_state = ("__pools", "__starmaps")
    TASKS.append(FunctionTask(_c, module_env=_MAIN_ENV, registry={"Pool.starmap": FuncV(_m_starmap, "Pool.starmap")},
                              label=f"hvsrpy.cli.cli[--nproc {'given' if _given else 'default'}]",
                              clauses=["one task per input file, in order, each with that file's name and the settings read from the two settings files"]))

# the two library stages the worker calls are themselves dispatchers: their routing is part of "the library pipeline"
import contracts.dispatch as _DISPATCH
TASKS += _DISPATCH.PROCESS_TASKS + _DISPATCH.PREPROCESS_TASKS

META = dict(
    level="other",
    explanation="structural obligations: the worker deep-copies both settings objects before first use, reads only its own file, runs read -> preprocess -> "
                "process -> write; the driver loads both settings from file and issues one starmap task per file; none of the 13 modules on the path writes "
                "module-level state - hence a task's output is a function of (file, loaded settings content) under A-POOL; bounded: the real entry point on "
                "3 generated miniSEED files with different rates and lengths, 4 (quick) / 36 (thorough) order x --nproc x settings-family schedules, "
                "CSV compared byte-wise with the single-file pipeline run in a fresh interpreter",
    trusted_base=["A-POOL (multiprocessing.Pool.starmap executes every task exactly once; chunks share unpickled argument objects)", "deepcopy copies at every level",
                  "the AST pattern matcher"],
    assumptions=["A-POOL", "A-DET"],
)

# _process_hvsr_and_report: the worker called once with the task's own arguments in order; an exception of the pipeline does not leave the function (the rest of the
# chunk is processed): the result is the file's name when the pipeline raised for it, None otherwise
from pyvc.core import PyRaiseIf
FNAME = z3.Int("file_name_of_the_task")
A1, A2, A3 = z3.Ints("task_argument_1 task_argument_2 task_argument_3")


def _m_worker(ex, st, args, kw, node):
    from pyvc.core import PyRaise
    bad = FAILS(FNAME)
    if not any(z3.eq(p_, bad) or z3.eq(p_, z3.Not(bad)) for p_ in st.pc):
        raise PyRaiseIf(bad, "ValueError")          # the statement is run again under each of the two assumptions
    st.env["__worker_calls"] = st.env["__worker_calls"] + [tuple(args)]
    if any(z3.eq(p_, bad) for p_ in st.pc):
        raise PyRaise("ValueError", "the pipeline raised for this file")
    return NONE


def _report_inputs(ex, st):
    st.env["fname"] = FNAME
    st.env["args"] = Tup((A1, A2, A3))
    st.env["__worker_calls"] = []
    return []


def _called_once(ex, st, a, k, n_):
    c = st.env["__worker_calls"]
    return z3.BoolVal(len(c) == 1 and len(c[0]) == 4 and all(z3.is_expr(lit(x)) for x in c[0])) if len(c) != 1 or len(c[0]) != 4 else \
        z3.And(lit(c[0][0]) == FNAME, lit(c[0][1]) == A1, lit(c[0][2]) == A2, lit(c[0][3]) == A3)


_rc = Contract(qual="hvsrpy.cli._process_hvsr_and_report", params=["fname", "args"],
               ghost={"called_once": FuncV(_called_once, "called_once"), "FAILS": FAILS(FNAME), "FNAME": FNAME}, make_inputs=_report_inputs,
               ensures=["implies(not FAILS, called_once())", "implies(FAILS, result == FNAME)", "implies(not FAILS, result is None)"], modifies=[],
               notes="the worker once, with the task's arguments in their order; whatever it raises is caught and reported as the file's name - no exception leaves "
                     "the function, so the remaining tasks of the chunk are run (Pool.starmap abandons a chunk at the first exception).  The arguments of the call are "
                     "checked on the way on which it returns: the engine restarts the raising way from the state before the statement, and the call expression is the same "
                     "one for both outcomes")
_rc.conditional_raises = True
_rc.ghost_state = ("__worker_calls",)
TASKS.append(FunctionTask(_rc, module_env={"_process_hvsr": FuncV(_m_worker, "_process_hvsr")}, label="hvsrpy.cli._process_hvsr_and_report",
                          clauses=["a file that cannot be processed is reported, the other files of its chunk are still processed"]))
