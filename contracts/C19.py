"""C19 - command-line batch output equals the library pipeline for each file (cli.py).

The schedule quantifier is removed by a contract, not explored: a worker task that (i) works on its own deep copies of both settings
objects, (ii) reads only its own file, and (iii) touches no module-level mutable state is a function of (file, settings content as
loaded); then no chunking, order or worker count can matter (A-POOL: starmap runs every task exactly once).  (i)-(iii) are structural
obligations on the real source.  The real entry point is additionally run on generated files (bounded/C19.py).
"""
import ast

from pyvc import frames
from pyvc.contract import StructTask


def worker(loader):
    fn, _ = loader.find("hvsrpy.cli._process_hvsr")
    body = loader.strip_docstring(fn)
    out = []
    copies = {}
    first_use = {}
    for i, st in enumerate(body):
        if isinstance(st, ast.Assign) and isinstance(st.targets[0], ast.Name) and isinstance(st.value, ast.Call) and ast.unparse(st.value.func) in ("deepcopy", "copy.deepcopy") \
                and len(st.value.args) == 1 and isinstance(st.value.args[0], ast.Name) and st.value.args[0].id == st.targets[0].id:
            copies.setdefault(st.targets[0].id, i)
            continue
        for x in ast.walk(st):
            if isinstance(x, ast.Name) and x.id in ("preprocessing_settings", "processing_settings"):
                first_use.setdefault(x.id, i)
    for p in ("preprocessing_settings", "processing_settings"):
        out.append((f"worker: `{p}` is replaced by deepcopy({p}) before its first use (tasks of a chunk share the argument objects)",
                    p in copies and (p not in first_use or copies[p] < first_use[p]), f"copy at statement {copies.get(p)}, first use at {first_use.get(p)}"))
    calls = [ast.unparse(x) for x in ast.walk(fn) if isinstance(x, ast.Call)]
    out.append(("worker: reads only its own file", "hvsrpy.read([[fname]])" in calls, ""))
    seq = [c for c in calls if c.startswith(("hvsrpy.read(", "hvsrpy.preprocess(", "hvsrpy.process(", "hvsrpy.write_hvsr_object_to_file("))]
    want = ["hvsrpy.read([[fname]])", "hvsrpy.preprocess(srecords, preprocessing_settings)", "hvsrpy.process(srecords, processing_settings)"]
    out.append(("worker: read -> preprocess -> process with the copied settings", seq[:3] == want, str(seq[:3])))
    w = [c for c in calls if c.startswith("hvsrpy.write_hvsr_object_to_file(")]
    out.append(("worker: writes <stem>.csv with the requested distributions",
                len(w) == 1 and "pathlib.Path(fname).stem" in w[0] and "distribution_mc=settings['distribution_mc']" in w[0] and "distribution_fn=settings['distribution_fn']" in w[0], str(w)[:200]))
    return out


def driver(loader):
    fn, _ = loader.find("hvsrpy.cli.cli")
    src = ast.unparse(fn)
    out = [("cli: both settings objects come from read_settings_object_from_file",
            "preprocessing_settings = read_settings_object_from_file(kwargs.pop('preprocessing_settings_file'))" in src and
            "processing_settings = read_settings_object_from_file(kwargs.pop('processing_settings_file'))" in src, ""),
           ("cli: one task per file name through Pool.starmap(_process_hvsr, zip(fnames, repeat(pre), repeat(proc), repeat(kwargs)))",
            "p.starmap(_process_hvsr, zip(fnames, itertools.repeat(preprocessing_settings), itertools.repeat(processing_settings), itertools.repeat(kwargs))" in src, ""),
           ("cli: nothing is done when both --no_figure and --no_file are given", "if kwargs['no_figure'] and kwargs['no_file']:\n        return" in src, "")]
    return out


STATE_MODULES = ["hvsrpy.cli", "hvsrpy.data_wrangler", "hvsrpy.preprocessing", "hvsrpy.processing", "hvsrpy.timeseries", "hvsrpy.seismic_recording_3c",
                 "hvsrpy.instrument_response", "hvsrpy.object_io", "hvsrpy.smoothing", "hvsrpy.hvsr_traditional", "hvsrpy.hvsr_curve", "hvsrpy.statistics",
                 "hvsrpy.settings"]


def state(loader):
    out = []
    for m in STATE_MODULES:
        out += frames.module_state_obligations(m)
    return out


TASKS = [StructTask("worker", worker, textual=True), StructTask("driver", driver, textual=True), StructTask("no-module-state", state)]

META = dict(
    level="other",
    explanation="structural obligations: the worker deep-copies both settings objects before first use, reads only its own file, runs read -> preprocess -> "
                "process -> write; the driver loads both settings from file and issues one starmap task per file; none of the 13 modules on the path writes "
                "module-level state - hence a task's output is a function of (file, loaded settings content) under A-POOL; bounded: the real entry point on "
                "3 generated miniSEED files with different rates and lengths, 4 (quick) / 36 (thorough) order x --nproc x settings-family schedules, "
                "CSV compared byte-wise with the single-file pipeline run in a fresh interpreter",
    trusted_base=["A-POOL (multiprocessing.Pool.starmap executes every task exactly once; chunks share unpickled argument objects)", "deepcopy copies at every level",
                  "the AST pattern matcher"],
    assumptions=["A-POOL", "A-DET"],
)
