"""C19 - command-line batch output equals the library pipeline for each file (cli.py).

The schedule quantifier is removed by a contract, not explored: a worker task that (i) works on its own deep copies of both settings
objects, (ii) reads only its own file, and (iii) touches no module-level mutable state is a function of (file, settings content as
loaded); then no chunking, order or worker count can matter (A-POOL: starmap runs every task exactly once).  (i)-(iii) are structural
obligations on the real source.  The real entry point is additionally run on generated files (bounded/C19.py).
"""
import ast

from pyvc import frames
from pyvc.contract import StructTask


def worker(loader):
    fn, _ = loader.find("hvsrpy.cli._process_hvsr")
    body = loader.strip_docstring(fn)
    out = []
    copies = {}
    first_use = {}
    for i, st in enumerate(body):
        if isinstance(st, ast.Assign) and isinstance(st.targets[0], ast.Name) and isinstance(st.value, ast.Call) and ast.unparse(st.value.func) in ("deepcopy", "copy.deepcopy") \
                and len(st.value.args) == 1 and isinstance(st.value.args[0], ast.Name) and st.value.args[0].id == st.targets[0].id:
            copies.setdefault(st.targets[0].id, i)
            continue
        for x in ast.walk(st):
            if isinstance(x, ast.Name) and x.id in ("preprocessing_settings", "processing_settings"):
                first_use.setdefault(x.id, i)
    for p in ("preprocessing_settings", "processing_settings"):
        out.append((f"worker: `{p}` is replaced by deepcopy({p}) before its first use (tasks of a chunk share the argument objects)",
                    p in copies and (p not in first_use or copies[p] < first_use[p]), f"copy at statement {copies.get(p)}, first use at {first_use.get(p)}"))
    calls = [ast.unparse(x) for x in ast.walk(fn) if isinstance(x, ast.Call)]
    out.append(("worker: reads only its own file", "hvsrpy.read([[fname]])" in calls, ""))
    seq = [c for c in calls if c.startswith(("hvsrpy.read(", "hvsrpy.preprocess(", "hvsrpy.process(", "hvsrpy.write_hvsr_object_to_file("))]
    want = ["hvsrpy.read([[fname]])", "hvsrpy.preprocess(srecords, preprocessing_settings)", "hvsrpy.process(srecords, processing_settings)"]
    out.append(("worker: read -> preprocess -> process with the copied settings", seq[:3] == want, str(seq[:3])))
    w = [c for c in calls if c.startswith("hvsrpy.write_hvsr_object_to_file(")]
    out.append(("worker: writes <stem>.csv with the requested distributions",
                len(w) == 1 and "pathlib.Path(fname).stem" in w[0] and "distribution_mc=settings['distribution_mc']" in w[0] and "distribution_fn=settings['distribution_fn']" in w[0], str(w)[:200]))
    return out


def driver(loader):
    fn, _ = loader.find("hvsrpy.cli.cli")
    src = ast.unparse(fn)
    out = [("cli: both settings objects come from read_settings_object_from_file",
            "preprocessing_settings = read_settings_object_from_file(kwargs.pop('preprocessing_settings_file'))" in src and
            "processing_settings = read_settings_object_from_file(kwargs.pop('processing_settings_file'))" in src, ""),
           ("cli: one task per file name through Pool.starmap(_process_hvsr, zip(fnames, repeat(pre), repeat(proc), repeat(kwargs)))",
            "p.starmap(_process_hvsr, zip(fnames, itertools.repeat(preprocessing_settings), itertools.repeat(processing_settings), itertools.repeat(kwargs))" in src, ""),
           ("cli: nothing is done when both --no_figure and --no_file are given", "if kwargs['no_figure'] and kwargs['no_file']:\n        return" in src, "")]
    return out


STATE_MODULES = ["hvsrpy.cli", "hvsrpy.data_wrangler", "hvsrpy.preprocessing", "hvsrpy.processing", "hvsrpy.timeseries", "hvsrpy.seismic_recording_3c",
                 "hvsrpy.instrument_response", "hvsrpy.object_io", "hvsrpy.smoothing", "hvsrpy.hvsr_traditional", "hvsrpy.hvsr_curve", "hvsrpy.statistics",
                 "hvsrpy.settings"]


def state(loader):
    out = []
    for m in STATE_MODULES:
        out += frames.module_state_obligations(m)
    return out


TASKS = [StructTask("worker", worker, textual=True), StructTask("driver", driver, textual=True), StructTask("no-module-state", state)]

# ---------------------------------------------------------------------------------------------------------------------
# _process_hvsr under contract (the same facts as the textual obligations above, but decided on the executed body): the stages are opaque functions; what
# is proved is the data flow - the file written is WRITE(PROCESS(PREPROCESS(READ([[fname]]), copy of the preprocessing settings), copy of the processing
# settings)) under the name <stem>.csv with the caller's two distribution options, and neither settings object handed in reaches a stage.
import z3
from pyvc.core import I, R, B, FuncV, ModV, DictV, StrV, Tup, NONE, ORef, LRef, lit
from pyvc.contract import Contract, FunctionTask, sym_obj

READF = z3.Function("READ", I, I)                 # file name id -> list of recordings (id)
PREF = z3.Function("PREPROCESS", I, I, I)         # (recordings id, settings content id) -> windows id
PROCF = z3.Function("PROCESS", I, I, I)           # (windows id, settings content id) -> result id
CONTENT = z3.Function("settings_content", I, I)   # settings object id -> its content (deepcopy preserves it)
STEMCSV = z3.Function("stem_dot_csv", I, I)       # file name id -> "<stem>.csv" (id)
FNAME = z3.Int("fname_id")
DMC, DFN = z3.Ints("distribution_mc distribution_fn")


class _Val(StrV):
    """an opaque value with an identity (file names, recordings, results)"""

    def __init__(self, vid, what="<value>"):
        super().__init__(what)
        self.vid = vid


def _cli_inputs(no_figure, no_file):
    def mk(ex, st):
        st.env["fname"] = _Val(FNAME, "<fname>")
        st.env["preprocessing_settings"] = sym_obj(ex, st, "Settings", {"content": z3.Int("pre_content"), "is_copy": z3.BoolVal(False)}, owner="param:preprocessing_settings")
        st.env["processing_settings"] = sym_obj(ex, st, "Settings", {"content": z3.Int("proc_content"), "is_copy": z3.BoolVal(False)}, owner="param:processing_settings")
        st.env["settings"] = DictV({"no_figure": z3.BoolVal(no_figure), "no_file": z3.BoolVal(no_file), "distribution_mc": DMC, "distribution_fn": DFN, "ymax": z3.Real("ymax")},
                                   owner="param:settings")
        st.env["__written"] = NONE
        return []
    return mk


def _m_deepcopy_obj(ex, st, args, kw, node):
    o = st.heap[args[0].oid]
    return ex.alloc_obj(st, o.cls, {"content": o.fields["content"], "is_copy": z3.BoolVal(True)}, "fresh")


def _own_copy(ex, st, o, node, what):
    ex.add_obl(f"call-pre[{what}:own-copy-of-the-settings@{node.lineno}]", "call-pre", st, st.heap[o.oid].fields["is_copy"], node.lineno,
               f"{what} receives the task's own deep copy of the settings, not the object shared by the tasks of a chunk")
    return st.heap[o.oid].fields["content"]


def _m_read(ex, st, args, kw, node):
    outer = st.heap[args[0].sid].items
    inner = st.heap[outer[0].sid].items if len(outer) == 1 and isinstance(outer[0], LRef) else None
    if inner is None or len(inner) != 1 or not isinstance(inner[0], _Val) or kw:
        raise Undecided("hvsrpy.read is handed something other than [[fname]]")
    return _Val(READF(inner[0].vid), "<recordings>")


from pyvc.core import Undecided
_HV = ModV("hvsrpy", {
    "read": FuncV(_m_read, "hvsrpy.read"),
    "preprocess": FuncV(lambda ex, st, a, k, n_: _Val(PREF(a[0].vid, _own_copy(ex, st, a[1], n_, "preprocess")), "<windows>"), "hvsrpy.preprocess"),
    "process": FuncV(lambda ex, st, a, k, n_: _Val(PROCF(a[0].vid, _own_copy(ex, st, a[1], n_, "process")), "<result>"), "hvsrpy.process"),
    "write_hvsr_object_to_file": FuncV(lambda ex, st, a, k, n_: (st.env.__setitem__("__written", Tup((a[0], a[1], k.get("distribution_mc", NONE), k.get("distribution_fn", NONE)))), NONE)[1],
                                       "hvsrpy.write_hvsr_object_to_file"),
    "HVSRPY_MPL_STYLE": StrV("<style>"),
})


class _Stem(StrV):
    pass


def _m_path(ex, st, args, kw, node):
    return ModV("Path", {"stem": _Val(args[0].vid, "<stem>")})


def _fstring_csv(ex, st, e):
    """f"{pathlib.Path(fname).stem}.csv" - the only f-string whose value matters: the stem of the file name followed by '.csv'"""
    import ast as _ast
    if len(e.values) == 2 and isinstance(e.values[0], _ast.FormattedValue) and isinstance(e.values[1], _ast.Constant) and e.values[1].value == ".csv":
        v = ex.ev(e.values[0].value, st)
        if isinstance(v, _Val) and v.s == "<stem>":
            return _Val(STEMCSV(v.vid), "<stem>.csv")
    return StrV("<fstring>")


_CLI_ENV = {"deepcopy": FuncV(_m_deepcopy_obj, "deepcopy"), "hvsrpy": _HV, "pathlib": ModV("pathlib", {"Path": FuncV(_m_path, "pathlib.Path")}),
            "time": ModV("time", {"perf_counter": FuncV(lambda ex, st, a, k, n_: ex.fresh("t", R), "time.perf_counter")}),
            "print": FuncV(lambda ex, st, a, k, n_: NONE, "print")}


def _written(ex, st, a, k, n_):
    w = st.env["__written"]
    if not isinstance(w, Tup):
        return z3.BoolVal(False)
    h, name, mc, fn = w
    ok = isinstance(h, _Val) and isinstance(name, _Val) and name.s == "<stem>.csv"
    if not ok:
        return z3.BoolVal(False)
    pre, proc = (st.heap[st.env[x].oid].fields["content"] for x in ("preprocessing_settings", "processing_settings"))
    pre0, proc0 = z3.Int("pre_content"), z3.Int("proc_content")
    return z3.And(h.vid == PROCF(PREF(READF(FNAME), pre0), proc0), name.vid == STEMCSV(FNAME), lit(mc) == DMC, lit(fn) == DFN)


WORKER = Contract(qual="hvsrpy.cli._process_hvsr", params=["fname", "preprocessing_settings", "processing_settings", "settings"],
                  ghost={"written": FuncV(_written, "written")}, make_inputs=_cli_inputs(True, False), ensures=["written()"], modifies=[],
                  notes="--no_figure: the file <stem>.csv receives PROCESS(PREPROCESS(READ([[fname]]), own copy of the preprocessing settings), own copy of the processing settings) "
                        "with the caller's distribution options; the settings objects handed in are neither passed on nor written")
WORKER.ghost_state = ("__written",)
WORKER.fstring_model = _fstring_csv
TASKS.append(FunctionTask(WORKER, module_env=_CLI_ENV, label="hvsrpy.cli._process_hvsr[--no_figure]", clauses=["each file's output is the library pipeline for that file with its own settings copies"]))
NOTHING = Contract(qual="hvsrpy.cli._process_hvsr", params=["fname", "preprocessing_settings", "processing_settings", "settings"],
                   ghost={"nothing_written": FuncV(lambda ex, st, a, k, n_: z3.BoolVal(st.env["__written"] is NONE), "nothing_written")},
                   make_inputs=_cli_inputs(True, True), ensures=["nothing_written()"], modifies=[])
NOTHING.ghost_state = ("__written",)
NOTHING.fstring_model = _fstring_csv
TASKS.append(FunctionTask(NOTHING, module_env=_CLI_ENV, label="hvsrpy.cli._process_hvsr[--no_figure --no_file]", clauses=["--no_file writes nothing"]))

# the two library stages the worker calls are themselves dispatchers: their routing is part of "the library pipeline"
import contracts.dispatch as _DISPATCH
TASKS += _DISPATCH.PROCESS_TASKS + _DISPATCH.PREPROCESS_TASKS

META = dict(
    level="other",
    explanation="structural obligations: the worker deep-copies both settings objects before first use, reads only its own file, runs read -> preprocess -> "
                "process -> write; the driver loads both settings from file and issues one starmap task per file; none of the 13 modules on the path writes "
                "module-level state - hence a task's output is a function of (file, loaded settings content) under A-POOL; bounded: the real entry point on "
                "3 generated miniSEED files with different rates and lengths, 4 (quick) / 36 (thorough) order x --nproc x settings-family schedules, "
                "CSV compared byte-wise with the single-file pipeline run in a fresh interpreter",
    trusted_base=["A-POOL (multiprocessing.Pool.starmap executes every task exactly once; chunks share unpickled argument objects)", "deepcopy copies at every level",
                  "the AST pattern matcher"],
    assumptions=["A-POOL", "A-DET"],
)
