"""C05 - statistics are the stated estimators over exactly the accepted windows (statistics.py, hvsr_traditional.py)."""
import ast

import z3

from pyvc.core import I, R, B, DictV, StrV, NONE
from pyvc.contract import Contract, FunctionTask, LemmaTask, StructTask, sym_arr1
from pyvc import npmodel as npm
from pyvc.npmodel import EXP, LOG

DISTRIBUTION_MAP = DictV({"log-normal": StrV("lognormal"), "lognormal": StrV("lognormal"), "normal": StrV("normal")}, owner="module")
nn, mean_, std_ = z3.Reals("n mean std")


def nth_inputs(name):
    def mk(ex, st):
        st.env["n"], st.env["mean"], st.env["std"] = nn, mean_, std_
        st.env["distribution"] = StrV(name)
        return []
    return mk


def nth_contract(name):
    canon = {"normal": "normal", "lognormal": "lognormal", "log-normal": "lognormal"}.get(name)
    if canon == "normal":
        ens, rai = ["result == mean + n*std"], {}
    elif canon == "lognormal":
        ens, rai = ["result == exp(log(mean) + n*std)"], {}
    else:
        ens, rai = [], {"NotImplementedError": "True"}
    return Contract(qual="hvsrpy.statistics._nth_std_factory", params=["n", "distribution", "mean", "std"],
                    requires=[], ensures=ens, raises=rai, make_inputs=nth_inputs(name), modifies=[])


def map_check(loader):
    node = loader.module_assign("hvsrpy.constants", "DISTRIBUTION_MAP")
    got = {k.value: v.value for k, v in zip(node.keys, node.values) if isinstance(k, ast.Constant) and isinstance(v, ast.Constant)}
    want = {"log-normal": "lognormal", "lognormal": "lognormal", "normal": "normal"}
    return [(f"DISTRIBUTION_MAP[{k!r}] == {v!r}", got.get(k) == v, f"found {got.get(k)!r}") for k, v in want.items()] + \
           [("DISTRIBUTION_MAP has no other keys", set(got) == set(want), str(sorted(got)))]


# lemmas of the statement over the estimator definitions (pointwise algebra with A-LOGEXP)
m, s, k = z3.Reals("m s k")
LE = npm.ax_logexp()
LEMMAS = [
    LemmaTask("lognormal-nth-symmetric-in-log-space", [m > 0, LOG(EXP(LOG(m) + k * s)) == LOG(m) + k * s, LOG(EXP(LOG(m) - k * s)) == LOG(m) - k * s],
              LOG(EXP(LOG(m) + k * s)) - LOG(m) == -(LOG(EXP(LOG(m) - k * s)) - LOG(m)), "+n and -n values are symmetric about the median in log space (A-LOGEXP instances)"),
    LemmaTask("normal-nth-symmetric", [], (m + k * s) - m == -((m - k * s) - m), "normal: +n and -n symmetric about the mean"),
]

TASKS = [FunctionTask(nth_contract(nm), module_env={"DISTRIBUTION_MAP": DISTRIBUTION_MAP},
                      label=f"hvsrpy.statistics._nth_std_factory[{nm}]", clauses=["+-n standard deviation value"])
         for nm in ("normal", "lognormal", "log-normal", "gamma")]
TASKS += [StructTask("DISTRIBUTION_MAP", map_check)] + LEMMAS

META = dict(
    level="other",
    explanation="proved: _nth_std_factory for every distribution spelling (and NotImplementedError otherwise), DISTRIBUTION_MAP aliases (structural), "
                "symmetry lemmas; cross-check (labelled, bounded): every statistic of HvsrTraditional against textbook estimators over the accepted "
                "windows after random histories of range updates, FDWRA, manual rejections and mask replacement, object-from-accepted-windows "
                "equivalence, lognormal reciprocal consistency - the vectorised NaN-aware numpy code of _nanmean_weighted/_nanstd_weighted is "
                "outside the PyVC subset (boolean-mask compress, nansum)",
    trusted_base=["A-REAL", "A-PY", "A-LOGEXP", "numpy nansum/cov (external)", "PyVC engine + z3/cvc5"],
    assumptions=["A-REAL", "A-PY", "A-LOGEXP", "A-NP-SUM", "A-NP-COV", "A-NP-MASK"],
)
