"""C05 - statistics are the stated estimators over exactly the accepted windows (statistics.py, hvsr_traditional.py)."""
import ast

import z3

from pyvc.core import I, R, B, DictV, StrV, NONE
from pyvc.contract import Contract, FunctionTask, LemmaTask, StructTask, sym_arr1
from pyvc import npmodel as npm
from pyvc.npmodel import EXP, LOG

DISTRIBUTION_MAP = DictV({"log-normal": StrV("lognormal"), "lognormal": StrV("lognormal"), "normal": StrV("normal")}, owner="module")
nn, mean_, std_ = z3.Reals("n mean std")


def nth_inputs(name):
    def mk(ex, st):
        st.env["n"], st.env["mean"], st.env["std"] = nn, mean_, std_
        st.env["distribution"] = StrV(name)
        return []
    return mk


def nth_contract(name):
    canon = {"normal": "normal", "lognormal": "lognormal", "log-normal": "lognormal"}.get(name)
    if canon == "normal":
        ens, rai = ["result == mean + n*std"], {}
    elif canon == "lognormal":
        ens, rai = ["result == exp(log(mean) + n*std)"], {}
    else:
        ens, rai = [], {"NotImplementedError": "True"}
    return Contract(qual="hvsrpy.statistics._nth_std_factory", params=["n", "distribution", "mean", "std"],
                    requires=[], ensures=ens, raises=rai, make_inputs=nth_inputs(name), modifies=[])


def map_check(loader):
    node = loader.module_assign("hvsrpy.constants", "DISTRIBUTION_MAP")
    got = {k.value: v.value for k, v in zip(node.keys, node.values) if isinstance(k, ast.Constant) and isinstance(v, ast.Constant)}
    want = {"log-normal": "lognormal", "lognormal": "lognormal", "normal": "normal"}
    return [(f"DISTRIBUTION_MAP[{k!r}] == {v!r}", got.get(k) == v, f"found {got.get(k)!r}") for k, v in want.items()] + \
           [("DISTRIBUTION_MAP has no other keys", set(got) == set(want), str(sorted(got)))]


# lemmas of the statement over the estimator definitions (pointwise algebra with A-LOGEXP)
m, s, k = z3.Reals("m s k")
LE = npm.ax_logexp()
LEMMAS = [
    LemmaTask("lognormal-nth-symmetric-in-log-space", [m > 0, LOG(EXP(LOG(m) + k * s)) == LOG(m) + k * s, LOG(EXP(LOG(m) - k * s)) == LOG(m) - k * s],
              LOG(EXP(LOG(m) + k * s)) - LOG(m) == -(LOG(EXP(LOG(m) - k * s)) - LOG(m)), "+n and -n values are symmetric about the median in log space (A-LOGEXP instances)"),
    LemmaTask("normal-nth-symmetric", [], (m + k * s) - m == -((m - k * s) - m), "normal: +n and -n symmetric about the mean"),
]

TASKS = [FunctionTask(nth_contract(nm), module_env={"DISTRIBUTION_MAP": DISTRIBUTION_MAP},
                      label=f"hvsrpy.statistics._nth_std_factory[{nm}]", clauses=["+-n standard deviation value"])
         for nm in ("normal", "lognormal", "log-normal", "gamma")]
TASKS += [StructTask("DISTRIBUTION_MAP", map_check)] + LEMMAS

# the same function on curves (mean and std arrays of one length): element by element the same closed forms (numpy broadcasting of the scalar n)
_mc = z3.Int("n_frequencies")


def nth_curve_inputs(name):
    def mk(ex, st):
        st.env["n"] = nn
        st.env["mean"], st.env["std"] = sym_arr1(ex, st, "mean_curve", _mc), sym_arr1(ex, st, "std_curve", _mc)
        st.env["distribution"] = StrV(name)
        st.env["_mc"] = _mc
        return [_mc >= 0]
    return mk


for _nm in ("normal", "lognormal", "log-normal"):
    _f = "mean[c] + n*std[c]" if _nm == "normal" else "exp(log(mean[c]) + n*std[c])"
    TASKS.append(FunctionTask(Contract(qual="hvsrpy.statistics._nth_std_factory", params=["n", "distribution", "mean", "std"], make_inputs=nth_curve_inputs(_nm),
                                       ensures=["len(result) == _mc", f"forall(c, 0, _mc, result[c] == {_f})"], modifies=[]),
                              module_env={"DISTRIBUTION_MAP": DISTRIBUTION_MAP}, label=f"hvsrpy.statistics._nth_std_factory[{_nm},curves]",
                              clauses=["+-n standard deviation curve"]))

# ---------------------------------------------------------------------------------------------------------------------
# _nanmean_weighted / _nanstd_weighted for a NaN-free 1-D sample without explicit weights (what every HvsrTraditional accessor passes once the
# accepted windows have peaks): the textbook mean / sample standard deviation of g(values), g = identity or log.  Sums over the sample are
# *named* (np.nansum over the elements is trusted: A-NP-SUM): S(g) = sum_i g(v_i), SS(g, m) = sum_i (g(v_i) - m)^2; a sum of n ones is n.
from pyvc.core import FuncV, ModV, ARef, Tup, Undecided, lit
from pyvc.npmodel import SQRT, NAN

AR = z3.ArraySort(I, R)
NV_ = z3.Int("n_values")
VALS = z3.Const("values", AR)
S1, SL = z3.Reals("sum_of_values sum_of_log_values")
SS1, SSL = z3.Function("SS_values", R, R), z3.Function("SS_log_values", R, R)


def _names(canon):
    g = (lambda x: x) if canon == "normal" else (lambda x: LOG(x))
    return g, (S1 if canon == "normal" else SL), (SS1 if canon == "normal" else SSL)


def _sum_model(canon):
    g, S, SS = _names(canon)

    def f(ex, st, args, kw, node):
        x = args[0]
        if not isinstance(x, ARef):
            return x
        d = ex.arr(st, x)
        c0 = z3.Int("c!sum")
        elem = z3.simplify(z3.Select(d.data, c0))
        # the sample is NaN-free (precondition): its NaN tests are false
        v0 = z3.Select(VALS, c0)
        subs = []
        for x in (v0, LOG(v0), z3.RealVal(1)):          # (and NaN is not the number one)
            subs += [(x == NAN, z3.BoolVal(False)), (NAN == x, z3.BoolVal(False))]
        elem = z3.simplify(z3.substitute(elem, *subs))
        if z3.is_bool(elem):
            # remaining NaN tests are on numerals (the unit weights): NaN is not a numeral (A-NAN)
            elem = z3.simplify(z3.substitute(elem, (NAN, z3.RealVal("-123456789.25"))))
        if z3.is_bool(elem):
            if z3.is_true(elem):
                return d.shape[0]                       # number of entries of an all-True mask
            raise Undecided(f"np.sum of a mask that is not constant: {elem}")
        e = g(z3.Select(VALS, c0))
        if z3.simplify(elem - 1).eq(z3.RealVal(0)):
            return z3.ToReal(d.shape[0])                # a sum of n ones
        if z3.simplify(elem - e).eq(z3.RealVal(0)):
            return S
        m_ = st.env.get("mean")
        if m_ is not None and z3.is_expr(lit(m_)):
            m_ = lit(m_)
            for cand in ((e - m_) * (e - m_), (e - m_) ** 2):
                if z3.simplify(elem - cand).eq(z3.RealVal(0)):
                    return SS(m_)
        raise Undecided(f"np.nansum of an expression the abstraction does not name: {elem}")
    return FuncV(f, "np.nansum")


def _factory_model(canon):
    """_distribution_factory: the pre / post functions of PRE_PROCESS_FUNCTION_MAP / POST_PROCESS_FUNCTION_MAP (checked structurally below)"""
    def f(ex, st, args, kw, node):
        calc = kw.get("calculation", StrV("mean")).s
        ident = FuncV(lambda ex_, s_, a, k, n_: a[0], "identity")
        logf = FuncV(lambda ex_, s_, a, k, n_: npm.NP.attrs["log"].fn(ex_, s_, a, k, n_), "np.log")
        expf = FuncV(lambda ex_, s_, a, k, n_: npm.NP.attrs["exp"].fn(ex_, s_, a, k, n_), "np.exp")
        pre = ident if canon == "normal" else logf
        post = ident if (canon == "normal" or calc == "std") else expf
        return Tup((pre, post))
    return FuncV(f, "_distribution_factory")


def _stat_inputs(name):
    def mk(ex, st):
        st.env["values"] = ex.alloc_arr(st, (NV_,), VALS, "real", "param:values", tag="values")
        st.env["distribution"] = StrV(name)
        st.env["weights"] = NONE
        st.env["mean_kwargs"] = st.env["std_kwargs"] = NONE
        st.env["denominator"] = StrV("nist")
        st.env["NV_"] = NV_
        k = z3.Int("k!v")
        return [NV_ >= 2, z3.ForAll([k], z3.And(z3.Select(VALS, k) != NAN, z3.Select(VALS, k) > 0, LOG(z3.Select(VALS, k)) != NAN), patterns=[z3.Select(VALS, k)])]
    return mk


def _isnan_model(ex, st, args, kw, node):
    return ex.map1(st, args[0], lambda x: x == NAN, "bool")


for _name in ("normal", "lognormal", "log-normal"):
    _canon = {"normal": "normal", "lognormal": "lognormal", "log-normal": "lognormal"}[_name]
    _g, _S, _SS = _names(_canon)
    _np = ModV("np", dict(npm.NP.attrs, nansum=_sum_model(_canon), sum=_sum_model(_canon), isnan=FuncV(_isnan_model, "np.isnan")))
    _env = {"np": _np, "_distribution_factory": _factory_model(_canon), "DISTRIBUTION_MAP": DISTRIBUTION_MAP}
    _mean_spec = "S / NV_" if _canon == "normal" else "exp(S / NV_)"
    MEANC = Contract(qual="hvsrpy.statistics._nanmean_weighted", params=["distribution", "values", "weights", "mean_kwargs"],
                     ghost={"S": _S, "exp": EXP}, make_inputs=_stat_inputs(_name), ensures=[f"result == {_mean_spec}"], modifies=[],
                     notes="NaN-free sample, no explicit weights: arithmetic mean (normal) / geometric mean exp(mean(log v)) (lognormal)")
    TASKS.append(FunctionTask(MEANC, module_env=_env, label=f"hvsrpy.statistics._nanmean_weighted[{_name}]", clauses=["mean estimator"]))

    def _mean_call(ex, st, args, kw, node, _c=_canon, _S_=_S):
        return _S_ / z3.ToReal(NV_) if _c == "normal" else EXP(_S_ / z3.ToReal(NV_))
    _lm = "S / NV_" if _canon == "normal" else "log(exp(S / NV_))"
    STDC = Contract(qual="hvsrpy.statistics._nanstd_weighted", params=["distribution", "values", "weights", "std_kwargs", "denominator"],
                    ghost={"S": _S, "SS": _SS, "exp": EXP, "log": LOG, "sqrt": SQRT}, make_inputs=_stat_inputs(_name),
                    ensures=[f"result == sqrt(SS({_lm}) / ((1 - 1 / NV_) * NV_))"], modifies=[],
                    notes="sample standard deviation of g(values) about their mean, n-1 denominator (written as (1 - 1/n) n)")
    TASKS.append(FunctionTask(STDC, module_env=dict(_env, _nanmean_weighted=FuncV(_mean_call, "_nanmean_weighted")),
                              label=f"hvsrpy.statistics._nanstd_weighted[{_name}]", clauses=["standard deviation estimator"]))

def function_maps(loader):
    """the pre / post functions _distribution_factory hands out are the ones the contracts above assume"""
    want = {"PRE_PROCESS_FUNCTION_MAP": {"normal": {"mean": "values", "std": "values"}, "lognormal": {"mean": "np.log(values)", "std": "np.log(values)"}},
            "POST_PROCESS_FUNCTION_MAP": {"normal": {"mean": "values", "std": "values"}, "lognormal": {"mean": "np.exp(values)", "std": "values"}}}
    out = []
    for name, table in want.items():
        node = loader.module_assign("hvsrpy.statistics", name)
        got = {}
        for k, v in zip(node.keys, node.values):
            got[k.value] = {kk.value: (ast.unparse(vv.body).replace(" ", "") if isinstance(vv, ast.Lambda) and [a.arg for a in vv.args.args] == ["values"] else "?")
                            for kk, vv in zip(v.keys, v.values)}
        for dist, calcs in table.items():
            for calc, body in calcs.items():
                out.append((f"{name}[{dist!r}][{calc!r}] is lambda values: {body}", got.get(dist, {}).get(calc) == body.replace(" ", ""), str(got.get(dist, {}).get(calc))))
        out.append((f"{name} has no other distributions", set(got) == set(table), str(sorted(got))))
    return out


# (an expectation about how the table entries are *spelled*: a mismatch means "the source no longer has the shape this argument was made for" - undecided, the native
# evaluation decides - not a violation: a respelling of np.log is harmless)
TASKS.append(StructTask("PRE/POST_PROCESS_FUNCTION_MAP", function_maps, textual=True))

# the peak-range update decides which windows and which peaks are "accepted" (its contract is proved with the C08 contracts: both masks = "has a
# peak in the range", all windows kept when none has one); the statistics are over those sets, so it is an obligation of this property too
import contracts.C08 as _C08
TASKS += [t for t in _C08.TASKS if getattr(t, "label", "").startswith("hvsrpy.hvsr_traditional.HvsrTraditional.update_peaks_bounded")]

# the statistic accessors of HvsrTraditional: which values, selected by which mask, reach which estimator
import contracts.acc_traditional as _ACC
TASKS += _ACC.TASKS

META = dict(
    level="other",
    explanation="proved: _nanmean_weighted and _nanstd_weighted for a NaN-free sample without explicit weights = arithmetic / geometric mean and sample standard "
                "deviation (n-1) of g(values) for the three distribution spellings (sums over the sample named, np.nansum trusted; the pre/post function maps "
                "checked structurally); _nth_std_factory for every distribution spelling (and NotImplementedError otherwise), DISTRIBUTION_MAP aliases (structural), "
                "symmetry lemmas; cross-check (labelled, bounded): every statistic of HvsrTraditional against textbook estimators over the accepted "
                "windows after random histories of range updates, FDWRA, manual rejections and mask replacement, object-from-accepted-windows "
                "equivalence, lognormal reciprocal consistency - the NaN-carrying and explicitly weighted uses of _nanmean_weighted/_nanstd_weighted "
                "(azimuthal statistics, curves with axis=0) and the mask selections of the accessors are bounded only",
    trusted_base=["A-REAL", "A-PY", "A-LOGEXP", "numpy nansum/cov (external)", "PyVC engine + z3/cvc5"],
    assumptions=["A-REAL", "A-PY", "A-LOGEXP", "A-NP-SUM", "A-NP-COV", "A-NP-MASK"],
)

# ---------------------------------------------------------------------------------------------------------------------
# the same two functions on the rows of accepted windows with axis=0 (what mean_curve / std_curve pass): column by column the same estimators.
# Column sums are named per column: SC(c) = sum_r g(v[r,c]), SSC(c, m) = sum_r (g(v[r,c]) - m)^2; a column of n ones sums to n.
NR_, NC_ = z3.Ints("n_rows n_columns")
VALS2 = z3.Const("values", A2(R)) if False else None
from pyvc.core import A2 as _A2
VALS2 = z3.Const("values2", _A2(R))
SC1, SCL = z3.Function("colsum_values", I, R), z3.Function("colsum_log_values", I, R)
SSC1, SSCL = z3.Function("colSS_values", I, R, R), z3.Function("colSS_log_values", I, R, R)


def _colsum_model(canon):
    g = (lambda x: x) if canon == "normal" else (lambda x: LOG(x))
    SC, SSC = (SC1, SSC1) if canon == "normal" else (SCL, SSCL)

    def f(ex, st, args, kw, node):
        x = args[0]
        if not isinstance(x, ARef):
            return x
        d = ex.arr(st, x)
        if d.rank != 2 or set(kw) != {"axis"} or not z3.is_int_value(lit(kw["axis"])) or lit(kw["axis"]).as_long() != 0:
            raise Undecided("column sums: 2-D argument with axis=0 expected")
        r0, c0 = z3.Ints("r!sum c!sum")
        elem = z3.simplify(ex.sel2(d, r0, c0))
        v0 = S2_(VALS2, r0, c0)
        subs = []
        for t in (v0, LOG(v0), z3.RealVal(1)):
            subs += [(t == NAN, z3.BoolVal(False)), (NAN == t, z3.BoolVal(False))]
        elem = z3.simplify(z3.substitute(elem, *subs))
        if z3.is_bool(elem):
            elem = z3.simplify(z3.substitute(elem, (NAN, z3.RealVal("-123456789.25"))))
        if z3.is_bool(elem):
            if z3.is_true(elem):
                return ex.alloc_arr(st, (d.shape[1],), z3.K(I, d.shape[0]), "int", "fresh", tag="colcount")
            raise Undecided(f"np.sum of a mask that is not constant: {elem}")
        e = g(v0)
        if z3.simplify(elem - 1).eq(z3.RealVal(0)):
            return ex.alloc_arr(st, (d.shape[1],), z3.K(I, z3.ToReal(d.shape[0])), "real", "fresh", tag="colsum1")
        if z3.simplify(elem - e).eq(z3.RealVal(0)):
            return ex.alloc_arr(st, (d.shape[1],), ex.lam1(lambda c: SC(c)), "real", "fresh", tag="colsum")
        m_ = st.env.get("mean")
        if isinstance(m_, ARef):
            mc = ex.sel1(ex.arr(st, m_), c0)
            for cand in ((e - mc) * (e - mc), (e - mc) ** 2):
                if z3.simplify(elem - cand).eq(z3.RealVal(0)):
                    dm_ = ex.arr(st, m_)
                    return ex.alloc_arr(st, (d.shape[1],), ex.lam1(lambda c: SSC(c, ex.sel1(dm_, c))), "real", "fresh", tag="colSS")
        raise Undecided(f"np.nansum(axis=0) of an expression the abstraction does not name: {elem}")
    return FuncV(f, "np.nansum")


from pyvc.core import S2 as S2_


def _stat2_inputs(name):
    def mk(ex, st):
        st.env["values"] = ex.alloc_arr(st, (NR_, NC_), VALS2, "real", "param:values", tag="values")
        st.env["distribution"] = StrV(name)
        st.env["weights"] = NONE
        st.env["mean_kwargs"] = st.env["std_kwargs"] = DictV({"axis": z3.IntVal(0)})
        st.env["denominator"] = StrV("nist")
        st.env["NR_"], st.env["NC_"] = NR_, NC_
        r, c = z3.Ints("r!v c!v")
        return [NR_ >= 2, NC_ >= 1, z3.ForAll([r, c], z3.And(S2_(VALS2, r, c) != NAN, S2_(VALS2, r, c) > 0, LOG(S2_(VALS2, r, c)) != NAN), patterns=[S2_(VALS2, r, c)])]
    return mk


for _name in ("normal", "lognormal", "log-normal"):
    _canon = {"normal": "normal", "lognormal": "lognormal", "log-normal": "lognormal"}[_name]
    _SC, _SSC = (SC1, SSC1) if _canon == "normal" else (SCL, SSCL)
    _np = ModV("np", dict(npm.NP.attrs, nansum=_colsum_model(_canon), sum=_colsum_model(_canon), isnan=FuncV(_isnan_model, "np.isnan")))
    _env = {"np": _np, "_distribution_factory": _factory_model(_canon), "DISTRIBUTION_MAP": DISTRIBUTION_MAP}
    _mean_spec = "SC(c) / NR_" if _canon == "normal" else "exp(SC(c) / NR_)"
    TASKS.append(FunctionTask(Contract(qual="hvsrpy.statistics._nanmean_weighted", params=["distribution", "values", "weights", "mean_kwargs"],
                                       ghost={"SC": _SC, "exp": EXP}, make_inputs=_stat2_inputs(_name),
                                       ensures=["len(result) == NC_", f"forall(c, 0, NC_, result[c] == {_mean_spec})"], modifies=[],
                                       notes="rows of a NaN-free 2-D sample with axis=0: column-wise arithmetic / geometric mean"),
                              module_env=_env, label=f"hvsrpy.statistics._nanmean_weighted[{_name},axis=0]", clauses=["mean curve estimator"]))

    def _mean2_call(ex, st, args, kw, node, _c=_canon, _S_=_SC):
        f = (lambda c: _S_(c) / z3.ToReal(NR_)) if _c == "normal" else (lambda c: EXP(_S_(c) / z3.ToReal(NR_)))
        return ex.alloc_arr(st, (NC_,), ex.lam1(f), "real", "fresh", tag="mean_curve")
    _lm = "SC(c) / NR_" if _canon == "normal" else "log(exp(SC(c) / NR_))"
    TASKS.append(FunctionTask(Contract(qual="hvsrpy.statistics._nanstd_weighted", params=["distribution", "values", "weights", "std_kwargs", "denominator"],
                                       ghost={"SC": _SC, "SSC": _SSC, "exp": EXP, "log": LOG, "sqrt": SQRT}, make_inputs=_stat2_inputs(_name),
                                       ensures=["len(result) == NC_", f"forall(c, 0, NC_, result[c] == sqrt(SSC(c, {_lm}) / ((1 - 1 / NR_) * NR_)))"], modifies=[],
                                       notes="column-wise sample standard deviation of g(values) about the column mean, n-1 denominator"),
                              module_env=dict(_env, _nanmean_weighted=FuncV(_mean2_call, "_nanmean_weighted")),
                              label=f"hvsrpy.statistics._nanstd_weighted[{_name},axis=0]", clauses=["standard deviation curve estimator"]))

# the constructors of the result objects (contracts/ctor_hvsr.py): a new HvsrTraditional accepts every window (the statistics of a fresh result are over all windows)
import contracts.ctor_hvsr as _CTOR
TASKS += [t for t in _CTOR.TASKS if "HvsrTraditional.__init__" in t.label]

# ---------------------------------------------------------------------------------------------------------------------
# _distribution_factory on its executed body: for every spelling (upper / lower case alike) and both calculations the pair handed out is
# (PRE_PROCESS_FUNCTION_MAP[canonical][calculation], POST_PROCESS_FUNCTION_MAP[canonical][calculation]) - the tables symbolic, their entries decided structurally above -
# and anything else is refused with NotImplementedError.
from pyvc.core import DictV as _DictV5, StrV as _StrV5, NONE as _NONE5
_PRE_T = z3.Function("PRE_TABLE", I, I, I)        # (distribution: 0 normal / 1 lognormal, calculation: 0 mean / 1 std) -> function id
_POST_T = z3.Function("POST_TABLE", I, I, I)
_CAN = {"normal": 0, "lognormal": 1}
_CALC = {"mean": 0, "std": 1}


def _table(fn):
    return _DictV5({d: _DictV5({c: fn(z3.IntVal(_CAN[d]), z3.IntVal(_CALC[c])) for c in _CALC}, owner="module") for d in _CAN}, owner="module")


def _df_inputs(spelling, calc):
    def mk(ex, st):
        st.env["distribution"] = _StrV5(spelling)
        st.env["calculation"] = _StrV5(calc)
        return []
    return mk


_DF_ENV = {"DISTRIBUTION_MAP": DISTRIBUTION_MAP, "PRE_PROCESS_FUNCTION_MAP": _table(_PRE_T), "POST_PROCESS_FUNCTION_MAP": _table(_POST_T)}
for _sp, _canon in (("normal", "normal"), ("Normal", "normal"), ("lognormal", "lognormal"), ("log-normal", "lognormal"), ("LogNormal", "lognormal"), ("Log-Normal", "lognormal")):
    for _calc in ("mean", "std"):
        _c = Contract(qual="hvsrpy.statistics._distribution_factory", params=["distribution", "calculation"], ghost={"PRE": _PRE_T, "POST": _POST_T}, make_inputs=_df_inputs(_sp, _calc),
                      ensures=[f"result[0] == PRE({_CAN[_canon]}, {_CALC[_calc]}) and result[1] == POST({_CAN[_canon]}, {_CALC[_calc]})"], modifies=[],
                      notes="the transformation before and after the estimator are the table entries of the canonical distribution and of the calculation asked for")
        TASKS.append(FunctionTask(_c, module_env=_DF_ENV, label=f"hvsrpy.statistics._distribution_factory[{_sp},{_calc}]", clauses=["log-space for lognormal under every spelling"]))
for _sp, _calc in (("gamma", "mean"), ("normal", "median")):
    _c = Contract(qual="hvsrpy.statistics._distribution_factory", params=["distribution", "calculation"], make_inputs=_df_inputs(_sp, _calc),
                  raises={"NotImplementedError": "True"}, ensures=[], modifies=[])
    TASKS.append(FunctionTask(_c, module_env=_DF_ENV, label=f"hvsrpy.statistics._distribution_factory[{_sp},{_calc}: refused]", clauses=["an unknown distribution or calculation is refused"]))
