"""C02 - smoothing operators are the published normalised kernels (hvsrpy/smoothing.py).

Contracts for the six windowed kernels, Savitzky-Golay (driver + compiled core) and the registry, plus the
lemmas that the property statement lists as consequences.  Oracle: Konno & Ohmachi (1998), Konno & Ohmachi
(1995, Parzen), Savitzky & Golay (1964) as summarised in DESIGN.md section 5/C02 - not the code.
"""
import z3

from pyvc.core import I, R, B, A2, S2
from pyvc.contract import Contract, FunctionTask, LemmaTask, StructTask, sym_arr1, sym_arr2
from pyvc import npmodel as npm
from pyvc.npmodel import SQRT, SIN, LOG10, POW10, PI

EPS = z3.Q(1, 10**6)


def zabs(x):
    return z3.If(x >= 0, x, -x)


# ---------------------------------------------------------------------------------------------------
# kernel table: support predicate and weight as functions of (f, fc, b); extra math axioms needed for the
# body's safety obligations (division by the sinc argument)
def _sinc4(x):
    s = SIN(x) / x
    return s * s * s * s


A_PARZEN = (PI * 280) / (2 * 151)


def _ko_in(f, fc, b):
    return z3.And(f / fc <= POW10(3 / b), f / fc >= POW10(-3 / b))


def _ko_w(f, fc, b):
    x = b * LOG10(f / fc)
    return z3.If(zabs(f - fc) < EPS, z3.RealVal(1), _sinc4(x))


def _pz_in(f, fc, b):
    lim = SQRT(z3.RealVal(6)) * A_PARZEN / b
    return z3.And(f - fc <= lim, f - fc >= -1 * lim)


def _pz_w(f, fc, b):
    x = A_PARZEN * (f - fc) / b
    return z3.If(zabs(f - fc) < EPS, z3.RealVal(1), _sinc4(x))


def _lin_in(f, fc, b):
    return zabs(f - fc) <= b / 2


def _log_in(f, fc, b):
    return z3.And(f / fc >= POW10(-b / 2), f / fc <= POW10(b / 2))


KERNELS = {
    "konno_and_ohmachi": dict(inwin=_ko_in, w=_ko_w, rows="nrows", cols="ncols"),
    "parzen": dict(inwin=_pz_in, w=_pz_w, rows="nrows", cols="ncols"),
    "linear_rectangular": dict(inwin=_lin_in, w=lambda f, fc, b: z3.RealVal(1), rows="nspectra", cols="nfcs"),
    "log_rectangular": dict(inwin=_log_in, w=lambda f, fc, b: z3.RealVal(1), rows="nspectra", cols="nfcs"),
    "linear_triangular": dict(inwin=_lin_in, w=lambda f, fc, b: 1 - zabs(f - fc) * (2 / b), rows="nspectra", cols="nfcs"),
    "log_triangular": dict(inwin=_log_in, w=lambda f, fc, b: 1 - zabs(LOG10(f / fc)) * (2 / b), rows="nspectra", cols="nfcs"),
}

# math facts the *bodies* need for their safety obligations (sin(x)/x: x != 0)
x_, y_ = z3.Reals("x!c02 y!c02")
AX_LOG10_ZERO = z3.ForAll([y_], z3.Implies(y_ > 0, (LOG10(y_) == 0) == (y_ == 1)), patterns=[LOG10(y_)])
AX_PI = npm.ax_pi()
AX_SQRT6 = [SQRT(z3.RealVal(6)) > 0]


class KernelSpec:
    """Ghost vocabulary of one kernel instance: arrays F (frequencies), S (spectrum), C (fcs), bandwidth b."""

    def __init__(self, name, tag=""):
        k = KERNELS[name]
        self.name = name
        self.nf, self.nr, self.nc = z3.Ints(f"nf{tag} nr{tag} nc{tag}")
        self.b = z3.Real(f"bandwidth{tag}")
        self.F = z3.Const(f"frequencies{tag}", z3.ArraySort(I, R))
        self.S = z3.Const(f"spectrum{tag}", A2(R))
        self.C = z3.Const(f"fcs{tag}", z3.ArraySort(I, R))
        self.SW = z3.Function(f"SW_{name}{tag}", I, I, R)
        self.SP = z3.Function(f"SP_{name}{tag}", I, I, I, R)
        self.OUT = z3.Function(f"OUT_{name}{tag}", I, I, R)
        self.inwin_raw, self.w_raw = k["inwin"], k["w"]

    def take(self, c, k):
        """sample k contributes to centre frequency c"""
        f, fc = self.F[k], self.C[c]
        return z3.And(z3.Not(f < EPS), self.inwin_raw(f, fc, self.b))

    def weight(self, c, k):
        return self.w_raw(self.F[k], self.C[c], self.b)

    def axioms(self):
        r, c, k = z3.Ints("r!g c!g k!g")
        SW, SP, OUT = self.SW, self.SP, self.OUT
        return [
            z3.ForAll([c], SW(c, 0) == 0, patterns=[SW(c, 0)]),
            z3.ForAll([r, c], SP(r, c, 0) == 0, patterns=[SP(r, c, 0)]),
            z3.ForAll([c, k], z3.Implies(k >= 0, SW(c, k + 1) == SW(c, k) + z3.If(self.take(c, k), self.weight(c, k), 0)),
                      patterns=[SW(c, k + 1)]),
            z3.ForAll([r, c, k], z3.Implies(k >= 0, SP(r, c, k + 1) == SP(r, c, k) +
                                            z3.If(self.take(c, k), self.weight(c, k) * S2(self.S, r, k), 0)),
                      patterns=[SP(r, c, k + 1)]),
            z3.ForAll([r, c], OUT(r, c) == z3.If(self.C[c] < EPS, 0,
                                                  z3.If(SW(c, self.nf) > 0, SP(r, c, self.nf) / SW(c, self.nf), 0)),
                      patterns=[OUT(r, c)]),
        ]


def kernel_contract(name):
    ks = KernelSpec(name)

    def make_inputs(ex, st):
        st.env["frequencies"] = sym_arr1(ex, st, "frequencies", ks.nf)
        st.env["spectrum"] = sym_arr2(ex, st, "spectrum", ks.nr, ks.nf)
        st.env["fcs"] = sym_arr1(ex, st, "fcs", ks.nc)
        st.env["bandwidth"] = ks.b
        st.env["nf"], st.env["nr"], st.env["nc"] = ks.nf, ks.nr, ks.nc
        return [ks.nf >= 0, ks.nr >= 0, ks.nc >= 0]

    def make_result(ex, st, env):
        out = ex.fresh("smoothed", A2(R))
        return ex.alloc_arr(st, (ks.nr, ks.nc), out, "real", "fresh", tag="smoothed")
    return Contract(
        qual=f"hvsrpy.smoothing.{name}",
        params=["frequencies", "spectrum", "fcs", "bandwidth"],
        ghost=dict(SW=ks.SW, SP=ks.SP, OUT=ks.OUT),
        requires=["nf >= 1", "bandwidth > 0"],
        ensures=["result.shape[0] == nr and result.shape[1] == nc",
                 "forall(r, 0, nr, forall(c, 0, nc, result[r, c] == OUT(r, c)))"],
        loops={0: ["smoothed_spectrum.shape[0] == nr and smoothed_spectrum.shape[1] == nc",
                   "forall(r, 0, nr, forall(c, 0, _k0, smoothed_spectrum[r, c] == OUT(r, c)))"],
               1: ["sumwindow == SW(fc_index, _k1)",
                   "forall(r, 0, nr, sumproduct[r] == SP(r, fc_index, _k1))"]},
        modifies=[],
        axioms=ks.axioms() + [AX_LOG10_ZERO] + AX_PI + AX_SQRT6,
        make_inputs=make_inputs, make_result=make_result,
        notes="A-TRANSC (log10(y)=0 iff y=1 for y>0), A-PI, sqrt(6)>0 are used only for the safety obligations of sin(x)/x",
    ), ks


TASKS = []
SPECS = {}
for _name in KERNELS:
    _c, _ks = kernel_contract(_name)
    SPECS[_name] = (_c, _ks)
    TASKS.append(FunctionTask(_c, clauses=["weight-normalised average under the published kernel", "zero where no sample in window"]))

META = dict(
    level="other",
    explanation="proved: every kernel body == normalised-kernel spec for all grids/spectra/centre frequencies/bandwidths, Savitzky-Golay core and driver, "
                "the statement's consequences as base/step lemmas (constant reproduced, bounds, linearity, row independence, SG moments); "
                "bounded: compiled (numba) == interpreted source",
    trusted_base=["A-REAL floats as reals", "A-PY semantics of the Python subset", "A-NP-ELEM/A-NP-ALLOC numpy elementwise ops and allocation",
                  "A-TRANSC sin/log10/10**x uninterpreted (log10(y)=0 iff y=1)", "numba translation (bounded differential check only)",
                  "PyVC engine + z3/cvc5"],
    assumptions=["A-REAL", "A-PY", "A-NP-ELEM", "A-NP-ALLOC", "A-TRANSC", "A-PI", "numba-translation-trusted"],
)


# ---------------------------------------------------------------------------------------------------------------------
# Savitzky-Golay: compiled core  _savitzky_and_golay(spectrum, nfcs, coefficients, normalization_coefficient)
class SGSpec:
    def __init__(self):
        self.nr, self.nfreq, self.nc, self.ncoef = z3.Ints("nr nfreqs_g nc ncoeff_g")
        self.S = z3.Const("spectrum", A2(R))
        self.NF = z3.Const("nfcs", z3.ArraySort(I, I))
        self.CO = z3.Const("coefficients", z3.ArraySort(I, R))
        self.norm = z3.Real("normalization_coefficient")
        self.SS = z3.Function("SS_sg", I, I, I, R)        # partial symmetric sum with the terms |i| <= k accumulated
        self.OUT = z3.Function("OUT_sg", I, I, R)

    def axioms(self):
        r, c, k = z3.Ints("r!sg c!sg k!sg")
        h = self.ncoef - 1
        n_c = self.NF[c]
        return [
            z3.ForAll([r, c], self.SS(r, c, 0) == self.CO[h] * S2(self.S, r, n_c), patterns=[self.SS(r, c, 0)]),
            z3.ForAll([r, c, k], z3.Implies(k >= 0, self.SS(r, c, k + 1) == self.SS(r, c, k) + self.CO[h - 1 - k] * (S2(self.S, r, n_c + (k + 1)) + S2(self.S, r, n_c - (k + 1)))),
                      patterns=[self.SS(r, c, k + 1)]),
            z3.ForAll([r, c], self.OUT(r, c) == z3.If(z3.Or(n_c < self.ncoef, n_c + self.ncoef > self.nfreq), 0, self.SS(r, c, h) / self.norm), patterns=[self.OUT(r, c)]),
        ]


def sg_core_contract():
    g = SGSpec()

    def make_inputs(ex, st):
        st.env["spectrum"] = sym_arr2(ex, st, "spectrum", g.nr, g.nfreq)
        st.env["nfcs"] = sym_arr1(ex, st, "nfcs", g.nc, elem="int")
        st.env["coefficients"] = sym_arr1(ex, st, "coefficients", g.ncoef)
        st.env["normalization_coefficient"] = g.norm
        st.env["nr"], st.env["nc"], st.env["nfreqs_g"], st.env["ncoeff_g"] = g.nr, g.nc, g.nfreq, g.ncoef
        return [g.nr >= 0, g.nfreq >= 0, g.nc >= 0]
    return Contract(
        qual="hvsrpy.smoothing._savitzky_and_golay", params=["spectrum", "nfcs", "coefficients", "normalization_coefficient"],
        ghost=dict(SS=g.SS, OUT=g.OUT),
        requires=["ncoeff_g >= 1", "normalization_coefficient != 0"],
        ensures=["result.shape[0] == nr and result.shape[1] == nc", "forall(r, 0, nr, forall(c, 0, nc, result[r, c] == OUT(r, c)))"],
        loops={0: ["smoothed_spectrum.shape[0] == nr and smoothed_spectrum.shape[1] == nc",
                   "forall(r, 0, nr, forall(c, 0, _k0, smoothed_spectrum[r, c] == OUT(r, c)))"],
               1: ["forall(r, 0, nr, summation[r] == SS(r, nfc_idx, _k1))"]},
        axioms=g.axioms(), make_inputs=make_inputs, modifies=[],
        notes="out[r,c] = (sum_{i=-h..h} coef(-|i|) spectrum[r, n_c+i]) / norm for n_c >= h+1 and n_c+h+1 <= nfreqs, else 0; every index proved in bounds"), g


SG_CORE, SG_G = sg_core_contract()
TASKS.append(FunctionTask(SG_CORE, clauses=["Savitzky-Golay symmetric weighted sum, edge rule, indices in bounds"]))


# Savitzky-Golay driver: savitzky_and_golay(frequencies, spectrum, fcs, bandwidth)
def _sg_core_at_call(ex, st, env):
    """modular use of the core: its ghost constants (spectrum, nfcs, coefficients, sizes) are bound to the actual arguments"""
    g = SG_G
    ds, dn, dc = ex.arr(st, env["spectrum"]), ex.arr(st, env["nfcs"]), ex.arr(st, env["coefficients"])
    k, r = z3.Ints("k!b r!b")
    st.pc += [g.nr == ds.shape[0], g.nfreq == ds.shape[1], g.nc == dn.shape[0], g.ncoef == dc.shape[0], g.norm == env["normalization_coefficient"],
              z3.ForAll([k], z3.Implies(z3.And(k >= 0, k < dn.shape[0]), g.NF[k] == z3.Select(dn.data, k)), patterns=[g.NF[k]]),
              z3.ForAll([k], z3.Implies(z3.And(k >= 0, k < dc.shape[0]), g.CO[k] == z3.Select(dc.data, k)), patterns=[g.CO[k]])]
    if not ds.data.eq(g.S):
        st.pc.append(z3.ForAll([r, k], z3.Implies(z3.And(r >= 0, r < ds.shape[0], k >= 0, k < ds.shape[1]), S2(g.S, r, k) == S2(ds.data, r, k))))
    return ex.alloc_arr(st, (ds.shape[0], dn.shape[0]), ex.fresh("smoothed", A2(R)), "real", "fresh", tag="smoothed")


SG_CORE_CALL = Contract(
    qual="hvsrpy.smoothing._savitzky_and_golay", params=["spectrum", "nfcs", "coefficients", "normalization_coefficient"],
    ghost=dict(SS=SG_G.SS, OUT=SG_G.OUT), requires=["len(coefficients) >= 1", "normalization_coefficient != 0"],
    ensures=["forall(r, 0, result.shape[0], forall(c, 0, result.shape[1], result[r, c] == OUT(r, c)))"], make_result=_sg_core_at_call)

bw = z3.Real("bandwidth")
nfq = z3.Int("nf")


def _sg_driver_inputs(ex, st):
    g = SG_G
    st.env["frequencies"] = sym_arr1(ex, st, "frequencies", nfq)
    st.env["spectrum"] = ex.alloc_arr(st, (g.nr, nfq), g.S, "real", "param:spectrum", tag="spectrum")
    st.env["fcs"] = sym_arr1(ex, st, "fcs", z3.Int("nfc"))
    st.env["bandwidth"] = bw
    st.env["nf"], st.env["nr"], st.env["nfc"] = nfq, g.nr, z3.Int("nfc")
    st.env["nfcs_g"], st.env["coefficients_g"], st.env["ncoeff_g"], st.env["norm_g"] = None, None, g.ncoef, g.norm
    return [nfq >= 2, g.nr >= 0, z3.Int("nfc") >= 0]


M = "int(bandwidth)"
H = "((int(bandwidth) - 1) // 2)"
SG_DRIVER = Contract(
    qual="hvsrpy.smoothing.savitzky_and_golay", params=["frequencies", "spectrum", "fcs", "bandwidth"],
    ghost=dict(OUT=SG_G.OUT, NFg=lambda c: SG_G.NF[c], COg=lambda i: SG_G.CO[i]),
    requires=["bandwidth >= 3", "forall(k, 0, nf - 1, frequencies[k+1] > frequencies[k])"],
    raises={"ValueError": f"{M} % 2 != 1 or exists(i, 0, nf - 1, exists(j, 0, nf - 1, "
                          "(frequencies[i+1] - frequencies[i]) - (frequencies[j+1] - frequencies[j]) > 1/1000000))"},
    ensures=["result.shape[0] == nr and result.shape[1] == nfc",
             "forall(r, 0, nr, forall(c, 0, nfc, result[r, c] == OUT(r, c)))",
             f"ncoeff_g == {H} + 1",
             f"forall(idx, 0, {H} + 1, COg(idx) == (3*{M}*{M} - 7 - 20*(idx - {H})*(idx - {H})) / 4)",
             f"norm_g == {M}*({M}*{M} - 4) / 3",
             # the centre-frequency index is the rounded position on the (uniform) grid, measured from the smallest frequency
             "forall(c, 0, nfc, exists(k0, 0, nf, forall(k, 0, nf, frequencies[k0] <= frequencies[k]) and "
             "NFg(c) - (fcs[c] - frequencies[k0]) / (frequencies[1] - frequencies[0]) <= 1/2 and (fcs[c] - frequencies[k0]) / (frequencies[1] - frequencies[0]) - NFg(c) <= 1/2))"],
    loops={0: [f"forall(t, 0, _k0, coefficients[t] == (3*m*m - 7 - 20*(t - (nterms - 1))*(t - (nterms - 1))) / 4)", "len(coefficients) == nterms"]},
    axioms=SG_G.axioms() + npm.ax_round(), make_inputs=_sg_driver_inputs, modifies=[],
    notes="A-ROUND: |round(x) - x| <= 1/2; requires frequencies[1] != frequencies[0] (division) via the uniformity test only when it passes")

TASKS.append(FunctionTask(SG_DRIVER, module_env={"_savitzky_and_golay": SG_CORE_CALL}, clauses=["SG coefficients, normaliser, grid index, ValueError for even windows / non-uniform grids"]))


# ---------------------------------------------------------------------------------------------------------------------
# Lemmas: the consequences the property statement lists, over the ghost sums of the kernel specs (induction written as base/step pairs)
def kernel_lemmas(name):
    ks = KernelSpec(name, tag="_L")
    SW, SP = ks.SW, ks.SP
    r, c, k = z3.Ints("r c k")
    cst, lo, hi, al, be = z3.Reals("cst lo hi alpha beta")
    ax = ks.axioms()[:4]            # unfolding of SW / SP
    take, w = ks.take(c, k), ks.weight(c, k)
    S = lambda rr, kk: S2(ks.S, rr, kk)
    dom = [k >= 0, ks.b > 0, ks.C[c] >= EPS]
    out = []
    # weights are non-negative on the support
    wfacts = []
    if name in ("log_triangular",):
        ratio = ks.F[k] / ks.C[c]
        wfacts = [LOG10(POW10(ks.b / 2)) == ks.b / 2, LOG10(POW10(-ks.b / 2)) == -ks.b / 2,
                  z3.Implies(ratio <= POW10(ks.b / 2), LOG10(ratio) <= LOG10(POW10(ks.b / 2))),
                  z3.Implies(ratio >= POW10(-ks.b / 2), LOG10(ratio) >= LOG10(POW10(-ks.b / 2)))]
    out.append(LemmaTask(f"{name}:weight-nonnegative-on-support", dom + wfacts + [take], w >= 0,
                         "w >= 0 wherever the sample is inside the window" + (" (A-TRANSC instances: log10(10^x)=x, log10 monotone)" if wfacts else "")))
    # constant spectrum: SP = cst * SW  (base, step)
    out.append(LemmaTask(f"{name}:constant-reproduced[base]", ax, SP(r, c, 0) == cst * SW(c, 0), "base of the induction SP(r,c,k) = cst * SW(c,k)"))
    out.append(LemmaTask(f"{name}:constant-reproduced[step]", ax + dom + [S(r, k) == cst, SP(r, c, k) == cst * SW(c, k)], SP(r, c, k + 1) == cst * SW(c, k + 1),
                         "step: a constant spectrum gives SP = cst * SW, hence out = cst wherever the window is non-empty"))
    # bounds: lo * SW <= SP <= hi * SW for non-negative weights
    out.append(LemmaTask(f"{name}:between-min-and-max[step]", ax + dom + wfacts + [z3.Implies(take, z3.And(lo <= S(r, k), S(r, k) <= hi)),
                                                                           lo * SW(c, k) <= SP(r, c, k), SP(r, c, k) <= hi * SW(c, k)],
                         z3.And(lo * SW(c, k + 1) <= SP(r, c, k + 1), SP(r, c, k + 1) <= hi * SW(c, k + 1)),
                         "step: with non-negative weights the normalised average lies between the smallest and largest contributing sample"))
    # linearity: two spectra X, Y and Z = alpha X + beta Y
    X, Y = z3.Const("X_L", A2(R)), z3.Const("Y_L", A2(R))
    SPX, SPY, SPZ = z3.Function(f"SPX_{name}", I, I, I, R), z3.Function(f"SPY_{name}", I, I, I, R), z3.Function(f"SPZ_{name}", I, I, I, R)
    step = lambda F_, A_: F_(r, c, k + 1) == F_(r, c, k) + z3.If(take, w * A_, 0)
    out.append(LemmaTask(f"{name}:linear[step]", dom + [step(SPX, S2(X, r, k)), step(SPY, S2(Y, r, k)), step(SPZ, al * S2(X, r, k) + be * S2(Y, r, k)),
                                                          SPZ(r, c, k) == al * SPX(r, c, k) + be * SPY(r, c, k)],
                         SPZ(r, c, k + 1) == al * SPX(r, c, k + 1) + be * SPY(r, c, k + 1), "step: S(alpha x + beta y) = alpha S(x) + beta S(y)"))
    # row independence: two spectra agreeing on row r give the same partial sums for row r
    SPA, SPB = z3.Function(f"SPA_{name}", I, I, I, R), z3.Function(f"SPB_{name}", I, I, I, R)
    out.append(LemmaTask(f"{name}:row-independent[step]", dom + [S2(X, r, k) == S2(Y, r, k), step(SPA, S2(X, r, k)), step(SPB, S2(Y, r, k)), SPA(r, c, k) == SPB(r, c, k)],
                         SPA(r, c, k + 1) == SPB(r, c, k + 1), "step: row r of the output depends on row r of the input only"))
    return out


for _name in KERNELS:
    TASKS += kernel_lemmas(_name)

# Savitzky-Golay: the symmetric coefficients reproduce cubic polynomials: sum coef = norm, odd moments vanish, second moment vanishes.
# Closed forms of the power sums are proved by base/step and then used.
h_, i_ = z3.Ints("h i")
P0 = z3.Function("P0", I, R)     # sum_{i=1..h} 1 = h
P2 = z3.Function("P2s", I, R)    # sum_{i=1..h} i^2 = h(h+1)(2h+1)/6
P4 = z3.Function("P4s", I, R)    # sum_{i=1..h} i^4 = h(h+1)(2h+1)(3h^2+3h-1)/30
hr = z3.ToReal(h_)
TASKS += [
    LemmaTask("sg:power-sum-2[step]", [h_ >= 0, P2(h_) == hr * (hr + 1) * (2 * hr + 1) / 6, P2(h_ + 1) == P2(h_) + (hr + 1) * (hr + 1)],
              P2(h_ + 1) == (hr + 1) * (hr + 2) * (2 * hr + 3) / 6, "sum i^2 closed form, inductive step"),
    LemmaTask("sg:power-sum-4[step]", [h_ >= 0, P4(h_) == hr * (hr + 1) * (2 * hr + 1) * (3 * hr * hr + 3 * hr - 1) / 30,
                                       P4(h_ + 1) == P4(h_) + (hr + 1) * (hr + 1) * (hr + 1) * (hr + 1)],
              P4(h_ + 1) == (hr + 1) * (hr + 2) * (2 * hr + 3) * (3 * (hr + 1) * (hr + 1) + 3 * (hr + 1) - 1) / 30, "sum i^4 closed form, inductive step"),
]
m_ = 2 * hr + 1
s2 = hr * (hr + 1) * (2 * hr + 1) / 6
s4 = hr * (hr + 1) * (2 * hr + 1) * (3 * hr * hr + 3 * hr - 1) / 30
coef0 = (3 * m_ * m_ - 7) / 4
TASKS += [
    LemmaTask("sg:coefficients-sum-to-normaliser", [h_ >= 1], m_ * coef0 - 20 * (2 * s2) / 4 == m_ * (m_ * m_ - 4) / 3,
              "sum_{i=-h..h} (3m^2-7-20i^2)/4 = m(m^2-4)/3 with m = 2h+1 (uses the closed form of sum i^2): constants are reproduced"),
    LemmaTask("sg:second-moment-vanishes", [h_ >= 1], coef0 * (2 * s2) - 20 * (2 * s4) / 4 == 0,
              "sum i^2 coef(i) = 0 (closed forms of sum i^2, sum i^4); odd moments vanish by symmetry: cubic polynomials are reproduced at admitted interior points"),
]
