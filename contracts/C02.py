"""C02 - smoothing operators are the published normalised kernels (hvsrpy/smoothing.py).

Contracts for the six windowed kernels, Savitzky-Golay (driver + compiled core) and the registry, plus the
lemmas that the property statement lists as consequences.  Oracle: Konno & Ohmachi (1998), Konno & Ohmachi
(1995, Parzen), Savitzky & Golay (1964) as summarised in DESIGN.md section 5/C02 - not the code.
"""
import z3

from pyvc.core import I, R, B, A2, S2
from pyvc.contract import Contract, FunctionTask, LemmaTask, StructTask, sym_arr1, sym_arr2
from pyvc import npmodel as npm
from pyvc.npmodel import SQRT, SIN, LOG10, POW10, PI

EPS = z3.Q(1, 10**6)


def zabs(x):
    return z3.If(x >= 0, x, -x)


# ---------------------------------------------------------------------------------------------------
# kernel table: support predicate and weight as functions of (f, fc, b); extra math axioms needed for the
# body's safety obligations (division by the sinc argument)
def _sinc4(x):
    s = SIN(x) / x
    return s * s * s * s


A_PARZEN = (PI * 280) / (2 * 151)


def _ko_in(f, fc, b):
    return z3.And(f / fc <= POW10(3 / b), f / fc >= POW10(-3 / b))


def _ko_w(f, fc, b):
    x = b * LOG10(f / fc)
    return z3.If(zabs(f - fc) < EPS, z3.RealVal(1), _sinc4(x))


def _pz_in(f, fc, b):
    lim = SQRT(z3.RealVal(6)) * A_PARZEN / b
    return z3.And(f - fc <= lim, f - fc >= -1 * lim)


def _pz_w(f, fc, b):
    x = A_PARZEN * (f - fc) / b
    return z3.If(zabs(f - fc) < EPS, z3.RealVal(1), _sinc4(x))


def _lin_in(f, fc, b):
    return zabs(f - fc) <= b / 2


def _log_in(f, fc, b):
    return z3.And(f / fc >= POW10(-b / 2), f / fc <= POW10(b / 2))


KERNELS = {
    "konno_and_ohmachi": dict(inwin=_ko_in, w=_ko_w, rows="nrows", cols="ncols"),
    "parzen": dict(inwin=_pz_in, w=_pz_w, rows="nrows", cols="ncols"),
    "linear_rectangular": dict(inwin=_lin_in, w=lambda f, fc, b: z3.RealVal(1), rows="nspectra", cols="nfcs"),
    "log_rectangular": dict(inwin=_log_in, w=lambda f, fc, b: z3.RealVal(1), rows="nspectra", cols="nfcs"),
    "linear_triangular": dict(inwin=_lin_in, w=lambda f, fc, b: 1 - zabs(f - fc) * (2 / b), rows="nspectra", cols="nfcs"),
    "log_triangular": dict(inwin=_log_in, w=lambda f, fc, b: 1 - zabs(LOG10(f / fc)) * (2 / b), rows="nspectra", cols="nfcs"),
}

# math facts the *bodies* need for their safety obligations (sin(x)/x: x != 0)
x_, y_ = z3.Reals("x!c02 y!c02")
AX_LOG10_ZERO = z3.ForAll([y_], z3.Implies(y_ > 0, (LOG10(y_) == 0) == (y_ == 1)), patterns=[LOG10(y_)])
AX_PI = npm.ax_pi()
AX_SQRT6 = [SQRT(z3.RealVal(6)) > 0]


class KernelSpec:
    """Ghost vocabulary of one kernel instance: arrays F (frequencies), S (spectrum), C (fcs), bandwidth b."""

    def __init__(self, name, tag=""):
        k = KERNELS[name]
        self.name = name
        self.nf, self.nr, self.nc = z3.Ints(f"nf{tag} nr{tag} nc{tag}")
        self.b = z3.Real(f"bandwidth{tag}")
        self.F = z3.Const(f"frequencies{tag}", z3.ArraySort(I, R))
        self.S = z3.Const(f"spectrum{tag}", A2(R))
        self.C = z3.Const(f"fcs{tag}", z3.ArraySort(I, R))
        self.SW = z3.Function(f"SW_{name}{tag}", I, I, R)
        self.SP = z3.Function(f"SP_{name}{tag}", I, I, I, R)
        self.OUT = z3.Function(f"OUT_{name}{tag}", I, I, R)
        self.inwin_raw, self.w_raw = k["inwin"], k["w"]

    def take(self, c, k):
        """sample k contributes to centre frequency c"""
        f, fc = self.F[k], self.C[c]
        return z3.And(z3.Not(f < EPS), self.inwin_raw(f, fc, self.b))

    def weight(self, c, k):
        return self.w_raw(self.F[k], self.C[c], self.b)

    def axioms(self):
        r, c, k = z3.Ints("r!g c!g k!g")
        SW, SP, OUT = self.SW, self.SP, self.OUT
        return [
            z3.ForAll([c], SW(c, 0) == 0, patterns=[SW(c, 0)]),
            z3.ForAll([r, c], SP(r, c, 0) == 0, patterns=[SP(r, c, 0)]),
            z3.ForAll([c, k], z3.Implies(k >= 0, SW(c, k + 1) == SW(c, k) + z3.If(self.take(c, k), self.weight(c, k), 0)),
                      patterns=[SW(c, k + 1)]),
            z3.ForAll([r, c, k], z3.Implies(k >= 0, SP(r, c, k + 1) == SP(r, c, k) +
                                            z3.If(self.take(c, k), self.weight(c, k) * S2(self.S, r, k), 0)),
                      patterns=[SP(r, c, k + 1)]),
            z3.ForAll([r, c], OUT(r, c) == z3.If(self.C[c] < EPS, 0,
                                                  z3.If(SW(c, self.nf) > 0, SP(r, c, self.nf) / SW(c, self.nf), 0)),
                      patterns=[OUT(r, c)]),
        ]


def kernel_contract(name):
    ks = KernelSpec(name)

    def make_inputs(ex, st):
        st.env["frequencies"] = sym_arr1(ex, st, "frequencies", ks.nf)
        st.env["spectrum"] = sym_arr2(ex, st, "spectrum", ks.nr, ks.nf)
        st.env["fcs"] = sym_arr1(ex, st, "fcs", ks.nc)
        st.env["bandwidth"] = ks.b
        st.env["nf"], st.env["nr"], st.env["nc"] = ks.nf, ks.nr, ks.nc
        return [ks.nf >= 0, ks.nr >= 0, ks.nc >= 0]

    def make_result(ex, st, env):
        out = ex.fresh("smoothed", A2(R))
        return ex.alloc_arr(st, (ks.nr, ks.nc), out, "real", "fresh", tag="smoothed")
    return Contract(
        qual=f"hvsrpy.smoothing.{name}",
        params=["frequencies", "spectrum", "fcs", "bandwidth"],
        ghost=dict(SW=ks.SW, SP=ks.SP, OUT=ks.OUT),
        requires=["nf >= 1", "bandwidth > 0"],
        ensures=["result.shape[0] == nr and result.shape[1] == nc",
                 "forall(r, 0, nr, forall(c, 0, nc, result[r, c] == OUT(r, c)))"],
        loops={0: ["smoothed_spectrum.shape[0] == nr and smoothed_spectrum.shape[1] == nc",
                   "forall(r, 0, nr, forall(c, 0, _k0, smoothed_spectrum[r, c] == OUT(r, c)))"],
               1: ["sumwindow == SW(fc_index, _k1)",
                   "forall(r, 0, nr, sumproduct[r] == SP(r, fc_index, _k1))"]},
        modifies=[],
        axioms=ks.axioms() + [AX_LOG10_ZERO] + AX_PI + AX_SQRT6,
        make_inputs=make_inputs, make_result=make_result,
        notes="A-TRANSC (log10(y)=0 iff y=1 for y>0), A-PI, sqrt(6)>0 are used only for the safety obligations of sin(x)/x",
    ), ks


TASKS = []
SPECS = {}
for _name in KERNELS:
    _c, _ks = kernel_contract(_name)
    SPECS[_name] = (_c, _ks)
    TASKS.append(FunctionTask(_c, clauses=["weight-normalised average under the published kernel", "zero where no sample in window"]))

META = dict(
    level="other",
    explanation="proved: every kernel body == normalised-kernel spec for all grids/spectra/centre frequencies/bandwidths (PyVC obligations); "
                "bounded: compiled (numba) == interpreted source",
    trusted_base=["A-REAL floats as reals", "A-PY semantics of the Python subset", "A-NP-ELEM/A-NP-ALLOC numpy elementwise ops and allocation",
                  "A-TRANSC sin/log10/10**x uninterpreted (log10(y)=0 iff y=1)", "numba translation (bounded differential check only)",
                  "PyVC engine + z3/cvc5"],
    assumptions=["A-REAL", "A-PY", "A-NP-ELEM", "A-NP-ALLOC", "A-TRANSC", "A-PI", "numba-translation-trusted"],
)
