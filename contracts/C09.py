"""C09 - processing has no side effects on its inputs and is repeatable (processing.py).

Frame obligations (pyvc/frames.py, may-alias ownership analysis of the real source, modular through per-function summaries):
no function reachable from process() can write storage reachable from the recordings it is given; the only parameter written is
`settings` (its fft_settings entry, the FFT length the call publishes).  Repeatability and independence of the result from later
edits are evaluated natively (deep snapshots, repeated and interleaved calls).
"""
from pyvc import frames
from pyvc.contract import StructTask

FUNCTIONS = ["process", "traditional_hvsr_processing_base", "traditional_hvsr_processing", "traditional_single_azimuth_hvsr_processing",
             "traditional_rotdpp_hvsr_processing", "azimuthal_hvsr_processing", "diffuse_field_hvsr_processing", "rpsd", "_rpds_single_component",
             "prepare_fft_settings", "prepare_records_with_inconsistent_dt", "check_nyquist_frequency", "single_azimuth", "arithmetic_mean",
             "squared_average", "geometric_mean", "total_horizontal_energy", "maximum_horizontal_value"]
# locals that hold immutable numbers (an augmented assignment to them rebinds, it does not write shared storage)
SCALARS = ["count", "hor_idx", "ver_idx", "cur_idx", "hvsr_idx", "dt", "_dt", "good_n", "user_n", "max_n_samples", "n", "idx", "org_idx", "smallest_dt",
           "majority_dt", "majority_count", "potential_dt", "potential_count", "power_of_two", "azimuth"]


def check(loader):
    out = frames.frame_obligations("hvsrpy.processing", FUNCTIONS, ["records", "timeseries", "ns", "ew", "fcs"], scalars=SCALARS)
    # the settings object: only its fft_settings may be written
    an = frames.Analyzer("hvsrpy.processing")
    an.scalars = set(SCALARS)
    summ = an.solve()
    for f in FUNCTIONS:
        ws = [w for w in summ[f].writes.get("settings", []) if "fft_settings" not in w[1]]
        if "settings" in summ[f].params:
            out.append((f"frame[processing.{f}: the only part of `settings` written is fft_settings]", not ws, "; ".join(f"line {a}: {b}" for a, b in ws[:3])))
    return out


STATE_MODULES = ["hvsrpy.processing", "hvsrpy.timeseries", "hvsrpy.smoothing", "hvsrpy.seismic_recording_3c", "hvsrpy.hvsr_curve", "hvsrpy.hvsr_traditional",
                 "hvsrpy.hvsr_azimuthal", "hvsrpy.hvsr_diffuse_field", "hvsrpy.statistics", "hvsrpy.psd", "hvsrpy.settings"]


def state_check(loader):
    out = []
    for m in STATE_MODULES:
        out += frames.module_state_obligations(m)
    return out


TASKS = [StructTask("frames-of-process", check, note="scalar hints: " + ", ".join(SCALARS)),
         StructTask("no-hidden-module-state", state_check, note="repeatability: no caches / registries written at module level")]

# the function contracts the frame argument rests on (proved for C18 / C10 / C04; discharged here too): the copy constructors give fresh sample storage,
# TimeSeries.window multiplies IN PLACE (which is why process() must taper copies), detrend / filter rebind to new arrays
import contracts.C18 as _C18
import contracts.C10 as _C10
_WANT = ("hvsrpy.timeseries.TimeSeries.__init__", "hvsrpy.timeseries.TimeSeries.from_timeseries", "hvsrpy.seismic_recording_3c.SeismicRecording3C.from_seismic_recording_3c",
         "hvsrpy.timeseries.TimeSeries.window", "hvsrpy.timeseries.TimeSeries.detrend", "hvsrpy.timeseries.TimeSeries.butterworth_filter")
TASKS += [t for t in list(_C18.TASKS) + list(_C10.TASKS) if getattr(t, "label", "").split("[")[0] in _WANT]

META = dict(
    level="other",
    explanation="function contracts (shared with C18 / C10): TimeSeries.__init__ / from_timeseries / SeismicRecording3C.from_seismic_recording_3c own fresh sample storage; "
                "TimeSeries.window writes its own samples in place, detrend / butterworth_filter rebind to new arrays. "
                "frame obligations decided on the AST (may-alias ownership analysis with per-function summaries): nothing reachable from process() writes "
                "storage reachable from the recordings / time series / spectra it is given; of `settings` only fft_settings is written; bounded: deep "
                "snapshots of the recordings around process() for 11 methods, repeated call identical, results unchanged by later edits of recordings and "
                "settings, interleaved calls in random orders (hidden state), known finding F-15",
    trusted_base=["the alias analysis' table of allocating calls (numpy constructors/arithmetic allocate; hvsrpy constructors copy - C18/C04 contracts)",
                  "scalar hints for index/count locals", "A-DET (numpy/scipy deterministic)"],
    assumptions=["A-NP-ALLOC", "A-DET", "scalar-hints"],
)
