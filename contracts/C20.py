"""C20 - plots and summary tables are read-only and show the object's state (postprocessing.py).

Frame obligations (pyvc/frames.py): no plotting / summary function writes storage reachable from the HVSR object or the recordings;
plot_pre_and_post_rejection is the one writer and restores both masks from their own saved copies in a `finally`.  Routing obligations
(structural): every helper draws the statistic the statement names, from the mask of its own kind.  That matplotlib renders those calls
as lines carrying the data is evaluated natively (Agg back end, bounded/C20.py).
"""
import ast

from pyvc import frames
from pyvc.contract import StructTask

READ_ONLY = ["_plot_individual_hvsr_curves", "_plot_peak_individual_hvsr_curve", "_plot_peak_mean_hvsr_curve", "_plot_mean_hvsr_curve", "_plot_nth_std_hvsr_curve",
             "_plot_nth_std_frequency_range", "_plot_resonance_pdf", "plot_single_panel_hvsr_curves", "plot_seismic_recordings_3c", "summarize_hvsr_statistics",
             "_azimuthal_mesh_from_hvsr", "plot_azimuthal_contour_2d", "plot_azimuthal_contour_3d", "plot_azimuthal_summary"]
SCALARS = ["start_time", "normalization_factor", "idx", "i", "n", "y_max", "f_min", "f_max"]


def frame_check(loader):
    out = frames.frame_obligations("hvsrpy.postprocessing", READ_ONLY, ["hvsr", "srecords", "valid_window_boolean_mask", "plot_kwargs", "fill_kwargs"], scalars=SCALARS)
    out += frames.module_state_obligations("hvsrpy.postprocessing")
    # the helpers mutate plot_kwargs["label"]: it must be a fresh copy of the module-level defaults
    src, tree = loader.load_module("hvsrpy.postprocessing")
    for fn in [n for n in tree.body if isinstance(n, ast.FunctionDef) and n.name.startswith("_plot")]:
        for st in ast.walk(fn):
            if isinstance(st, ast.Assign) and ast.unparse(st.targets[0]) == "default_kwargs":
                ok = ast.unparse(st.value).replace("\n", "").replace(" ", "").endswith(".copy()")
                out.append((f"{fn.name}: DEFAULT_KWARGS entry is copied before use", ok, ast.unparse(st.value)[:80]))
    return out


def pre_post(loader):
    fn, _ = loader.find("hvsrpy.postprocessing.plot_pre_and_post_rejection")
    out = []
    saves = {ast.unparse(s.targets[0]): ast.unparse(s.value) for s in ast.walk(fn) if isinstance(s, ast.Assign) and ast.unparse(s.targets[0]).startswith("store_")}
    out.append(("saves a copy of the window mask", saves.get("store_valid_window_boolean_mask") == "np.array(hvsr.valid_window_boolean_mask)", str(saves)))
    out.append(("saves a copy of the peak mask", saves.get("store_valid_peak_boolean_mask") == "np.array(hvsr.valid_peak_boolean_mask)", str(saves)))
    tries = [t for t in ast.walk(fn) if isinstance(t, ast.Try) and t.finalbody]
    restored = {}
    for t in tries:
        for s in t.finalbody:
            if isinstance(s, ast.Assign):
                restored[ast.unparse(s.targets[0])] = ast.unparse(s.value)
    out.append(("restores the window mask from its saved copy in a finally block (normal and exceptional exit)",
                restored.get("hvsr.valid_window_boolean_mask") == "store_valid_window_boolean_mask", str(restored)))
    out.append(("restores the peak mask from its saved copy in a finally block", restored.get("hvsr.valid_peak_boolean_mask") == "store_valid_peak_boolean_mask", str(restored)))
    # every temporary mask change happens inside/before that try and nothing writes the masks afterwards
    writes = [(s.lineno, ast.unparse(s.targets[0])) for s in ast.walk(fn) if isinstance(s, ast.Assign) and ast.unparse(s.targets[0]).startswith("hvsr.valid_")]
    last_finally = max([s.lineno for t in tries for s in t.finalbody] + [0])
    out.append(("no mask write after the restoring finally block", all(ln <= last_finally for ln, _ in writes), str(writes)))
    return out


def routing(loader):
    """each helper draws what the statement names, from the right mask, with the right sign"""
    import re

    class N(str):
        """source text compared modulo white space and redundant parentheses (robust against formatting / unparse versions)"""
        def __contains__(self, other):
            return str.__contains__(re.sub(r"[\s()]", "", str(self)), re.sub(r"[\s()]", "", other))

    def src(name):
        fn, _ = loader.find("hvsrpy.postprocessing." + name)
        return N(ast.unparse(fn))
    out = []
    s = src("_plot_individual_hvsr_curves")
    out.append(("individual curves: accepted = valid_window mask, rejected = its complement", "to_plot = hvsr.valid_window_boolean_mask if valid else ~hvsr.valid_window_boolean_mask" in s
                and "for amplitude in hvsr.amplitude[to_plot]:" in s and "ax.plot(hvsr.frequency, amplitude, **plot_kwargs)" in s, ""))
    s = src("_plot_peak_individual_hvsr_curve")
    out.append(("individual peaks: accepted = valid_peak mask, rejected = its complement; frequency and amplitude from the same selection",
                "to_plot = hvsr.valid_peak_boolean_mask if valid else ~hvsr.valid_peak_boolean_mask" in s and
                "(frequency, amplitude) = (hvsr._main_peak_frq[to_plot], hvsr._main_peak_amp[to_plot])" in s, ""))
    s = src("_plot_mean_hvsr_curve")
    out.append(("mean curve = hvsr.mean_curve(distribution)", "ax.plot(hvsr.frequency, hvsr.mean_curve(distribution=distribution), **plot_kwargs)" in s, ""))
    s = src("_plot_nth_std_hvsr_curve")
    out.append(("std curve = hvsr.nth_std_curve(n, distribution)", "ax.plot(hvsr.frequency, hvsr.nth_std_curve(n=n, distribution=distribution), **plot_kwargs)" in s, ""))
    s = src("_plot_peak_mean_hvsr_curve")
    out.append(("mean-curve peak marker = hvsr.mean_curve_peak(distribution)", "ax.plot(*hvsr.mean_curve_peak(distribution=distribution), **plot_kwargs)" in s, ""))
    s = src("_plot_nth_std_frequency_range")
    out.append(("fn band = nth_std_fn_frequency(-n) .. nth_std_fn_frequency(+n)", "f_min = hvsr.nth_std_fn_frequency(n=-n, distribution=distribution)" in s and
                "f_max = hvsr.nth_std_fn_frequency(n=+n, distribution=distribution)" in s and "ax.fill([f_min, f_min, f_max, f_max]" in s, ""))
    fn, _ = loader.find("hvsrpy.postprocessing.plot_single_panel_hvsr_curves")
    calls = {}
    for st in ast.walk(fn):
        if isinstance(st, ast.If) and isinstance(st.test, ast.Name):
            calls[st.test.id] = [re.sub(r"\s", "", ast.unparse(c.value)) for c in st.body if isinstance(c, ast.Expr)]
    want = {
        "plot_valid_curves": ["_plot_individual_hvsr_curves(ax=ax, hvsr=hvsr, valid=True)"],
        "plot_invalid_curves": ["_plot_individual_hvsr_curves(ax=ax, hvsr=hvsr, valid=False)"],
        "plot_mean_curve": ["_plot_mean_hvsr_curve(ax=ax, hvsr=hvsr, distribution=distribution_mc)", "_plot_nth_std_hvsr_curve(ax=ax, hvsr=hvsr, distribution=distribution_mc, n=+1)",
                            "_plot_nth_std_hvsr_curve(ax=ax, hvsr=hvsr, distribution=distribution_mc, n=-1, plot_kwargs=dict(label=None))"],
        "plot_frequency_std": ["_plot_nth_std_frequency_range(ax=ax, hvsr=hvsr, distribution=distribution_fn, n=+1)"],
        "plot_peak_mean_curve": ["_plot_peak_mean_hvsr_curve(ax=ax, hvsr=hvsr, distribution=distribution_mc)"],
        "plot_peak_individual_valid_curves": ["_plot_peak_individual_hvsr_curve(ax=ax, hvsr=hvsr, valid=True)"],
        "plot_peak_individual_invalid_curves": ["_plot_peak_individual_hvsr_curve(ax=ax, hvsr=hvsr, valid=False)"],
    }
    for k, v in want.items():
        out.append((f"single panel: option {k} guards exactly its helper(s) with the right distribution", calls.get(k) == [re.sub(r"\s", "", x) for x in v], str(calls.get(k))[:200]))
    return out


TASKS = [StructTask("read-only-frames", frame_check, note="scalar hints: " + ", ".join(SCALARS)), StructTask("pre-and-post-restores-masks", pre_post, textual=True), StructTask("routing", routing, textual=True)]

# ---------------------------------------------------------------------------------------------------------------------
# the drawing helpers, the single-panel driver and the summary table under contract.  The Axes object / pandas are recorders: every ax.plot / ax.fill call
# and the data handed to pd.DataFrame are kept in a ghost list; the statistics accessors are opaque functions of (object, arguments) (their contracts:
# C05 / C08 / C11).  Proved: what is drawn / tabulated is the accessor the statement names, evaluated for the distribution option that belongs to it, and the
# object is not written (frame).
import z3
from pyvc.core import I, R, B, FuncV, ModV, DictV, StrV, Tup, NONE, ClsV, OpaqueV, ORef, ARef, MaskedV, Undecided, lit
from pyvc.contract import Contract, FunctionTask, sym_obj
from pyvc import npmodel as npm

ARp = z3.ArraySort(I, R)
MP, KP = z3.Ints("n_frequencies n_curves")
FRQP = z3.Const("frequency", ARp)
ACC = z3.Function("accessor_scalar", I, I, R, R)           # (accessor code, distribution code, n) -> value
ACCV = z3.Function("accessor_curve", I, I, R, ARp)         # curve-valued accessors
_ACODE = {"mean_fn_frequency": 1, "std_fn_frequency": 2, "nth_std_fn_frequency": 3, "mean_fn_amplitude": 4, "std_fn_amplitude": 5, "nth_std_fn_amplitude": 6,
          "mean_curve": 7, "std_curve": 8, "nth_std_curve": 9, "mean_curve_peak_f": 10, "mean_curve_peak_a": 11}
_DCODE = {"lognormal": 1, "normal": 2}


def _dc(d):
    return z3.IntVal(_DCODE[d.s]) if isinstance(d, StrV) else lit(d)


def _acc_model(name, curve=False, pair=False):
    def f(ex, st, args, kw, node):
        b = dict(zip(["n", "distribution"] if name.startswith("nth") else ["distribution"], args[1:]))
        b.update(kw)
        d, n = _dc(b.get("distribution", StrV("lognormal"))), npm.real(b.get("n", 0))
        if pair:
            return Tup((ACC(z3.IntVal(_ACODE["mean_curve_peak_f"]), d, n), ACC(z3.IntVal(_ACODE["mean_curve_peak_a"]), d, n)))
        if curve:
            return ex.alloc_arr(st, (MP,), ACCV(z3.IntVal(_ACODE[name]), d, n), "real", "fresh", tag=name)
        return ACC(z3.IntVal(_ACODE[name]), d, n)
    return FuncV(f, name)


def _registry(cls):
    reg = {f"{cls}.{nm}": _acc_model(nm, curve=nm.endswith("curve")) for nm in _ACODE if not nm.startswith("mean_curve_peak")}
    reg[f"{cls}.mean_curve_peak"] = _acc_model("mean_curve_peak", pair=True)
    for m in ("plot", "fill", "set_ylim", "set_xscale", "set_xlabel", "set_ylabel", "legend"):
        reg[f"Axes.{m}"] = FuncV(lambda ex, st, a, k, n_, _m=m: (st.env.__setitem__("__drawn", Tup(tuple(st.env["__drawn"]) + ((_m, Tup(a[1:]), dict(k)),))), NONE)[1], m)
    reg["Axes.get_ylim"] = FuncV(lambda ex, st, a, k, n_: Tup((z3.RealVal(0), z3.Real("y_max_of_the_axes"))), "get_ylim")
    return reg


def _plot_inputs(cls, extra):
    def mk(ex, st):
        fields = {"frequency": ex.alloc_arr(st, (MP,), FRQP, "real", "param:hvsr.frequency", tag="frequency")}
        if cls == "HvsrTraditional":
            import contracts.acc_traditional as _A
            fields.update(_A._self_fields(ex, st))
            fields["frequency"] = ex.alloc_arr(st, (MP,), FRQP, "real", "param:hvsr.frequency", tag="frequency")
        st.env["hvsr"] = sym_obj(ex, st, cls, fields, owner="param:hvsr")
        st.env["ax"] = sym_obj(ex, st, "Axes", {}, owner="param:ax")
        st.env.update(extra)
        st.env["__drawn"] = Tup(())
        st.env["MP"] = MP
        return [MP >= 1]
    return mk


def _kw(d):
    return DictV({k: StrV(str(v)) for k, v in d.items()}, owner="module")


_DEFAULTS = DictV({k: _kw({"label": k}) for k in ("individual_valid_hvsr_curve", "individual_invalid_hvsr_curve", "mean_hvsr_curve", "nth_std_mean_hvsr_curve",
                                                   "nth_std_frequency_range_normal", "nth_std_frequency_range_lognormal", "peak_mean_hvsr_curve",
                                                   "peak_mean_hvsr_curve_azimuthal", "peak_individual_valid_hvsr_curve", "peak_individual_invalid_hvsr_curve")}, owner="module")
_P_ENV = {c: ClsV(c) for c in ("HvsrTraditional", "HvsrAzimuthal", "HvsrDiffuseField")}
_P_ENV.update(DEFAULT_KWARGS=_DEFAULTS, np=ModV("np", dict(npm.NP.attrs, ceil=FuncV(lambda ex, st, a, k, n_: ex.fresh("ceil", R), "np.ceil"))))


def _drawn(ex, st, a, k, n_):
    """DRAWN(i): the i-th recorded call as (method, args); `only(method)` etc. are spelled out in the clauses through these accessors"""
    return st.env["__drawn"]


def _one_line(kind):
    """exactly one ax.<kind> call was made (besides axis cosmetics) and its data arguments are (x, y)"""
    def f(ex, st, a, k, n_):
        calls = [c for c in st.env["__drawn"] if c[0] in ("plot", "fill")]
        if len(calls) != 1 or calls[0][0] != kind:
            return z3.BoolVal(False)
        x, y = calls[0][1][0], calls[0][1][1]
        wx, wy = a[0], a[1]

        def same(p, q):
            if isinstance(p, ARef) and isinstance(q, ARef):
                dp, dq = ex.arr(st, p), ex.arr(st, q)
                return z3.And(dp.data == dq.data, dp.shape[0] == dq.shape[0])
            if isinstance(p, ARef) or isinstance(q, ARef):
                return z3.BoolVal(False)
            return lit(p) == lit(q)
        return z3.And(same(x, wx), same(y, wy))
    return FuncV(f, "one_" + kind)


_PG = {"one_plot": _one_line("plot"), "CURVE": FuncV(lambda ex, st, a, k, n_: ex.alloc_arr(st, (MP,), ACCV(z3.IntVal(_ACODE[a[0].s]), _dc(a[1]), npm.real(a[2]) if len(a) > 2 else z3.RealVal(0)), "real", "fresh"), "CURVE"),
       "VALUE": FuncV(lambda ex, st, a, k, n_: ACC(z3.IntVal(_ACODE[a[0].s]), _dc(a[1]), npm.real(a[2]) if len(a) > 2 else z3.RealVal(0)), "VALUE"),
       "nothing_drawn": FuncV(lambda ex, st, a, k, n_: z3.BoolVal(not [c for c in st.env["__drawn"] if c[0] in ("plot", "fill")]), "nothing_drawn")}
_QP = "hvsrpy.postprocessing."
DISTP = z3.Int("distribution")
NP_ = z3.Real("n")
for _cls in ("HvsrTraditional", "HvsrAzimuthal"):
    _reg = _registry(_cls)
    for _fn, _params, _extra, _ens in (
            ("_plot_mean_hvsr_curve", ["ax", "hvsr", "distribution", "plot_kwargs"], {"distribution": DISTP, "plot_kwargs": NONE},
             ["one_plot(hvsr.frequency, CURVE('mean_curve', distribution))"]),
            ("_plot_nth_std_hvsr_curve", ["ax", "hvsr", "distribution", "n", "plot_kwargs"], {"distribution": DISTP, "n": NP_, "plot_kwargs": NONE},
             ["one_plot(hvsr.frequency, CURVE('nth_std_curve', distribution, n))"]),
            ("_plot_peak_mean_hvsr_curve", ["ax", "hvsr", "distribution", "plot_kwargs"], {"distribution": DISTP, "plot_kwargs": NONE},
             ["one_plot(VALUE('mean_curve_peak_f', distribution), VALUE('mean_curve_peak_a', distribution))"])):
        _c = Contract(qual=_QP + _fn, params=_params, ghost=_PG, make_inputs=_plot_inputs(_cls, _extra), ensures=_ens, modifies=["param:ax"],
                      notes="one line carrying the accessor's values for the distribution asked for; the object is not written")
        _c.ghost_state = ("__drawn",)
        TASKS.append(FunctionTask(_c, module_env=_P_ENV, registry=_reg, label=f"{_QP}{_fn}[{_cls}]", clauses=["what is drawn is the object's statistic"]))
    for _d in ("lognormal", "normal"):
        def _band(ex, st, a, k, n_, _d=_d):
            calls = [c for c in st.env["__drawn"] if c[0] in ("plot", "fill")]
            if len(calls) != 1 or calls[0][0] != "fill":
                return z3.BoolVal(False)
            xs = st.heap[calls[0][1][0].sid].items
            lo = ACC(z3.IntVal(_ACODE["nth_std_fn_frequency"]), z3.IntVal(_DCODE[_d]), -NP_)
            hi = ACC(z3.IntVal(_ACODE["nth_std_fn_frequency"]), z3.IntVal(_DCODE[_d]), NP_)
            return z3.And(lit(xs[0]) == lo, lit(xs[1]) == lo, lit(xs[2]) == hi, lit(xs[3]) == hi) if len(xs) == 4 else z3.BoolVal(False)
        _c = Contract(qual=_QP + "_plot_nth_std_frequency_range", params=["ax", "hvsr", "distribution", "n", "fill_kwargs"], ghost=dict(_PG, band=FuncV(_band, "band")),
                      make_inputs=_plot_inputs(_cls, {"distribution": StrV(_d), "n": NP_, "fill_kwargs": NONE}), ensures=["band()"], modifies=["param:ax"],
                      notes="one filled band from the -n to the +n standard-deviation value of the resonance frequency for the distribution asked for")
        _c.ghost_state = ("__drawn",)
        TASKS.append(FunctionTask(_c, module_env=_P_ENV, registry=_reg, label=f"{_QP}_plot_nth_std_frequency_range[{_cls},{_d}]", clauses=["the fn band is the object's +-n values"]))

# single-panel driver: which helper is called with which distribution option (all optional parts switched on)
_HELPERS = ("_plot_individual_hvsr_curves", "_plot_mean_hvsr_curve", "_plot_nth_std_hvsr_curve", "_plot_nth_std_frequency_range", "_plot_peak_mean_hvsr_curve", "_plot_peak_individual_hvsr_curve")


def _helper_model(name):
    def f(ex, st, args, kw, node):
        st.env["__drawn"] = Tup(tuple(st.env["__drawn"]) + ((name, Tup(args), dict(kw)),))
        return NONE
    return FuncV(f, name)


DMC_, DFN_ = z3.Ints("distribution_mc distribution_fn")


def _panel_calls(ex, st, a, k, n_):
    calls = [c for c in st.env["__drawn"] if c[0] in _HELPERS]
    want = [("_plot_individual_hvsr_curves", {"valid": True}), ("_plot_individual_hvsr_curves", {"valid": False}), ("_plot_mean_hvsr_curve", {"distribution": DMC_}),
            ("_plot_nth_std_hvsr_curve", {"distribution": DMC_, "n": 1}), ("_plot_nth_std_hvsr_curve", {"distribution": DMC_, "n": -1}),
            ("_plot_nth_std_frequency_range", {"distribution": DFN_, "n": 1}), ("_plot_peak_mean_hvsr_curve", {"distribution": DMC_}),
            ("_plot_peak_individual_hvsr_curve", {"valid": True}), ("_plot_peak_individual_hvsr_curve", {"valid": False})]
    if [c[0] for c in calls] != [w[0] for w in want]:
        return z3.BoolVal(False)
    conj = []
    for c, (nm, kws) in zip(calls, want):
        if c[2].get("hvsr") is not st.env["hvsr"] or c[2].get("ax") is not st.env["ax"]:
            return z3.BoolVal(False)
        for key, val in kws.items():
            got = c[2].get(key)
            if got is None:
                return z3.BoolVal(False)
            conj.append(lit(got) == (z3.BoolVal(val) if isinstance(val, bool) else (z3.IntVal(val) if isinstance(val, int) else val)) if not z3.is_real(lit(got)) or isinstance(val, bool)
                        else lit(got) == z3.RealVal(val))
    return z3.And(*conj)


_on = z3.BoolVal(True)
PANEL = Contract(qual=_QP + "plot_single_panel_hvsr_curves",
                 params=["hvsr", "distribution_mc", "distribution_fn", "plot_valid_curves", "plot_invalid_curves", "plot_mean_curve", "plot_frequency_std", "plot_peak_mean_curve",
                         "plot_peak_individual_valid_curves", "plot_peak_individual_invalid_curves", "ax", "subplots_kwargs"],
                 ghost={"panel_calls": FuncV(_panel_calls, "panel_calls")},
                 make_inputs=_plot_inputs("HvsrTraditional", {"distribution_mc": DMC_, "distribution_fn": DFN_, "plot_valid_curves": _on, "plot_invalid_curves": _on, "plot_mean_curve": _on,
                                                               "plot_frequency_std": _on, "plot_peak_mean_curve": _on, "plot_peak_individual_valid_curves": _on,
                                                               "plot_peak_individual_invalid_curves": _on, "subplots_kwargs": NONE}),
                 ensures=["panel_calls()", "result is ax"], modifies=["param:ax"],
                 notes="with every optional part switched on: accepted curves, rejected curves, the mean and +-1 standard-deviation curves for distribution_mc, the fn band for "
                       "distribution_fn, the mean-curve peak for distribution_mc, accepted and rejected individual peaks - each helper once, on the object and the axes given")
PANEL.ghost_state = ("__drawn",)
_panel_reg = _registry("HvsrTraditional")
TASKS.append(FunctionTask(PANEL, module_env=dict(_P_ENV, **{h: _helper_model(h) for h in _HELPERS}), registry=_panel_reg, label=_QP + "plot_single_panel_hvsr_curves[all parts]",
                          clauses=["every statistic is drawn for the distribution option that belongs to it"]))

# summary table
def _m_dataframe(ex, st, args, kw, node):
    st.env["__table"] = kw["data"]
    return OpaqueV("DataFrame")


def _cell(ex, st, a, k, n_):
    return ex.sel2(ex.arr(st, st.env["__table"]), lit(a[0]), lit(a[1]))


_PD = ModV("pd", {"DataFrame": FuncV(_m_dataframe, "pd.DataFrame"), "option_context": FuncV(lambda ex, st, a, k, n_: OpaqueV("option_context"), "pd.option_context")})
for _cls in ("HvsrTraditional", "HvsrAzimuthal"):
    for _d in ("lognormal", "normal"):
        V = lambda nm, n=None: f"VALUE('{nm}', distribution_fn" + (f", {n})" if n is not None else ")")
        rows = {0: [V("mean_fn_frequency"), V("std_fn_frequency"), V("nth_std_fn_frequency", -1), V("nth_std_fn_frequency", 1)],
                2: [V("mean_fn_amplitude"), V("std_fn_amplitude"), V("nth_std_fn_amplitude", -1), V("nth_std_fn_amplitude", 1)]}
        ens = [f"CELL({r}, {c}) == {e}" for r, es in rows.items() for c, e in enumerate(es)]
        if _d == "lognormal":
            ens += [f"CELL(1, 0) == 1 / {V('mean_fn_frequency')}", f"CELL(1, 1) == {V('std_fn_frequency')}"]
        _c = Contract(qual=_QP + "summarize_hvsr_statistics", params=["hvsr", "distribution_mc", "distribution_fn"], ghost=dict(_PG, CELL=FuncV(_cell, "CELL")),
                      make_inputs=_plot_inputs(_cls, {"distribution_mc": StrV("lognormal"), "distribution_fn": StrV(_d)}), ensures=ens, modifies=[],
                      requires=([f"{V('mean_fn_frequency')} != 0 and {V('nth_std_fn_frequency', -1)} != 0 and {V('nth_std_fn_frequency', 1)} != 0"] if _d == "lognormal" else []),
                      notes="rows fn / Tn / An; columns median-or-mean, standard deviation, -1 and +1 standard-deviation values of the object's fn statistics for distribution_fn; "
                            "the period row holds the reciprocal of the lognormal median and the same log-standard deviation")
        _c.ghost_state = ("__table",)
        TASKS.append(FunctionTask(_c, module_env=dict(_P_ENV, pd=_PD, display=FuncV(lambda ex, st, a, k, n_: NONE, "display")), registry=_registry(_cls),
                                  label=f"{_QP}summarize_hvsr_statistics[{_cls},{_d}]", clauses=["the summary table lists the object's fn statistics"]))

# ---------------------------------------------------------------------------------------------------------------------
# plot_pre_and_post_rejection: the one function that writes the object it is given.  matplotlib is opaque; plot_single_panel_hvsr_curves is a recorder that may
# raise (the first panel's mean-curve peak search can fail when every window counts).  Proved: the first panel is drawn with all windows and all peaks
# accepted, the second with the object's own masks; on the normal exit *and* when a panel raises, both masks hold exactly their content at entry.
from pyvc.core import ReturnRec
KPP = z3.Int("n_curves")
VW_IN, VP_IN = z3.Const("valid_window_on_entry", z3.ArraySort(I, B)), z3.Const("valid_peak_on_entry", z3.ArraySort(I, B))


def _pp_inputs(ex, st):
    st.env["hvsr"] = sym_obj(ex, st, "HvsrTraditional", {"valid_window_boolean_mask": ex.alloc_arr(st, (KPP,), VW_IN, "bool", "param:hvsr.valid_window_boolean_mask", tag="vw"),
                                                         "valid_peak_boolean_mask": ex.alloc_arr(st, (KPP,), VP_IN, "bool", "param:hvsr.valid_peak_boolean_mask", tag="vp")},
                             owner="param:hvsr")
    st.env["srecords"] = StrV("<recordings>")
    st.env["distribution_mc"], st.env["distribution_fn"] = z3.Int("distribution_mc"), z3.Int("distribution_fn")
    st.env["__panels"] = Tup(())
    st.env["KPP"] = KPP
    return [KPP >= 0]


def _m_panel(ex, st, args, kw, node):
    """plot_single_panel_hvsr_curves(hvsr, ...): records the masks the object has at the time of the call and the options; may raise ValueError"""
    h = st.heap[args[0].oid]
    vw, vp = ex.arr(st, h.fields["valid_window_boolean_mask"]), ex.arr(st, h.fields["valid_peak_boolean_mask"])
    st.env["__panels"] = Tup(tuple(st.env["__panels"]) + ((vw.data, vw.shape[0], vp.data, vp.shape[0], dict(kw)),))
    fails = ex.fresh("panel_raises", B)
    bad = st.fork()
    bad.pc.append(fails)
    ex.returns.append(ReturnRec(bad, None, "ValueError", getattr(node, "lineno", 0)))
    st.pc.append(z3.Not(fails))
    return NONE


def _masks_restored(ex, st, a, k, n_):
    h = st.heap[st.env["hvsr"].oid]
    vw, vp = ex.arr(st, h.fields["valid_window_boolean_mask"]), ex.arr(st, h.fields["valid_peak_boolean_mask"])
    i = z3.Int("i!pp")
    return z3.And(vw.shape[0] == KPP, vp.shape[0] == KPP,
                  z3.ForAll([i], z3.Implies(z3.And(i >= 0, i < KPP), z3.And(z3.Select(vw.data, i) == z3.Select(VW_IN, i), z3.Select(vp.data, i) == z3.Select(VP_IN, i)))))


def _panels_ok(ex, st, a, k, n_):
    ps = st.env["__panels"]
    if len(ps) != 2:
        return z3.BoolVal(False)
    i = z3.Int("i!pp")
    (w1, n1, p1, m1, k1), (w2, n2, p2, m2, k2) = ps
    first = z3.And(n1 == KPP, m1 == KPP, z3.ForAll([i], z3.Implies(z3.And(i >= 0, i < KPP), z3.And(z3.Select(w1, i), z3.Select(p1, i)))))
    second = z3.And(n2 == KPP, m2 == KPP, z3.ForAll([i], z3.Implies(z3.And(i >= 0, i < KPP), z3.And(z3.Select(w2, i) == z3.Select(VW_IN, i), z3.Select(p2, i) == z3.Select(VP_IN, i)))))
    opts = z3.And(*[lit(kk.get("distribution_mc")) == z3.Int("distribution_mc") for kk in (k1, k2)] + [lit(kk.get("distribution_fn")) == z3.Int("distribution_fn") for kk in (k1, k2)])
    return z3.And(first, second, opts)


_PP_ENV = {"HvsrTraditional": ClsV("HvsrTraditional"), "plt": OpaqueV("plt"), "plot_seismic_recordings_3c": FuncV(lambda ex, st, a, k, n_: NONE, "plot_seismic_recordings_3c"),
           "plot_single_panel_hvsr_curves": FuncV(_m_panel, "plot_single_panel_hvsr_curves"), "np": npm.NP}
PREPOST = Contract(qual=_QP + "plot_pre_and_post_rejection", params=["srecords", "hvsr", "distribution_mc", "distribution_fn"],
                   ghost={"masks_as_on_entry": FuncV(_masks_restored, "masks_as_on_entry"), "panels": FuncV(_panels_ok, "panels")}, make_inputs=_pp_inputs,
                   ensures=["masks_as_on_entry()", "panels()"], ensures_on_raise={"ValueError": ["masks_as_on_entry()"]},
                   modifies=["param:hvsr"],
                   notes="first panel: every window and every peak accepted; second panel: the object's own masks; both masks are back to their content at entry on the "
                         "normal exit and when either panel raises")
PREPOST.ghost_state = ("__panels",)
TASKS.append(FunctionTask(PREPOST, module_env=_PP_ENV, clauses=["temporary mask changes are undone on every exit"]))

# ---------------------------------------------------------------------------------------------------------------------
# the two helpers that draw per-window artists: one line per selected window carrying that window's curve (accepted: the window mask; rejected: its
# complement), and one marker artist holding the peaks selected by the peak mask (or its complement).  Traditional object; Axes as a recorder.
from pyvc import objects as _o20
from pyvc.objects import new_symlist
import contracts.acc_traditional as _AT
KI_, MI_ = _AT.K, _AT.M


def _ind_inputs(valid):
    def mk(ex, st):
        fields = _AT._self_fields(ex, st)
        fields["frequency"] = ex.alloc_arr(st, (MI_,), FRQP, "real", "param:hvsr.frequency", tag="frequency")
        st.env["hvsr"] = sym_obj(ex, st, "HvsrTraditional", fields, owner="param:hvsr")
        st.env["ax"] = sym_obj(ex, st, "Axes", {}, owner="param:ax")
        st.env["valid"] = z3.BoolVal(valid)
        st.env["plot_kwargs"] = NONE
        st.env["__lines"] = new_symlist(ex, st, None, elem_sort=z3.ArraySort(I, R), owner="fresh", name="lines")
        st.env["__drawn"] = Tup(())
        st.env["K"], st.env["M"] = KI_, MI_
        return [KI_ >= 0, MI_ >= 1]
    return mk


def _m_plot_line(ex, st, args, kw, node):
    """ax.plot(x, y, ...): x must be the object's frequency vector; y is recorded"""
    x, y = args[1], args[2]
    dx = ex.arr(st, x)
    ex.add_obl(f"call-pre[ax.plot:x-is-the-frequency-vector@{node.lineno}]", "call-pre", st, z3.And(dx.data == FRQP, dx.shape[0] == MI_), node.lineno,
               "every curve is drawn against the object's frequency vector")
    _o20.symlist_append(ex, st, st.env["__lines"], y, node)
    return NONE


def _line(ex, st, a, k, n_):
    return z3.Select(z3.Select(st.heap[st.env["__lines"].sid].arr, lit(a[0])), lit(a[1]))


_IND_GHOST = {"LINE": FuncV(_line, "LINE"), "n_lines": FuncV(lambda ex, st, a, k, n_: st.heap[st.env["__lines"].sid].length, "n_lines"),
              "IDX": FuncV(lambda ex, st, a, k, n_: z3.Select(st.env["__selidx"][0], lit(a[0])), "IDX"), "NSEL": FuncV(lambda ex, st, a, k, n_: st.env["__selidx"][1], "NSEL"),
              "count": _AT.GHOST["count"], "K": KI_, "M": MI_}
for _valid in (True, False):
    _sel = "hvsr.valid_window_boolean_mask[r]" if _valid else "not hvsr.valid_window_boolean_mask[r]"
    _c = Contract(qual=_QP + "_plot_individual_hvsr_curves", params=["ax", "hvsr", "valid", "plot_kwargs"], ghost=_IND_GHOST, make_inputs=_ind_inputs(_valid),
                  ensures=["n_lines() == NSEL()", "forall(t, 0, NSEL(), forall(c, 0, M, LINE(t, c) == hvsr.amplitude[IDX(t), c]))",
                           # the enumeration IDX is exactly the selected windows, in increasing order
                           f"forall(t, 0, NSEL(), 0 <= IDX(t) and IDX(t) < K)", f"forall(r, 0, K, ({_sel}) == exists(t, 0, NSEL(), IDX(t) == r))",
                           "forall(t, 0, NSEL(), forall(u, t + 1, NSEL(), IDX(t) < IDX(u)))"],
                  loops={1: ["n_lines() == _k1", "forall(t, 0, _k1, forall(c, 0, M, LINE(t, c) == hvsr.amplitude[IDX(t), c]))"]},
                  modifies=["param:ax"], notes=("one line per accepted window" if _valid else "one line per rejected window") + ", each carrying that window's curve; nothing else")
    _c.ghost_state = ("__lines",)
    _c.obj_havoc = {"plot_kwargs": lambda ex, st, v: v}
    TASKS.append(FunctionTask(_c, module_env=_P_ENV, registry={"Axes.plot": FuncV(_m_plot_line, "plot")}, label=f"{_QP}_plot_individual_hvsr_curves[valid={_valid}]",
                              clauses=["one accepted-style line per accepted window and one rejected-style line per rejected window, carrying that window's curve"]))


def _pk_inputs(valid):
    def mk(ex, st):
        _ind_inputs(valid)(ex, st)
        return [KI_ >= 0, MI_ >= 1]
    return mk


def _m_plot_sel(ex, st, args, kw, node):
    st.env["__drawn"] = Tup(tuple(st.env["__drawn"]) + ((args[1], args[2]),))
    return NONE


def _drew_peaks(valid):
    def f(ex, st, a, k, n_):
        calls = st.env["__drawn"]
        h = st.heap[st.env["hvsr"].oid].fields
        vp = ex.arr(st, h["valid_peak_boolean_mask"])
        i = z3.Int("i!pk")
        if len(calls) == 0:
            return z3.BoolVal(False)
        if len(calls) != 1 or not all(isinstance(x, MaskedV) for x in calls[0]):
            return z3.BoolVal(False)
        x, y = calls[0]
        dx, dy, mx, my = ex.arr(st, x.arr), ex.arr(st, y.arr), ex.arr(st, x.mask), ex.arr(st, y.mask)
        want = (lambda j: z3.Select(vp.data, j)) if valid else (lambda j: z3.Not(z3.Select(vp.data, j)))
        return z3.And(dx.data == ex.arr(st, h["_main_peak_frq"]).data, dy.data == ex.arr(st, h["_main_peak_amp"]).data, mx.shape[0] == KI_, my.shape[0] == KI_,
                      z3.ForAll([i], z3.Implies(z3.And(i >= 0, i < KI_), z3.And(z3.Select(mx.data, i) == want(i), z3.Select(my.data, i) == want(i)))))
    return FuncV(f, "drew_peaks")


for _valid in (True, False):
    _cnt = "count(hvsr.valid_peak_boolean_mask)" if _valid else "(K - count(hvsr.valid_peak_boolean_mask))"
    def _nsel(ex, st, a, k, n_, _v=_valid):
        vp = st.heap[st.env["hvsr"].oid].fields["valid_peak_boolean_mask"]
        m = vp if _v else ex.map1(st, vp, lambda x: z3.Not(x), elem="bool")
        return npm.mask_count(ex.arr(st, m))
    _c = Contract(qual=_QP + "_plot_peak_individual_hvsr_curve", params=["ax", "hvsr", "valid", "plot_kwargs"],
                  ghost=dict(_IND_GHOST, drew_peaks=_drew_peaks(_valid), nothing=FuncV(lambda ex, st, a, k, n_: z3.BoolVal(len(st.env["__drawn"]) == 0), "nothing"),
                             n_selected=FuncV(_nsel, "n_selected")),
                  make_inputs=_pk_inputs(_valid), ensures=["implies(n_selected() > 0, drew_peaks())", "implies(n_selected() <= 0, nothing())"], modifies=["param:ax"],
                  notes="one marker artist holding the peak frequencies and amplitudes selected by the peak mask (accepted) or its complement (rejected); nothing when the selection is empty")
    _c.ghost_state = ("__drawn",)
    TASKS.append(FunctionTask(_c, module_env=_P_ENV, registry={"Axes.plot": FuncV(_m_plot_sel, "plot")}, label=f"{_QP}_plot_peak_individual_hvsr_curve[valid={_valid}]",
                              clauses=["peak markers are the object's accepted / rejected peaks"]))

# ---------------------------------------------------------------------------------------------------------------------
# the azimuthal contour plot: _azimuthal_mesh_from_hvsr builds the three grids - frequency along the columns, azimuth along the rows with a closing row at 180
# degrees, and the mean curve of every azimuth with the curve of the first azimuth repeated in the closing row (0 and 180 degrees are the same direction);
# plot_azimuthal_contour_2d hands exactly those grids to contourf in that order and marks, per azimuth, the peak frequency of that azimuth's mean curve at that
# azimuth.  Three azimuths (a concrete list), the accessors opaque: MCBA(distribution) the table of per-azimuth mean curves, PKBA(distribution) their peak frequencies.
from pyvc.core import A2 as _A2c
AZP = [z3.Real(f"azimuth_{i}") for i in range(3)]
MCBA = z3.Function("mean_curve_by_azimuth", I, _A2c(R))
PKBA_F = z3.Function("mean_curve_peak_frequency_by_azimuth", I, ARp)
PKBA_A = z3.Function("mean_curve_peak_amplitude_by_azimuth", I, ARp)


def _az_obj(ex, st):
    fields = {"frequency": ex.alloc_arr(st, (MP,), FRQP, "real", "param:hvsr.frequency", tag="frequency"),
              "azimuths": ex.alloc_list(st, list(AZP), owner="param:hvsr.azimuths")}
    return sym_obj(ex, st, "HvsrAzimuthal", fields, owner="param:hvsr")


def _m_mcba(ex, st, args, kw, node):
    d = _dc(kw.get("distribution", args[1] if len(args) > 1 else StrV("lognormal")))
    return ex.alloc_arr(st, (z3.IntVal(3), MP), MCBA(d), "real", "fresh", tag="mean_curve_by_azimuth")


def _m_pkba(ex, st, args, kw, node):
    d = _dc(kw.get("distribution", args[1] if len(args) > 1 else StrV("lognormal")))
    return Tup((ex.alloc_arr(st, (z3.IntVal(3),), PKBA_F(d), "real", "fresh", tag="peak_f"), ex.alloc_arr(st, (z3.IntVal(3),), PKBA_A(d), "real", "fresh", tag="peak_a")))


def _m_meshgrid(ex, st, args, kw, node):
    x, y = args
    dx = ex.arr(st, x)
    ys = [npm.real(v) for v in st.heap[y.sid].items] if hasattr(y, "sid") and y.sid in st.heap and hasattr(st.heap[y.sid], "items") else None
    if ys is None or dx.rank != 1:
        raise Undecided("np.meshgrid of something other than (1-D array, concrete list)")
    r, c = z3.Ints("r!g c!g")
    row_val = ys[-1]
    for j in range(len(ys) - 2, -1, -1):
        row_val = z3.If(r == j, ys[j], row_val)
    from pyvc.core import L2 as _L2
    shape = (z3.IntVal(len(ys)), dx.shape[0])
    return Tup((ex.alloc_arr(st, shape, _L2(r, c, ex.sel1(dx, c)), "real", "fresh", tag="mesh_x"), ex.alloc_arr(st, shape, _L2(r, c, row_val), "real", "fresh", tag="mesh_y")))


def _m_vstack(ex, st, args, kw, node):
    parts = args[0]
    if not isinstance(parts, (Tup, tuple)) or len(parts) != 2:
        raise Undecided("np.vstack of something other than (table, row)")
    a, b_ = ex.arr(st, parts[0]), ex.arr(st, parts[1])
    if a.rank != 2 or b_.rank != 1:
        raise Undecided("np.vstack of something other than (table, row)")
    ex.safe(st, "vstack-width", a.shape[1] == b_.shape[0], node)
    r, c = z3.Ints("r!v c!v")
    from pyvc.core import L2 as _L2
    return ex.alloc_arr(st, (a.shape[0] + 1, a.shape[1]), _L2(r, c, z3.If(r < a.shape[0], ex.sel2(a, r, c), ex.sel1(b_, c))), "real", "fresh", tag="vstack")


def _mesh_inputs(ex, st):
    st.env["hvsr"] = _az_obj(ex, st)
    st.env["distribution_mc"] = DMC_
    st.env["MP"] = MP
    return [MP >= 1]


_AZREG = {"HvsrAzimuthal.mean_curve_by_azimuth": FuncV(_m_mcba, "mean_curve_by_azimuth"), "HvsrAzimuthal.mean_curve_peak_by_azimuth": FuncV(_m_pkba, "mean_curve_peak_by_azimuth")}
_AZNP = ModV("np", dict(npm.NP.attrs, meshgrid=FuncV(_m_meshgrid, "np.meshgrid"), vstack=FuncV(_m_vstack, "np.vstack")))
_AZG = {"MCBA": lambda d, r, c: z3.Select(z3.Select(MCBA(d), r), c), "AZ": lambda r: z3.If(r == 0, AZP[0], z3.If(r == 1, AZP[1], z3.If(r == 2, AZP[2], z3.RealVal(180)))), "MP": MP,
        "DMC": DMC_}
MESH = Contract(qual=_QP + "_azimuthal_mesh_from_hvsr", params=["hvsr", "distribution_mc"], ghost=_AZG, make_inputs=_mesh_inputs,
                ensures=["forall(r, 0, 4, forall(c, 0, MP, result[0][r, c] == hvsr.frequency[c]))", "forall(r, 0, 4, forall(c, 0, MP, result[1][r, c] == AZ(r)))",
                         "forall(r, 0, 3, forall(c, 0, MP, result[2][r, c] == MCBA(DMC, r, c)))", "forall(c, 0, MP, result[2][3, c] == MCBA(DMC, 0, c))",
                         "result[0].shape[0] == 4 and result[1].shape[0] == 4 and result[2].shape[0] == 4 and result[2].shape[1] == MP"],
                modifies=[], notes="frequency along the columns; the object's azimuths down the rows and a closing row at 180 degrees; row r holds the mean curve of azimuth r for the "
                                   "distribution asked for, the closing row that of the first azimuth")
TASKS.append(FunctionTask(MESH, module_env=dict(_P_ENV, np=_AZNP), registry=_AZREG, label=_QP + "_azimuthal_mesh_from_hvsr[three azimuths]",
                          clauses=["the contour grids are the object's frequencies, azimuths and per-azimuth mean curves, closed at 180 degrees by the first azimuth"]))

# plot_azimuthal_contour_2d: the mesh helper opaque (its contract: above); contourf receives its three grids in its order; one marker line: the per-azimuth peak
# frequencies of the mean curves (for the same distribution) against the object's azimuths; the frequency axis spans the object's first to last frequency.
def _m_mesh_opaque(ex, st, args, kw, node):
    if len(args) != 1 or args[0] is not st.env["hvsr"] or set(kw) != {"distribution_mc"}:
        raise Undecided("_azimuthal_mesh_from_hvsr is called in another way than (hvsr, distribution_mc=...)")
    d = _dc(kw["distribution_mc"])
    return Tup(ex.alloc_arr(st, (z3.IntVal(4), MP), z3.Const(f"mesh_{w}", _A2c(R)) if w != "amp" else MESHAMP(d), "real", "fresh", tag=f"mesh_{w}") for w in ("frq", "azi", "amp"))


MESHAMP = z3.Function("mesh_amplitude", I, _A2c(R))


def _m_ax_record(name):
    return FuncV(lambda ex, st, a, k, n_, _m=name: (st.env.__setitem__("__drawn", Tup(tuple(st.env["__drawn"]) + ((_m, Tup(a[1:]), dict(k)),))), OpaqueV(_m + "()"))[1], name)


def _contour_ok(ex, st, a, k, n_):
    calls = [c for c in st.env["__drawn"] if c[0] in ("contourf", "plot", "fill", "contour", "scatter")]
    if [c[0] for c in calls] != ["contourf", "plot"]:
        return z3.BoolVal(False)
    cf, pl = calls
    if len(cf[1]) != 3 or len(pl[1]) != 2 or not all(isinstance(x, ARef) for x in cf[1]) or not isinstance(pl[1][0], ARef):
        return z3.BoolVal(False)
    g = [ex.arr(st, x) for x in cf[1]]
    px = ex.arr(st, pl[1][0])
    py = pl[1][1]
    same_az = hasattr(py, "sid") and py.sid == st.heap[st.env["hvsr"].oid].fields["azimuths"].sid
    return z3.And(g[0].data == z3.Const("mesh_frq", _A2c(R)), g[1].data == z3.Const("mesh_azi", _A2c(R)), g[2].data == MESHAMP(DMC_), px.data == PKBA_F(DMC_), z3.BoolVal(bool(same_az)))


def _xlim_ok(ex, st, a, k, n_):
    calls = [c for c in st.env["__drawn"] if c[0] == "set_xlim"]
    if len(calls) != 1 or len(calls[0][1]) != 2:
        return z3.BoolVal(False)
    lo, hi = calls[0][1]
    return z3.And(lit(lo) == z3.Select(FRQP, 0), lit(hi) == z3.Select(FRQP, MP - 1))


def _contour_inputs(ex, st):
    st.env["hvsr"] = _az_obj(ex, st)
    st.env["ax"] = sym_obj(ex, st, "Axes", {}, owner="param:ax")
    st.env.update(distribution_mc=DMC_, plot_mean_curve_peak_by_azimuth=z3.BoolVal(True), fig=NONE, subplots_kwargs=NONE, contourf_kwargs=NONE)
    st.env["__drawn"] = Tup(())
    st.env["MP"] = MP
    return [MP >= 1]


_CONT_REG = dict(_AZREG)
for _m in ("contourf", "plot", "set_xscale", "set_xlim", "set_xlabel", "set_ylabel", "set_yticks", "set_ylim", "legend"):
    _CONT_REG[f"Axes.{_m}"] = _m_ax_record(_m)
_CONT_ENV = dict(_P_ENV, np=ModV("np", dict(npm.NP.attrs, max=FuncV(lambda ex, st, a, k, n_: ex.fresh("grid_max", R), "np.max"), arange=FuncV(lambda ex, st, a, k, n_: OpaqueV("ticks"), "np.arange"))),
                 _azimuthal_mesh_from_hvsr=FuncV(_m_mesh_opaque, "_azimuthal_mesh_from_hvsr"), cm=OpaqueV("cm"), plt=OpaqueV("plt"),
                 make_axes_locatable=FuncV(lambda ex, st, a, k, n_: OpaqueV("divider"), "make_axes_locatable"))
_CONT_ENV["DEFAULT_KWARGS"] = DictV(dict(_DEFAULTS.items, peak_mean_hvsr_curve_azimuthal_2d=_kw({"label": "peak_mean_hvsr_curve_azimuthal_2d"})), owner="module")
CONTOUR2D = Contract(qual=_QP + "plot_azimuthal_contour_2d", params=["hvsr", "distribution_mc", "plot_mean_curve_peak_by_azimuth", "fig", "ax", "subplots_kwargs", "contourf_kwargs"],
                     ghost={"contour_ok": FuncV(_contour_ok, "contour_ok"), "xlim_ok": FuncV(_xlim_ok, "xlim_ok")}, make_inputs=_contour_inputs,
                     ensures=["contour_ok()", "xlim_ok()", "result is None"], modifies=["param:ax"],
                     notes="one filled contour of (frequency grid, azimuth grid, amplitude grid for distribution_mc), then one marker line: per-azimuth mean-curve peak frequencies for "
                           "the same distribution against the object's azimuth list; frequency axis from the first to the last frequency; the object is not written")
CONTOUR2D.ghost_state = ("__drawn",)
TASKS.append(FunctionTask(CONTOUR2D, module_env=_CONT_ENV, registry=_CONT_REG, label=_QP + "plot_azimuthal_contour_2d[given axes, peaks on]",
                          clauses=["the azimuthal contour shows the object's per-azimuth mean curves and their peaks for the distribution asked for"]))

# ---------------------------------------------------------------------------------------------------------------------
# plot_seismic_recordings_3c: three axes given, a list of recordings of symbolic length.  Axis a shows component a (north, east, vertical): one line per recording,
# in order, carrying that component's samples divided by one common factor (1 without normalisation), against the recording's own time vector shifted so that the
# recordings follow one another; the line has the accepted style exactly when the mask accepts the recording (all accepted without a mask); the recordings are not
# written.  The loops over recordings by invariant (the two loops over components are unrolled).
from pyvc.objects import SObj as _SObj20
import pyvc.objects as _ob20
LR, LM = z3.Ints("n_recordings n_mask_entries")
RRP = z3.Const("recording_ids", z3.ArraySort(I, I))
MASKP = z3.Const("recordings_mask", z3.ArraySort(I, B))
_COMPS = ("ns", "ew", "vt")
STARTT = z3.Function("start_time_of", I, I, R)        # (component, recording) -> time at which the recording's line starts


def _ts_of(t, c):
    """id of component c (a concrete index) of recording t"""
    return _ob20.fld("SeismicRecording3C", _COMPS[c], I)(z3.Select(RRP, t))


def _tslen(t, c):
    return _ob20.arr_len("TimeSeries", "amplitude", _ts_of(t, c))


def _tsdt(t, c):
    return _ob20.fld("TimeSeries", "dt_in_seconds", R)(_ts_of(t, c))


def _tsamp(t, c, j):
    return _ob20.arr_at("TimeSeries", "amplitude", _ts_of(t, c), j)


def _by_comp(f, c, *a):
    c = lit(c)
    return z3.If(c == 0, f(*a[:1], 0, *a[1:]), z3.If(c == 1, f(*a[:1], 1, *a[1:]), f(*a[:1], 2, *a[1:])))


_tq, _cq = z3.Ints("t!st c!st")
AX_START = [z3.ForAll([_cq], STARTT(_cq, 0) == 0, patterns=[STARTT(_cq, 0)])] + \
           [z3.ForAll([_tq], z3.Implies(_tq >= 0, STARTT(c, _tq + 1) == STARTT(c, _tq) + z3.ToReal(_tslen(_tq, c) - 1) * _tsdt(_tq, c)), patterns=[STARTT(c, _tq + 1)]) for c in range(3)]


def _rec_inputs(normalize, mask):
    def mk(ex, st):
        st.env["srecords"] = new_symlist(ex, st, "SeismicRecording3C", length=LR, arr=RRP, owner="param:srecords", name="srecords")
        st.env["valid_window_boolean_mask"] = NONE if mask == "None" else ex.alloc_arr(st, (LM,), MASKP, "bool", "param:valid_window_boolean_mask", tag="mask")
        axes = [sym_obj(ex, st, "Axes", {"index": z3.IntVal(a)}, owner=f"param:axs[{a}]") for a in range(3)]
        st.env["axs"] = ex.alloc_list(st, axes, owner="param:axs")
        st.env["subplots_kwargs"], st.env["normalize"] = NONE, z3.BoolVal(normalize)
        for a in range(3):
            st.env[f"__y{a}"] = new_symlist(ex, st, None, elem_sort=z3.ArraySort(I, R), owner="fresh", name=f"y{a}")
            # the other attributes of line t of axis a, indexed like the list of y-vectors (one counter per axis)
            st.env[f"__x{a}"] = z3.K(I, z3.K(I, z3.RealVal(0)))
            st.env[f"__n{a}"] = z3.K(I, z3.IntVal(0))
            st.env[f"__v{a}"] = z3.K(I, z3.BoolVal(False))
        t, j = z3.Ints("t!pre j!pre")
        facts = [LR >= 1, LM >= 0] + [z3.ForAll([t], z3.And(_tslen(t, c) >= 1, _tsdt(t, c) > 0), patterns=[_ts_of(t, c)]) for c in range(3)]
        if normalize:
            facts.append(_tsamp(0, 0, 0) != 0)        # precondition of the normalised display: some sample is not zero (here: the first north sample of the first recording)
        return facts
    return mk


def _m_ts_time(ex, st, args, kw, node):
    o = args[0]
    n, dt_ = _ob20.arr_len("TimeSeries", "amplitude", o.id), _ob20.fld("TimeSeries", "dt_in_seconds", R)(o.id)
    return ex.alloc_arr(st, (n,), ex.lam1(lambda i: z3.ToReal(i) * dt_), "real", "fresh", tag="time")


def _m_rec_plot(ex, st, args, kw, node):
    ax, x, y = args[0], args[1], args[2]
    a = z3.simplify(st.heap[ax.oid].fields["index"]).as_long()
    dx, dy = ex.arr(st, x), ex.arr(st, y)
    style = kw.get("style")
    if type(style) is not StrV:
        raise Undecided("the line style handed to ax.plot is not one of the two default styles")
    pos = st.heap[st.env[f"__y{a}"].sid].length
    st.env[f"__x{a}"] = z3.Store(st.env[f"__x{a}"], pos, dx.data)
    st.env[f"__n{a}"] = z3.Store(st.env[f"__n{a}"], pos, dy.shape[0])
    st.env[f"__v{a}"] = z3.Store(st.env[f"__v{a}"], pos, z3.BoolVal(style.s == "individual_valid_hvsr_curve"))
    _o20.symlist_append(ex, st, st.env[f"__y{a}"], y, node)
    return NONE


def _rec_sel(kind):
    def f(ex, st, a, k, n_):
        ax, t = lit(a[0]), lit(a[1])
        arrs = [st.heap[st.env[f"__{kind}{i}"].sid].arr if kind == "y" else st.env[f"__{kind}{i}"] for i in range(3)]
        v = z3.If(ax == 0, z3.Select(arrs[0], t), z3.If(ax == 1, z3.Select(arrs[1], t), z3.Select(arrs[2], t)))
        return z3.Select(v, lit(a[2])) if len(a) > 2 else v
    return FuncV(f, kind.upper())


def _rec_count(ex, st, a, k, n_):
    ax = lit(a[0])
    ls = [st.heap[st.env[f"__y{i}"].sid].length for i in range(3)]
    return z3.If(ax == 0, ls[0], z3.If(ax == 1, ls[1], ls[2]))


_REC_STYLES = DictV({k: DictV({"label": StrV(k), "style": StrV(k)}, owner="module") for k in ("individual_valid_hvsr_curve", "individual_invalid_hvsr_curve")}, owner="module")
_REC_G = {"LINEY": _rec_sel("y"), "LINEX": _rec_sel("x"), "NPTS": _rec_sel("n"), "ACCEPTED_STYLE": _rec_sel("v"), "n_lines": FuncV(_rec_count, "n_lines"), "L": LR,
          "AMP": FuncV(lambda ex, st, a, k, n_: _by_comp(lambda t, c, j: _tsamp(t, c, j), a[1], lit(a[0]), lit(a[2])), "AMP"),
          "LEN": FuncV(lambda ex, st, a, k, n_: _by_comp(lambda t, c: _tslen(t, c), a[1], lit(a[0])), "LEN"),
          "DT": FuncV(lambda ex, st, a, k, n_: _by_comp(lambda t, c: _tsdt(t, c), a[1], lit(a[0])), "DT"),
          "START": lambda c, t: STARTT(c, t),
          "NORM": FuncV(lambda ex, st, a, k, n_: npm.real(st.env["normalization_factor"]), "NORM"),
          "CI": FuncV(lambda ex, st, a, k, n_: z3.IntVal(_COMPS.index(st.env["component"].s)), "CI"),
          "AXI": FuncV(lambda ex, st, a, k, n_: st.heap[st.env["ax"].oid].fields["index"], "AXI"),
          "MASK": None}


def _axis_done(a, upto="L"):
    return (f"n_lines({a}) == {upto} and forall(t, 0, {upto}, NPTS({a}, t) == LEN(t, {a}) and ACCEPTED_STYLE({a}, t) == MASK(t) and "
            f"forall(j, 0, LEN(t, {a}), LINEY({a}, t, j) * NORM() == AMP(t, {a}, j) and LINEX({a}, t, j) == j * DT(t, {a}) + START({a}, t)))")


for _norm in (True, False):
    for _mask in ("None", "given"):
        _g = dict(_REC_G, MASK=(lambda t: z3.BoolVal(True)) if _mask == "None" else (lambda t: z3.Select(MASKP, t)), LM=LM)
        _inv_norm = ["normalization_factor >= 0", "implies(CI() > 0 or _k1 > 0, normalization_factor > 0)"]
        _inv_main = ["n_lines(AXI()) == _k3 and AXI() == CI() and start_time == START(CI(), _k3) and NORM() != 0 and (_k3 == 0 or len(time) >= 1)",
                     "forall(t, 0, _k3, NPTS(AXI(), t) == LEN(t, CI()) and ACCEPTED_STYLE(AXI(), t) == MASK(t))",
                     "forall(t, 0, _k3, forall(j, 0, LEN(t, CI()), LINEY(AXI(), t, j) * NORM() == AMP(t, CI(), j) and LINEX(AXI(), t, j) == j * DT(t, CI()) + START(CI(), t)))",
                     ]
        _c = Contract(qual=_QP + "plot_seismic_recordings_3c", params=["srecords", "valid_window_boolean_mask", "axs", "subplots_kwargs", "normalize"], ghost=_g, axioms=AX_START,
                      make_inputs=_rec_inputs(_norm, _mask), loops=({1: _inv_norm, 3: _inv_main} if _norm else {3: _inv_main}),
                      raises=({"ValueError": "LM != L"} if _mask == "given" else {}),
                      ensures=["forall(a, 0, 3, " + _axis_done("a") + ")", "result is axs"] + ([] if _norm else ["NORM() == 1"]),
                      modifies=["param:axs[0]", "param:axs[1]", "param:axs[2]"],
                      notes="axis a shows component a of every recording, in order, one line each: the samples divided by one common factor (1 without normalisation), the "
                            "recordings following one another in time, accepted style exactly for the recordings the mask accepts; the recordings are not written")
        # the recorders a loop over the recordings can write are those of the axis that is current when the loop is entered (none in the normalisation loop)
        _c.ghost_state = lambda ex, st, node: ([f"__{k}{z3.simplify(st.heap[st.env['ax'].oid].fields['index']).as_long()}" for k in "yxnv"] if "ax" in st.env else [])
        _c.obj_havoc = {"default_kwargs": lambda ex, st, v: v}
        _c.loop_born = {"time": lambda ex, st, _v: ex.alloc_arr(st, (ex.fresh("n_time", I),), ex.fresh("time", z3.ArraySort(I, R)), "real", "fresh", tag="time")}
        TASKS.append(FunctionTask(_c, module_env=dict(_P_ENV, DEFAULT_KWARGS=_REC_STYLES, SeismicRecording3C=ClsV("SeismicRecording3C"), plt=OpaqueV("plt")),
                                  registry={"TimeSeries.time": FuncV(_m_ts_time, "TimeSeries.time"), "Axes.plot": FuncV(_m_rec_plot, "plot"),
                                            **{f"Axes.{m}": FuncV(lambda ex, st, a, k, n_: NONE, m) for m in ("set_title", "set_ylabel", "set_xlim", "set_xlabel", "set_ylim")}},
                                  label=f"{_QP}plot_seismic_recordings_3c[normalize={_norm},mask={_mask}]",
                                  clauses=["recordings are drawn component by component, in order, accepted or rejected style by the mask; the recordings are not written"]))

# ---------------------------------------------------------------------------------------------------------------------
# summarize_spatial_statistics: the table of the Monte-Carlo spatial statistics (C14).  Row fn: the mean (lognormal: the exponentiated median), the standard
# deviation, the -1 / +1 standard-deviation values; row Tn (lognormal only): the reciprocals with the same log-standard deviation; anything else refused.
from pyvc.npmodel import EXP as _EXP20, LOG as _LOG20
SPM, SPS = z3.Real("spatial_mean"), z3.Real("spatial_stddev")


def _sp_inputs20(dist):
    def mk(ex, st):
        st.env.update(spatial_mean=SPM, spatial_stddev=SPS, spatial_distribution=StrV(dist))
        st.env["__table"] = NONE
        return [SPM > 0]
    return mk


_SPG = {"CELL": FuncV(_cell, "CELL"), "exp": _EXP20, "log": _LOG20, "isnan": lambda x: x == npm.NAN, "no_table": FuncV(lambda ex, st, a, k, n_: z3.BoolVal(st.env["__table"] is NONE), "no_table")}
_SP_ENV = dict(_P_ENV, pd=_PD, display=FuncV(lambda ex, st, a, k, n_: NONE, "display"))
for _d, _ens, _rai in (
        ("lognormal", ["CELL(0, 0) == spatial_mean and CELL(0, 1) == spatial_stddev", "CELL(0, 2) == exp(log(spatial_mean) - spatial_stddev) and CELL(0, 3) == exp(log(spatial_mean) + spatial_stddev)",
                       "CELL(1, 0) == 1 / spatial_mean and CELL(1, 1) == spatial_stddev",
                       "CELL(1, 2) == 1 / exp(log(spatial_mean) - spatial_stddev) and CELL(1, 3) == 1 / exp(log(spatial_mean) + spatial_stddev)"], {}),
        ("normal", ["CELL(0, 0) == spatial_mean and CELL(0, 1) == spatial_stddev", "CELL(0, 2) == spatial_mean - spatial_stddev and CELL(0, 3) == spatial_mean + spatial_stddev",
                    "isnan(CELL(1, 0)) and isnan(CELL(1, 1)) and isnan(CELL(1, 2)) and isnan(CELL(1, 3))"], {}),
        ("uniform", [], {"ValueError": "True"})):
    _c = Contract(qual=_QP + "summarize_spatial_statistics", params=["spatial_mean", "spatial_stddev", "spatial_distribution"], ghost=_SPG, make_inputs=_sp_inputs20(_d),
                  axioms=npm.ax_logexp(),
                  ensures=_ens, raises=_rai, modifies=[],
                  notes="the table shows the statistics handed in: mean / standard deviation / -1 / +1 values in the requested space, the period row the reciprocals (lognormal)")
    _c.ghost_state = ("__table",)
    TASKS.append(FunctionTask(_c, module_env=_SP_ENV, label=f"{_QP}summarize_spatial_statistics[{_d}]", clauses=["the spatial summary table lists the statistics it is given"]))

# ---------------------------------------------------------------------------------------------------------------------
# plot_azimuthal_contour_3d (given axes, peaks on): the surface is drawn over (log10 of the frequency grid, the azimuth grid, the amplitude grid) of the mesh helper for
# distribution_mc; the markers are the per-azimuth mean-curve peaks of the same distribution, closed at 180 degrees by the first azimuth's peak: x = log10 of the peak
# frequencies, y = the object's azimuths and 180, z = 1.05 x the peak amplitudes.
from pyvc.npmodel import LOG10 as _LOG10c


def _m_log10(ex, st, args, kw, node):
    v = args[0]
    if isinstance(v, (Tup, tuple)):
        return Tup(_LOG10c(npm.real(x)) for x in v)
    if isinstance(v, ARef) and ex.arr(st, v).rank == 2:
        d = ex.arr(st, v)
        r, c = z3.Ints("r!lg c!lg")
        from pyvc.core import L2 as _L2
        return ex.alloc_arr(st, d.shape, _L2(r, c, _LOG10c(ex.sel2(d, r, c))), "real", "fresh", tag="log10")
    return npm.NP.attrs["log10"].fn(ex, st, args, kw, node)


def _surface_ok(ex, st, a, k, n_):
    calls = [c for c in st.env["__drawn"] if c[0] in ("plot_surface", "scatter", "plot", "contourf")]
    if [c[0] for c in calls] != ["plot_surface", "scatter"]:
        return z3.BoolVal(False)
    sf, sc = calls
    if len(sf[1]) != 3 or len(sc[1]) != 3 or not all(isinstance(x, ARef) for x in list(sf[1]) + list(sc[1])):
        return z3.BoolVal(False)
    gx, gy, gz = (ex.arr(st, x) for x in sf[1])
    px, py, pz = (ex.arr(st, x) for x in sc[1])
    r, c = z3.Ints("r!sf c!sf")
    frq, azi = z3.Const("mesh_frq", _A2c(R)), z3.Const("mesh_azi", _A2c(R))
    j = z3.Int("j!sc")
    pk_f, pk_a = PKBA_F(DMC_), PKBA_A(DMC_)
    az = lambda t: z3.If(t == 0, AZP[0], z3.If(t == 1, AZP[1], z3.If(t == 2, AZP[2], z3.RealVal(180))))
    wrap = lambda arr, t: z3.Select(arr, z3.If(t == 3, 0, t))
    return z3.And(
        z3.ForAll([r, c], z3.Implies(z3.And(r >= 0, r < 4, c >= 0, c < MP), z3.And(ex.sel2(gx, r, c) == _LOG10c(z3.Select(z3.Select(frq, r), c)), ex.sel2(gy, r, c) == z3.Select(z3.Select(azi, r), c),
                                                                                   ex.sel2(gz, r, c) == z3.Select(z3.Select(MESHAMP(DMC_), r), c)))),
        px.shape[0] == 4, py.shape[0] == 4, pz.shape[0] == 4,
        z3.ForAll([j], z3.Implies(z3.And(j >= 0, j < 4), z3.And(ex.sel1(px, j) == _LOG10c(wrap(pk_f, j)), ex.sel1(py, j) == az(j), ex.sel1(pz, j) == wrap(pk_a, j) * z3.RealVal("1.05")))))


def _c3d_inputs(ex, st):
    st.env["hvsr"] = _az_obj(ex, st)
    st.env["ax"] = sym_obj(ex, st, "Axes", {"xaxis": OpaqueV("xaxis"), "yaxis": OpaqueV("yaxis"), "zaxis": OpaqueV("zaxis")}, owner="param:ax")
    st.env.update(distribution_mc=DMC_, plot_mean_curve_peak_by_azimuth=z3.BoolVal(True), camera_elevation=z3.RealVal(35), camera_azimuth=z3.RealVal(250), camera_distance=z3.RealVal(13))
    st.env["__drawn"] = Tup(())
    st.env["MP"] = MP
    return [MP >= 1]


_C3D_REG = dict(_AZREG)
for _m in ("plot_surface", "scatter", "set_xticks", "set_xticklabels", "set_xlim", "view_init", "set_yticks", "set_ylim", "set_xlabel", "set_ylabel", "set_zlabel", "legend"):
    _C3D_REG[f"Axes.{_m}"] = _m_ax_record(_m)
_C3D_ENV = dict(_CONT_ENV, np=ModV("np", dict(npm.NP.attrs, log10=FuncV(_m_log10, "np.log10"), arange=FuncV(lambda ex, st, a, k, n_: OpaqueV("ticks"), "np.arange"))), str=FuncV(lambda ex, st, a, k, n_: StrV("<str>"), "str"))
_C3D_ENV["DEFAULT_KWARGS"] = DictV(dict(_DEFAULTS.items, peak_mean_hvsr_curve_azimuthal_3d=_kw({"label": "peak_mean_hvsr_curve_azimuthal_3d"})), owner="module")
CONTOUR3D = Contract(qual=_QP + "plot_azimuthal_contour_3d", params=["hvsr", "distribution_mc", "ax", "plot_mean_curve_peak_by_azimuth", "camera_elevation", "camera_azimuth", "camera_distance"],
                     ghost={"surface_ok": FuncV(_surface_ok, "surface_ok")}, make_inputs=_c3d_inputs, ensures=["surface_ok()", "result is None"], modifies=["param:ax"],
                     notes="one surface over the three grids of the mesh helper (frequency in log10), one scatter of the per-azimuth peaks for the same distribution, closed at 180 degrees "
                           "by the first azimuth's peak, amplitudes lifted by 5 %; the object is not written")
CONTOUR3D.ghost_state = ("__drawn",)
TASKS.append(FunctionTask(CONTOUR3D, module_env=_C3D_ENV, registry=_C3D_REG, label=_QP + "plot_azimuthal_contour_3d[given axes, peaks on]",
                          clauses=["the azimuthal surface shows the object's per-azimuth mean curves and their peaks for the distribution asked for"]))

# ---------------------------------------------------------------------------------------------------------------------
# plot_azimuthal_summary (every optional part switched on): three panels on three axes of one figure - the 3-D surface, the 2-D contour, the single panel of curves -
# each for the caller's object, the contours and the curves for distribution_mc, the fn band of the single panel for distribution_fn; then the mean-curve peak once
# more on the third panel for distribution_mc.  The four plotting functions are opaque here (their contracts: above).
_SUM_FUNCS = ("plot_azimuthal_contour_3d", "plot_azimuthal_contour_2d", "plot_single_panel_hvsr_curves", "_plot_peak_mean_hvsr_curve")


def _m_figure(ex, st, args, kw, node):
    def add_subplot(e2, s2, a2, k2, n2):
        n = len(s2.env["__axes"])
        ax = e2.alloc_obj(s2, "Axes", {"index": z3.IntVal(n)}, "fresh")
        s2.env["__axes"] = s2.env["__axes"] + [ax]
        return ax
    gs = ModV("gridspec", {"__getitem__": FuncV(lambda e2, s2, a2, k2, n2: OpaqueV("gridspec cell"), "gridspec[...]")})
    return ModV("figure", {"add_gridspec": FuncV(lambda e2, s2, a2, k2, n2: gs, "add_gridspec"), "add_subplot": FuncV(add_subplot, "add_subplot"),
                           "subplots_adjust": FuncV(lambda e2, s2, a2, k2, n2: NONE, "subplots_adjust"), "text": FuncV(lambda e2, s2, a2, k2, n2: OpaqueV("text"), "text")})


def _sum_inputs(ex, st):
    st.env["hvsr"] = _az_obj(ex, st)
    on = z3.BoolVal(True)
    st.env.update(distribution_mc=DMC_, distribution_fn=DFN_, plot_mean_curve_peak_by_azimuth=on, plot_valid_curves=on, plot_invalid_curves=on, plot_mean_curve=on,
                  plot_frequency_std=on, plot_peak_mean_curve=on, plot_peak_individual_valid_curves=on, plot_peak_individual_invalid_curves=on)
    st.env["__drawn"], st.env["__axes"] = Tup(()), []
    return []


def _summary_ok(ex, st, a, k, n_):
    calls = [c for c in st.env["__drawn"] if c[0] in _SUM_FUNCS]
    axes = st.env["__axes"]
    if [c[0] for c in calls] != list(_SUM_FUNCS) or len(axes) != 3:
        return z3.BoolVal(False)
    conj = []
    for c, ax_i, dist_kw in zip(calls, (0, 1, 2, 2), ("distribution_mc", "distribution_mc", "distribution_mc", "distribution")):
        args_, kw_ = c[1], c[2]
        hv = kw_.get("hvsr", args_[0] if args_ else None)
        if hv is not st.env["hvsr"] or not isinstance(kw_.get("ax"), ORef) or kw_["ax"].oid != axes[ax_i].oid or dist_kw not in kw_:
            return z3.BoolVal(False)
        conj.append(lit(kw_[dist_kw]) == DMC_)
    panel = calls[2][2]
    if "distribution_fn" not in panel:
        return z3.BoolVal(False)
    conj.append(lit(panel["distribution_fn"]) == DFN_)
    for flag in ("plot_valid_curves", "plot_invalid_curves", "plot_mean_curve", "plot_frequency_std", "plot_peak_individual_valid_curves", "plot_peak_individual_invalid_curves"):
        if flag not in panel:
            return z3.BoolVal(False)
        conj.append(lit(panel[flag]) == z3.BoolVal(True))
    return z3.And(*conj)


_AX_SUM = {f"Axes.{m}": FuncV(lambda ex, st, a, k, n_: OpaqueV("axes call"), m) for m in ("set_xlabel", "set_xticks", "get_legend", "legend")}
SUMMARY = Contract(qual=_QP + "plot_azimuthal_summary",
                   params=["hvsr", "distribution_mc", "distribution_fn", "plot_mean_curve_peak_by_azimuth", "plot_valid_curves", "plot_invalid_curves", "plot_mean_curve", "plot_frequency_std",
                           "plot_peak_mean_curve", "plot_peak_individual_valid_curves", "plot_peak_individual_invalid_curves"],
                   ghost={"summary_ok": FuncV(_summary_ok, "summary_ok")}, make_inputs=_sum_inputs, ensures=["summary_ok()"], modifies=[],
                   notes="3-D surface on the first axes, 2-D contour on the second, curves on the third: each for the caller's object and distribution_mc, the fn band for distribution_fn, "
                         "every switched-on part forwarded; the mean-curve peak once more on the third axes for distribution_mc")
SUMMARY.ghost_state = ("__drawn", "__axes")
TASKS.append(FunctionTask(SUMMARY, module_env=dict(_P_ENV, plt=ModV("plt", {"figure": FuncV(_m_figure, "plt.figure")}), **{h: _helper_model(h) for h in _SUM_FUNCS}), registry=_AX_SUM,
                          label=_QP + "plot_azimuthal_summary[all parts]", clauses=["the summary figure draws every panel for the caller's object and the distribution option that belongs to it"]))

# ---------------------------------------------------------------------------------------------------------------------
# plot_voronoi (given axes): cell i is filled with the outline of tessellation cell i and the colour of sensor i's own value (the colour scale spans the smallest
# to the largest value); the sensors are drawn at their coordinates; the boundary is drawn closed (its first point repeated); the inputs are not written.
NCELL = z3.Int("n_cells")
FNV = z3.Const("valid_mean_fn", ARp)
CELLX = z3.Function("cell_outline", I, I, I, R)        # (cell, vertex, 0 x / 1 y)
CELLN = z3.Function("cell_n_vertices", I, I)
COLOUR = z3.Function("colour_of", R, R, R, I)           # (vmin, vmax, value) -> colour id
SX = z3.Const("sensor_coordinates", _A2c(R))
BXY2 = z3.Const("boundary_rows", _A2c(R))
NSENS, NBND = z3.Ints("n_sensors n_boundary_rows")


def _vor_inputs(ex, st):
    from pyvc.core import SeqV, L2 as _L2
    st.env["valid_sensor_coordinates"] = ex.alloc_arr(st, (NSENS, z3.IntVal(2)), SX, "real", "param:valid_sensor_coordinates", tag="sensors")
    st.env["valid_mean_fn"] = ex.alloc_arr(st, (NCELL,), FNV, "real", "param:valid_mean_fn", tag="fn")

    def cell(ex_, st_, i):
        v, c = z3.Ints("v!cell c!cell")
        return ex_.alloc_arr(st_, (CELLN(i), z3.IntVal(2)), _L2(v, c, CELLX(i, v, c)), "real", "param:tesselation_vertices", tag="cell")
    st.env["tesselation_vertices"] = SeqV(NCELL, cell, owner="param:tesselation_vertices", name="cells")
    st.env["boundary"] = ex.alloc_arr(st, (NBND, z3.IntVal(2)), BXY2, "real", "param:boundary", tag="boundary")
    st.env["ax"] = sym_obj(ex, st, "Axes", {}, owner="param:ax")
    st.env["fig_kwargs"] = NONE
    st.env["__fx"] = new_symlist(ex, st, None, elem_sort=z3.ArraySort(I, R), owner="fresh", name="fill_x")
    st.env["__fy"], st.env["__fc"], st.env["__fn"] = z3.K(I, z3.K(I, z3.RealVal(0))), z3.K(I, z3.IntVal(-1)), z3.K(I, z3.IntVal(0))
    st.env["__drawn"] = Tup(())
    k = z3.Int("k!cn")
    return [NCELL >= 1, NSENS >= 0, NBND >= 1, z3.ForAll([k], CELLN(k) >= 0, patterns=[CELLN(k)])]


def _m_fill(ex, st, args, kw, node):
    x, y = ex.arr(st, args[1]), ex.arr(st, args[2])
    pos = st.heap[st.env["__fx"].sid].length
    st.env["__fy"] = z3.Store(st.env["__fy"], pos, y.data)
    st.env["__fn"] = z3.Store(st.env["__fn"], pos, x.shape[0])
    col = kw.get("facecolor")
    st.env["__fc"] = z3.Store(st.env["__fc"], pos, lit(col) if z3.is_expr(lit(col)) and z3.is_int(lit(col)) else z3.IntVal(-2))
    _o20.symlist_append(ex, st, st.env["__fx"], args[1], node)
    return NONE


_VMIN, _VMAX = z3.Reals("fn_min fn_max")


def _m_normalize(ex, st, args, kw, node):
    lo, hi = npm.real(kw["vmin"]), npm.real(kw["vmax"])
    return FuncV(lambda e2, s2, a2, k2, n2: ModV("normed", {"__norm": (lo, hi, npm.real(a2[0]))}), "norm")


def _m_cmap(ex, st, args, kw, node):
    lo, hi, v = args[0].attrs["__norm"]
    return ModV("rgba", {"__getitem__": FuncV(lambda e2, s2, a2, k2, n2: ModV("rgb", {"__colour": COLOUR(lo, hi, v)}), "rgba[...]")})


def _voronoi_ok(ex, st, a, k, n_):
    fx = st.heap[st.env["__fx"].sid]
    i, v = z3.Ints("i!vo v!vo")
    calls = [c for c in st.env["__drawn"] if c[0] == "plot"]
    if len(calls) != 2 or not all(isinstance(x, ARef) for c in calls for x in c[1][:2]):
        return z3.BoolVal(False)
    (sx, sy), (bx, by) = [tuple(ex.arr(st, x) for x in c[1][:2]) for c in calls]
    vmin, vmax = st.env["__minmax"]
    cells = z3.ForAll([i], z3.Implies(z3.And(i >= 0, i < NCELL), z3.And(
        z3.Select(st.env["__fn"], i) == CELLN(i), z3.Select(st.env["__fc"], i) == COLOUR(vmin, vmax, z3.Select(FNV, i)),
        z3.ForAll([v], z3.Implies(z3.And(v >= 0, v < CELLN(i)), z3.And(z3.Select(z3.Select(fx.arr, i), v) == CELLX(i, v, 0), z3.Select(z3.Select(st.env["__fy"], i), v) == CELLX(i, v, 1)))))))
    sensors = z3.And(sx.shape[0] == NSENS, z3.ForAll([v], z3.Implies(z3.And(v >= 0, v < NSENS), z3.And(ex.sel1(sx, v) == z3.Select(z3.Select(SX, v), 0), ex.sel1(sy, v) == z3.Select(z3.Select(SX, v), 1)))))
    closed = z3.And(bx.shape[0] == NBND + 1, z3.ForAll([v], z3.Implies(z3.And(v >= 0, v <= NBND), z3.And(
        ex.sel1(bx, v) == z3.Select(z3.Select(BXY2, z3.If(v == NBND, 0, v)), 0), ex.sel1(by, v) == z3.Select(z3.Select(BXY2, z3.If(v == NBND, 0, v)), 1)))))
    return z3.And(fx.length == NCELL, cells, sensors, closed)


def _m_minmax(which):
    def f(ex, st, args, kw, node):
        r = npm.NP.attrs[which].fn(ex, st, args, kw, node)
        mm = list(st.env.get("__minmax", (None, None)))
        mm[0 if which == "min" else 1] = r
        st.env["__minmax"] = tuple(mm)
        return r
    return FuncV(f, "np." + which)


_VOR_REG = {"Axes.fill": FuncV(_m_fill, "fill")}
for _m in ("plot", "set_xlabel", "set_ylabel", "legend"):
    _VOR_REG[f"Axes.{_m}"] = _m_ax_record(_m)
_VOR_ENV = dict(_P_ENV, np=ModV("np", dict(npm.NP.attrs, vstack=FuncV(lambda ex, st, a, k, n_: _m_vstack2(ex, st, a, k, n_), "np.vstack"), min=_m_minmax("min"), max=_m_minmax("max"))),
                make_axes_locatable=FuncV(lambda ex, st, a, k, n_: OpaqueV("divider"), "make_axes_locatable"),
                cm=ModV("cm", {"colors": ModV("colors", {"Normalize": FuncV(_m_normalize, "Normalize")}), "autumn": FuncV(_m_cmap, "cm.autumn")}),
                mpl=ModV("mpl", {"colorbar": OpaqueV("colorbar"), "colors": ModV("colors", {"rgb2hex": FuncV(lambda ex, st, a, k, n_: a[0].attrs["__colour"], "rgb2hex")})}), plt=OpaqueV("plt"))


def _m_vstack2(ex, st, args, kw, node):
    """np.vstack((table, row)): the table with the row appended (2-D, 1-D)"""
    parts = args[0]
    a, b_ = ex.arr(st, parts[0]), ex.arr(st, parts[1])
    if a.rank != 2 or b_.rank != 1:
        raise Undecided("np.vstack of something other than (table, row)")
    r, c = z3.Ints("r!v2 c!v2")
    from pyvc.core import L2 as _L2
    return ex.alloc_arr(st, (a.shape[0] + 1, a.shape[1]), _L2(r, c, z3.If(r < a.shape[0], ex.sel2(a, r, c), ex.sel1(b_, c))), "real", "fresh", tag="vstack")


VORONOI = Contract(qual=_QP + "plot_voronoi", params=["valid_sensor_coordinates", "valid_mean_fn", "tesselation_vertices", "boundary", "ax", "fig_kwargs"],
                   ghost={"voronoi_ok": FuncV(_voronoi_ok, "voronoi_ok"), "n_fills": FuncV(lambda ex, st, a, k, n_: st.heap[st.env["__fx"].sid].length, "n_fills"), "NCELL": NCELL,
                          "CELLX": CELLX, "CELLN": CELLN, "FN": lambda i: z3.Select(FNV, i),
                          "FILLX": FuncV(lambda ex, st, a, k, n_: z3.Select(z3.Select(st.heap[st.env["__fx"].sid].arr, lit(a[0])), lit(a[1])), "FILLX"),
                          "FILLY": FuncV(lambda ex, st, a, k, n_: z3.Select(z3.Select(st.env["__fy"], lit(a[0])), lit(a[1])), "FILLY"),
                          "FILLN": FuncV(lambda ex, st, a, k, n_: z3.Select(st.env["__fn"], lit(a[0])), "FILLN"),
                          "FILLC": FuncV(lambda ex, st, a, k, n_: z3.Select(st.env["__fc"], lit(a[0])), "FILLC"),
                          "COL": FuncV(lambda ex, st, a, k, n_: COLOUR(st.env["__minmax"][0], st.env["__minmax"][1], lit(a[0])), "COL")},
                   make_inputs=_vor_inputs, ensures=["voronoi_ok()", "result is None"], modifies=["param:ax"],
                   loops={0: ["n_fills() == _k0", "forall(i, 0, _k0, FILLN(i) == CELLN(i) and FILLC(i) == COL(FN(i)) and forall(v, 0, CELLN(i), FILLX(i, v) == CELLX(i, v, 0) and FILLY(i, v) == CELLX(i, v, 1)))"]},
                   notes="one filled polygon per tessellation cell, in order: the cell's own outline, coloured by the value of the sensor with the same index on a scale from the smallest "
                         "to the largest value; sensors at their coordinates; the boundary closed by repeating its first point")
VORONOI.ghost_state = ("__fx", "__fy", "__fc", "__fn")
TASKS.append(FunctionTask(VORONOI, module_env=_VOR_ENV, registry=_VOR_REG, label=_QP + "plot_voronoi[given axes]",
                          clauses=["the spatial map fills every cell with its own outline and its own sensor's value"]))

META = dict(
    level="other",
    explanation="frame obligations: the 14 plotting / summary functions write nothing reachable from the HVSR object, the recordings or their keyword-argument "
                "dictionaries; DEFAULT_KWARGS entries are copied before the helpers mutate them; no module-level state; plot_pre_and_post_rejection saves "
                "copies of both masks and restores each from its own copy in a finally block; routing: each helper draws the named statistic from the mask "
                "of its own kind and every option guards exactly its helper with distribution_mc / distribution_fn as stated; bounded: the rendered artists "
                "(Agg) and the summary table compared with the object's state, deep snapshots around every public function, the raising configuration",
    trusted_base=["matplotlib / pandas / IPython (external; drawing calls do not modify the arrays handed to them)", "the alias analysis' tables", "the AST pattern matcher"],
    assumptions=["A-MPL", "scalar-hints"],
)
