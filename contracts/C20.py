"""C20 - plots and summary tables are read-only and show the object's state (postprocessing.py).

Frame obligations (pyvc/frames.py): no plotting / summary function writes storage reachable from the HVSR object or the recordings;
plot_pre_and_post_rejection is the one writer and restores both masks from their own saved copies in a `finally`.  Routing obligations
(structural): every helper draws the statistic the statement names, from the mask of its own kind.  That matplotlib renders those calls
as lines carrying the data is evaluated natively (Agg back end, bounded/C20.py).
"""
import ast

from pyvc import frames
from pyvc.contract import StructTask

READ_ONLY = ["_plot_individual_hvsr_curves", "_plot_peak_individual_hvsr_curve", "_plot_peak_mean_hvsr_curve", "_plot_mean_hvsr_curve", "_plot_nth_std_hvsr_curve",
             "_plot_nth_std_frequency_range", "_plot_resonance_pdf", "plot_single_panel_hvsr_curves", "plot_seismic_recordings_3c", "summarize_hvsr_statistics",
             "_azimuthal_mesh_from_hvsr", "plot_azimuthal_contour_2d", "plot_azimuthal_contour_3d", "plot_azimuthal_summary"]
SCALARS = ["start_time", "normalization_factor", "idx", "i", "n", "y_max", "f_min", "f_max"]


def frame_check(loader):
    out = frames.frame_obligations("hvsrpy.postprocessing", READ_ONLY, ["hvsr", "srecords", "valid_window_boolean_mask", "plot_kwargs", "fill_kwargs"], scalars=SCALARS)
    out += frames.module_state_obligations("hvsrpy.postprocessing")
    # the helpers mutate plot_kwargs["label"]: it must be a fresh copy of the module-level defaults
    src, tree = loader.load_module("hvsrpy.postprocessing")
    for fn in [n for n in tree.body if isinstance(n, ast.FunctionDef) and n.name.startswith("_plot")]:
        for st in ast.walk(fn):
            if isinstance(st, ast.Assign) and ast.unparse(st.targets[0]) == "default_kwargs":
                ok = ast.unparse(st.value).replace("\n", "").replace(" ", "").endswith(".copy()")
                out.append((f"{fn.name}: DEFAULT_KWARGS entry is copied before use", ok, ast.unparse(st.value)[:80]))
    return out


def pre_post(loader):
    fn, _ = loader.find("hvsrpy.postprocessing.plot_pre_and_post_rejection")
    out = []
    saves = {ast.unparse(s.targets[0]): ast.unparse(s.value) for s in ast.walk(fn) if isinstance(s, ast.Assign) and ast.unparse(s.targets[0]).startswith("store_")}
    out.append(("saves a copy of the window mask", saves.get("store_valid_window_boolean_mask") == "np.array(hvsr.valid_window_boolean_mask)", str(saves)))
    out.append(("saves a copy of the peak mask", saves.get("store_valid_peak_boolean_mask") == "np.array(hvsr.valid_peak_boolean_mask)", str(saves)))
    tries = [t for t in ast.walk(fn) if isinstance(t, ast.Try) and t.finalbody]
    restored = {}
    for t in tries:
        for s in t.finalbody:
            if isinstance(s, ast.Assign):
                restored[ast.unparse(s.targets[0])] = ast.unparse(s.value)
    out.append(("restores the window mask from its saved copy in a finally block (normal and exceptional exit)",
                restored.get("hvsr.valid_window_boolean_mask") == "store_valid_window_boolean_mask", str(restored)))
    out.append(("restores the peak mask from its saved copy in a finally block", restored.get("hvsr.valid_peak_boolean_mask") == "store_valid_peak_boolean_mask", str(restored)))
    # every temporary mask change happens inside/before that try and nothing writes the masks afterwards
    writes = [(s.lineno, ast.unparse(s.targets[0])) for s in ast.walk(fn) if isinstance(s, ast.Assign) and ast.unparse(s.targets[0]).startswith("hvsr.valid_")]
    last_finally = max([s.lineno for t in tries for s in t.finalbody] + [0])
    out.append(("no mask write after the restoring finally block", all(ln <= last_finally for ln, _ in writes), str(writes)))
    return out


def routing(loader):
    """each helper draws what the statement names, from the right mask, with the right sign"""
    import re

    class N(str):
        """source text compared modulo white space and redundant parentheses (robust against formatting / unparse versions)"""
        def __contains__(self, other):
            return str.__contains__(re.sub(r"[\s()]", "", str(self)), re.sub(r"[\s()]", "", other))

    def src(name):
        fn, _ = loader.find("hvsrpy.postprocessing." + name)
        return N(ast.unparse(fn))
    out = []
    s = src("_plot_individual_hvsr_curves")
    out.append(("individual curves: accepted = valid_window mask, rejected = its complement", "to_plot = hvsr.valid_window_boolean_mask if valid else ~hvsr.valid_window_boolean_mask" in s
                and "for amplitude in hvsr.amplitude[to_plot]:" in s and "ax.plot(hvsr.frequency, amplitude, **plot_kwargs)" in s, ""))
    s = src("_plot_peak_individual_hvsr_curve")
    out.append(("individual peaks: accepted = valid_peak mask, rejected = its complement; frequency and amplitude from the same selection",
                "to_plot = hvsr.valid_peak_boolean_mask if valid else ~hvsr.valid_peak_boolean_mask" in s and
                "(frequency, amplitude) = (hvsr._main_peak_frq[to_plot], hvsr._main_peak_amp[to_plot])" in s, ""))
    s = src("_plot_mean_hvsr_curve")
    out.append(("mean curve = hvsr.mean_curve(distribution)", "ax.plot(hvsr.frequency, hvsr.mean_curve(distribution=distribution), **plot_kwargs)" in s, ""))
    s = src("_plot_nth_std_hvsr_curve")
    out.append(("std curve = hvsr.nth_std_curve(n, distribution)", "ax.plot(hvsr.frequency, hvsr.nth_std_curve(n=n, distribution=distribution), **plot_kwargs)" in s, ""))
    s = src("_plot_peak_mean_hvsr_curve")
    out.append(("mean-curve peak marker = hvsr.mean_curve_peak(distribution)", "ax.plot(*hvsr.mean_curve_peak(distribution=distribution), **plot_kwargs)" in s, ""))
    s = src("_plot_nth_std_frequency_range")
    out.append(("fn band = nth_std_fn_frequency(-n) .. nth_std_fn_frequency(+n)", "f_min = hvsr.nth_std_fn_frequency(n=-n, distribution=distribution)" in s and
                "f_max = hvsr.nth_std_fn_frequency(n=+n, distribution=distribution)" in s and "ax.fill([f_min, f_min, f_max, f_max]" in s, ""))
    fn, _ = loader.find("hvsrpy.postprocessing.plot_single_panel_hvsr_curves")
    calls = {}
    for st in ast.walk(fn):
        if isinstance(st, ast.If) and isinstance(st.test, ast.Name):
            calls[st.test.id] = [re.sub(r"\s", "", ast.unparse(c.value)) for c in st.body if isinstance(c, ast.Expr)]
    want = {
        "plot_valid_curves": ["_plot_individual_hvsr_curves(ax=ax, hvsr=hvsr, valid=True)"],
        "plot_invalid_curves": ["_plot_individual_hvsr_curves(ax=ax, hvsr=hvsr, valid=False)"],
        "plot_mean_curve": ["_plot_mean_hvsr_curve(ax=ax, hvsr=hvsr, distribution=distribution_mc)", "_plot_nth_std_hvsr_curve(ax=ax, hvsr=hvsr, distribution=distribution_mc, n=+1)",
                            "_plot_nth_std_hvsr_curve(ax=ax, hvsr=hvsr, distribution=distribution_mc, n=-1, plot_kwargs=dict(label=None))"],
        "plot_frequency_std": ["_plot_nth_std_frequency_range(ax=ax, hvsr=hvsr, distribution=distribution_fn, n=+1)"],
        "plot_peak_mean_curve": ["_plot_peak_mean_hvsr_curve(ax=ax, hvsr=hvsr, distribution=distribution_mc)"],
        "plot_peak_individual_valid_curves": ["_plot_peak_individual_hvsr_curve(ax=ax, hvsr=hvsr, valid=True)"],
        "plot_peak_individual_invalid_curves": ["_plot_peak_individual_hvsr_curve(ax=ax, hvsr=hvsr, valid=False)"],
    }
    for k, v in want.items():
        out.append((f"single panel: option {k} guards exactly its helper(s) with the right distribution", calls.get(k) == [re.sub(r"\s", "", x) for x in v], str(calls.get(k))[:200]))
    return out


TASKS = [StructTask("read-only-frames", frame_check, note="scalar hints: " + ", ".join(SCALARS)), StructTask("pre-and-post-restores-masks", pre_post, textual=True), StructTask("routing", routing, textual=True)]

META = dict(
    level="other",
    explanation="frame obligations: the 14 plotting / summary functions write nothing reachable from the HVSR object, the recordings or their keyword-argument "
                "dictionaries; DEFAULT_KWARGS entries are copied before the helpers mutate them; no module-level state; plot_pre_and_post_rejection saves "
                "copies of both masks and restores each from its own copy in a finally block; routing: each helper draws the named statistic from the mask "
                "of its own kind and every option guards exactly its helper with distribution_mc / distribution_fn as stated; bounded: the rendered artists "
                "(Agg) and the summary table compared with the object's state, deep snapshots around every public function, the raising configuration",
    trusted_base=["matplotlib / pandas / IPython (external; drawing calls do not modify the arrays handed to them)", "the alias analysis' tables", "the AST pattern matcher"],
    assumptions=["A-MPL", "scalar-hints"],
)
