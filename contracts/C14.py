"""C14 - spatial weights are nearest-sensor area fractions; Monte-Carlo fn uses them (hvsr_spatial.py).

The geometric clauses are statements about planar geometry computed by scipy.spatial.Voronoi and shapely clipping: no contract within
reach of an SMT-backed VC generator decides them (DESIGN 5/C14b); they carry a bounded stand-in against an independent half-plane
clipping of the convex hull.  Lemmas over the statistics spec are proved.
"""
import z3

from pyvc.contract import LemmaTask

w1, w2, c, v1, v2, m = z3.Reals("w1 w2 c v1 v2 m")
pos = [w1 > 0, w2 > 0, c > 0]
TASKS = [
    LemmaTask("weight-scale-invariance[normalised weights]", pos, z3.And((c * w1) / (c * w1 + c * w2) == w1 / (w1 + w2), (c * w2) / (c * w1 + c * w2) == w2 / (w1 + w2)),
              "multiplying all weights by a constant leaves the normalised weights (hence every statistic) unchanged (two sensors; the general case is the same algebra per sensor)"),
    LemmaTask("zero-variance-mean", pos, (w1 / (w1 + w2)) * v1 + (w2 / (w1 + w2)) * v2 == (w1 * v1 + w2 * v2) / (w1 + w2),
              "with zero generator standard deviations every realisation of sensor i equals its mean: the weighted mean is the closed form"),
]
META = dict(
    level="other",
    explanation="lemmas (weight-scale invariance of the normalised weights, zero-variance closed form) proved; bounded: Voronoi weights against nearest-sensor "
                "area fractions of the boundary's convex hull computed by independent Sutherland-Hodgman half-plane clipping (non-negative, sum to one, "
                "indices = sensors strictly inside, invariant under sensor order, translation up to 1e4 x extent and scaling 1e-3..1e3); Monte-Carlo "
                "statistics against the weighted mean / reliability-weighted standard deviation of the realisations in the requested space for the four "
                "generator/spatial combinations, seed reproducibility, closed forms",
    trusted_base=["scipy.spatial.Voronoi, shapely (not axiomatised: geometric half is bounded only)", "numpy random Generator", "the independent clipping oracle"],
    assumptions=["A-RNG", "A-REAL for the lemmas"],
)
