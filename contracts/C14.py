"""C14 - spatial weights are nearest-sensor area fractions; Monte-Carlo fn uses them (hvsr_spatial.py).

The geometric clauses are statements about planar geometry computed by scipy.spatial.Voronoi and shapely clipping: no contract within
reach of an SMT-backed VC generator decides them (DESIGN 5/C14b); they carry a bounded stand-in against an independent half-plane
clipping of the convex hull.  Lemmas over the statistics spec are proved.
"""
import z3

from pyvc.contract import LemmaTask

w1, w2, c, v1, v2, m = z3.Reals("w1 w2 c v1 v2 m")
pos = [w1 > 0, w2 > 0, c > 0]
TASKS = [
    LemmaTask("weight-scale-invariance[normalised weights]", pos, z3.And((c * w1) / (c * w1 + c * w2) == w1 / (w1 + w2), (c * w2) / (c * w1 + c * w2) == w2 / (w1 + w2)),
              "multiplying all weights by a constant leaves the normalised weights (hence every statistic) unchanged (two sensors; the general case is the same algebra per sensor)"),
    LemmaTask("zero-variance-mean", pos, (w1 / (w1 + w2)) * v1 + (w2 / (w1 + w2)) * v2 == (w1 * v1 + w2 * v2) / (w1 + w2),
              "with zero generator standard deviations every realisation of sensor i equals its mean: the weighted mean is the closed form"),
]
# ---------------------------------------------------------------------------------------------------------------------
# _statistics under contract: normalised weights, weighted mean over all realisations, reliability-weighted standard deviation.  The sums over
# one row of realisations are abstracted by name (np.sum over the columns is trusted: A-NP-SUM): ROWSUM(r) = sum_c v[r,c] and
# ROWSS(r, m) = sum_c (v[r,c] - m)^2; the contract is about everything around them.
from pyvc.core import I, R, FuncV, ModV, ARef, Tup, Undecided
from pyvc.contract import Contract, FunctionTask, sym_arr1, sym_arr2
from pyvc import npmodel as npm
from pyvc.npmodel import SQRT

AR = z3.ArraySort(I, R)
K, N = z3.Ints("n_generators n_realizations")
V = z3.Const("values", z3.ArraySort(I, AR))
W = z3.Const("weights", AR)
SUMW = z3.Real("sum_of_weights")
ROWSUM = z3.Function("ROWSUM", I, R)
ROWSS = z3.Function("ROWSS", I, R, R)
M1, NUM, W2 = z3.Function("M1", I, R), z3.Function("NUM", I, R, R), z3.Function("W2", I, R)     # prefix sums over the generators


def NW(r):
    return z3.Select(W, r) / SUMW


_k, _m = z3.Int("k!s"), z3.Real("m!s")
AX_ST = [M1(0) == 0, z3.ForAll([_k], z3.Implies(_k >= 0, M1(_k + 1) == M1(_k) + NW(_k) * ROWSUM(_k)), patterns=[M1(_k + 1)]),
         z3.ForAll([_m], NUM(0, _m) == 0, patterns=[NUM(0, _m)]),
         z3.ForAll([_k, _m], z3.Implies(_k >= 0, NUM(_k + 1, _m) == NUM(_k, _m) + NW(_k) * ROWSS(_k, _m)), patterns=[NUM(_k + 1, _m)]),
         W2(0) == 0, z3.ForAll([_k], z3.Implies(_k >= 0, W2(_k + 1) == W2(_k) + NW(_k) * NW(_k)), patterns=[W2(_k + 1)])]


def _rows_in(t, acc):
    if z3.is_select(t) and t.arg(0).eq(V):
        acc.append(t.arg(1))
        return
    for c_ in t.children():
        _rows_in(c_, acc)
    if z3.is_quantifier(t):
        _rows_in(t.body(), acc)


def _m_sum(ex, st, args, kw, node):
    x = args[0]
    if not isinstance(x, ARef):
        return x                                   # np.sum of a scalar is the scalar
    d = ex.arr(st, x)
    if d.data.eq(W):
        return SUMW
    c0 = z3.Int("c!sum")
    elem = z3.simplify(z3.Select(d.data, c0))       # the summand at column c
    rows = []
    _rows_in(elem, rows)
    for r in rows:
        e = z3.Select(z3.Select(V, r), c0)
        if z3.simplify(elem - e).eq(z3.RealVal(0)):
            return ROWSUM(r)
        m_ = st.env.get("mean")
        if m_ is not None and z3.simplify(elem - (e - m_) * (e - m_)).eq(z3.RealVal(0)):
            return ROWSS(r, m_)
    raise Undecided(f"np.sum of an expression the _statistics abstraction does not name: {elem}")


def _st_inputs(ex, st):
    st.env["values"] = ex.alloc_arr(st, (K, N), V, "real", "param:values", tag="values")
    st.env["weights"] = ex.alloc_arr(st, (K,), W, "real", "param:weights", tag="weights")
    st.env["K"], st.env["N"] = K, N
    return [K >= 1, N >= 1, SUMW != 0]


def _row_born(ex, st, v):
    return ex.alloc_arr(st, (N,), ex.fresh("row", AR), "real", "param:values", tag="row")


STATS = Contract(
    qual="hvsrpy.hvsr_spatial._statistics", params=["values", "weights"], axioms=AX_ST, make_inputs=_st_inputs,
    ghost={"M1": M1, "NUM": NUM, "W2": W2, "sqrt": SQRT},
    requires=["1 - W2(K) / N != 0"],
    ensures=["result[0] == M1(K) / N", "result[1] == sqrt((NUM(K, M1(K) / N) / N) / (1 - W2(K) / N))"],
    loops={0: ["mean == M1(_k0)"], 1: ["numerator == NUM(_k1, mean)", "w2 == W2(_k1)"]}, modifies=[],
    notes="mean = sum_r nw_r ROWSUM(r) / N; stddev = sqrt( (sum_r nw_r ROWSS(r, mean) / N) / (1 - sum_r nw_r^2 / N) ), nw = weights / sum(weights)")
STATS.loop_born = {"row_value": _row_born}
TASKS.append(FunctionTask(STATS, module_env={"np": ModV("np", dict(npm.NP.attrs, sum=FuncV(_m_sum, "np.sum")))},
                          clauses=["weighted mean and reliability-weighted standard deviation over all realisations with normalised weights"]))

# ---------------------------------------------------------------------------------------------------------------------
# montecarlo_fn under contract: one row of draws per generator (rng.normal: opaque, A-RNG), the space conversion for the four generator / spatial
# combinations, _statistics (contract above) on the realisations in the spatial space with the caller's weights, and what is handed back.
from pyvc.core import StrV, NONE, A2 as _A2, lit as _lit, real as _real
from pyvc.contract import sym_obj
from pyvc.npmodel import EXP, LOG

G, NR = z3.Ints("n_generators n_realizations")
MEANS, STDS, GW = z3.Const("generator_means", AR), z3.Const("generator_stddevs", AR), z3.Const("generator_weights", AR)
DRAW = z3.Function("NORMAL_DRAWS", I, R, R, I, AR)          # the array the k-th call rng.normal(mean, stddev, size=n) returns
STAT_MEAN = z3.Function("STAT_MEAN", _A2(R), I, I, AR, R)   # _statistics(values, weights)[0] (contract STATS: M1(K)/N)
STAT_STD = z3.Function("STAT_STD", _A2(R), I, I, AR, R)     # _statistics(values, weights)[1]


def _mc_inputs(dg, ds):
    def mk(ex, st):
        st.env["generator_means"] = ex.alloc_arr(st, (G,), MEANS, "real", "param:generator_means", tag="generator_means")
        st.env["generator_stddevs"] = ex.alloc_arr(st, (G,), STDS, "real", "param:generator_stddevs", tag="generator_stddevs")
        st.env["generator_weights"] = ex.alloc_arr(st, (G,), GW, "real", "param:generator_weights", tag="generator_weights")
        st.env["distribution_generators"], st.env["distribution_spatial"] = StrV(dg), StrV(ds)
        st.env["n_realizations"] = NR
        st.env["rng"] = sym_obj(ex, st, "Generator", {}, owner="param:rng")
        st.env["__rng_calls"] = z3.IntVal(0)          # ghost: number of draws made so far from the generator (its state)
        st.env["G"], st.env["NR"] = G, NR
        return [G >= 1, NR >= 1]
    return mk


def _m_rng_normal(ex, st, args, kw, node):
    k = st.env["__rng_calls"]
    st.env["__rng_calls"] = z3.simplify(k + 1)
    st.writes.append(("param:rng", "Generator state", getattr(node, "lineno", 0)))
    n = _lit(kw["size"])
    return ex.alloc_arr(st, (n,), DRAW(k, _real(args[1]), _real(args[2]), n), "real", "fresh", tag="draws")


def _m_statistics(ex, st, args, kw, node):
    v, w = ex.arr(st, args[0]), ex.arr(st, args[1])
    a = (z3.simplify(v.data), v.shape[0], v.shape[1], w.data)
    spec = ex.k.ghost.get("VALS_SPEC") if ex.k is not None else None
    if spec is not None:
        # A-EXT: _statistics reads rows 0..K-1 and columns 0..N-1 of `values` and nothing else (its contract: row sums over the shape), so two arrays
        # that agree there give the same statistics - instantiated for the array handed over and the one the postcondition names
        r, j = z3.Ints("r!ext j!ext")
        agree = z3.ForAll([r, j], z3.Implies(z3.And(r >= 0, r < v.shape[0], j >= 0, j < v.shape[1]),
                                             z3.Select(z3.Select(a[0], r), j) == z3.simplify(z3.Select(z3.Select(spec, r), j))))
        b = (spec,) + a[1:]
        st.pc.append(z3.Implies(agree, z3.And(STAT_MEAN(*a) == STAT_MEAN(*b), STAT_STD(*a) == STAT_STD(*b))))
    return Tup((STAT_MEAN(*a), STAT_STD(*a)))


def _space(dg, ds):
    """the realisation of generator r, column j, in the spatial space"""
    t = (lambda x: EXP(x)) if (dg, ds) == ("lognormal", "normal") else ((lambda x: LOG(x)) if (dg, ds) == ("normal", "lognormal") else (lambda x: x))
    return t


def _mc_ghost(dg, ds):
    t = _space(dg, ds)
    r_, j_ = z3.Ints("i!m j!m")
    vals = z3.Lambda([r_], z3.Lambda([j_], t(z3.Select(DRAW(r_, z3.Select(MEANS, r_), z3.Select(STDS, r_), NR), j_))))
    a = (z3.simplify(vals), G, NR, GW)
    return {"VALS_SPEC": a[0], "IN_SPACE": lambda r, j: t(z3.Select(DRAW(r, z3.Select(MEANS, r), z3.Select(STDS, r), NR), j)), "exp": EXP,
            "MEAN_S": STAT_MEAN(*a), "STD_S": STAT_STD(*a), "G": G, "NR": NR}


_MC_ENV = {"_statistics": FuncV(_m_statistics, "_statistics"), "default_rng": FuncV(lambda ex, st, a, k, n_: (_ for _ in ()).throw(Undecided("default_rng")), "default_rng")}
_MC_REG = {"Generator.normal": FuncV(_m_rng_normal, "Generator.normal")}
for _dg in ("normal", "lognormal"):
    for _ds in ("normal", "lognormal"):
        _out = (lambda e: f"exp({e})") if _ds == "lognormal" else (lambda e: e)
        _c = Contract(qual="hvsrpy.hvsr_spatial.montecarlo_fn",
                      params=["generator_means", "generator_stddevs", "generator_weights", "distribution_generators", "distribution_spatial", "n_realizations", "rng"],
                      ghost=_mc_ghost(_dg, _ds), make_inputs=_mc_inputs(_dg, _ds), stable_shapes=("realizations",),
                      requires=["len(generator_stddevs) == len(generator_means)"],
                      ensures=[f"result[0] == {_out('MEAN_S')}", "result[1] == STD_S",
                               "result[2].shape[0] == G and result[2].shape[1] == NR",
                               f"forall(r, 0, G, forall(j, 0, NR, result[2][r, j] == {_out('IN_SPACE(r, j)')}))"],
                      loops={0: ["forall(q, 0, _k0, forall(j, 0, NR, realizations[q, j] == " +
                                 "DRAWN(q, j)))", "CALLS() == _k0"]},
                      modifies=["param:rng"],
                      notes="statistics = _statistics of the realisations converted to the spatial space, with the caller's weights; the mean is returned in "
                            "linear space (exp for a lognormal spatial distribution), the standard deviation in the spatial space, the realisations in linear space")
        _c.ghost["DRAWN"] = lambda q, j: z3.Select(DRAW(q, z3.Select(MEANS, q), z3.Select(STDS, q), NR), j)
        _c.ghost["CALLS"] = FuncV(lambda ex, st, a, k, n_: st.env["__rng_calls"], "CALLS")
        _c.ghost_state = ("__rng_calls",)
        TASKS.append(FunctionTask(_c, module_env=_MC_ENV, registry=_MC_REG, label=f"hvsrpy.hvsr_spatial.montecarlo_fn[generators={_dg},spatial={_ds}]",
                                  clauses=["Monte-Carlo statistics are the weighted statistics of the realisations in the requested space"]))
for _dg, _ds in (("gamma", "normal"), ("normal", "gamma")):
    TASKS.append(FunctionTask(Contract(qual="hvsrpy.hvsr_spatial.montecarlo_fn",
                                       params=["generator_means", "generator_stddevs", "generator_weights", "distribution_generators", "distribution_spatial", "n_realizations", "rng"],
                                       make_inputs=_mc_inputs(_dg, _ds), raises={"NotImplementedError": "True"}, ensures=[], modifies=[]),
                              module_env=_MC_ENV, registry=_MC_REG, label=f"hvsrpy.hvsr_spatial.montecarlo_fn[generators={_dg},spatial={_ds}]",
                              clauses=["unrecognised distributions are refused"]))

# ---------------------------------------------------------------------------------------------------------------------
# the bookkeeping around the geometry: _cull_points keeps exactly the sensors the boundary contains, in order, and returns their positions in `coordinates`;
# _voronoi_weights divides the area of every cell by the area of the boundary and hands the indices on.  shapely's Point / contains / Polygon(...).area and the
# tessellation itself are opaque (the geometric half of the property stays bounded): INSIDE(x, y), AREA(cell), TOTAL.
from pyvc.objects import new_symlist, SObj
from pyvc.core import B
NPT = z3.Int("n_sensors")
XY = z3.Const("coordinates", _A2(R))
INSIDE = z3.Function("boundary_contains", R, R, B)
KCP = z3.Function("KCP", I, I)            # number of retained sensors before sensor i
_ri, _qi = z3.Ints("r!kc q!kc")


def _ins(i):
    return INSIDE(z3.Select(z3.Select(XY, i), 0), z3.Select(z3.Select(XY, i), 1))


AX_KCP = [KCP(0) == 0, z3.ForAll([_ri], z3.Implies(_ri >= 0, KCP(_ri + 1) == KCP(_ri) + z3.If(_ins(_ri), 1, 0)), patterns=[KCP(_ri + 1)]),
          z3.ForAll([_ri], z3.Implies(_ri >= 0, z3.And(KCP(_ri) >= 0, KCP(_ri) <= _ri)), patterns=[KCP(_ri)]),
          z3.ForAll([_ri, _qi], z3.Implies(z3.And(0 <= _ri, _ri <= _qi), KCP(_ri) <= KCP(_qi)), patterns=[z3.MultiPattern(KCP(_ri), KCP(_qi))]),
          z3.ForAll([_ri, _qi], z3.Implies(z3.And(0 <= _ri, _ri < _qi, _ins(_ri)), KCP(_ri) < KCP(_qi)), patterns=[z3.MultiPattern(KCP(_ri), KCP(_qi))])]


def _cull_inputs(ex, st):
    st.env["self"] = sym_obj(ex, st, "HvsrSpatial", {"coordinates": ex.alloc_arr(st, (NPT, z3.IntVal(2)), XY, "real", "param:self.coordinates", tag="coordinates")}, owner="param:self")
    st.env["mask"] = sym_obj(ex, st, "Polygon", {}, owner="param:mask")
    st.env["NPT"] = NPT
    return [NPT >= 0]


def _m_np_array_pairs(ex, st, args, kw, node):
    from pyvc.objects import SLRef
    x = args[0]
    if isinstance(x, SLRef) and st.heap[x.sid].cls is None and isinstance(st.heap[x.sid].arr.sort().range(), z3.ArraySortRef):
        d = st.heap[x.sid]
        return ex.alloc_arr(st, (d.length, z3.IntVal(2)), d.arr, "real", "fresh", tag="points")
    return npm.NP.attrs["array"].fn(ex, st, args, kw, node)


_CULL_ENV = {"Point": FuncV(lambda ex, st, a, k, n_: Tup((_real(a[0]), _real(a[1]))), "Point"),
             "np": ModV("np", dict(npm.NP.attrs, array=FuncV(_m_np_array_pairs, "np.array")))}
_CULL_REG = {"Polygon.contains": FuncV(lambda ex, st, a, k, n_: INSIDE(a[1][0], a[1][1]), "contains")}
_INS = "INSIDE(self.coordinates[i, 0], self.coordinates[i, 1])"
CULL = Contract(qual="hvsrpy.hvsr_spatial.HvsrSpatial._cull_points", params=["self", "mask"], ghost={"INSIDE": INSIDE, "KCP": KCP, "NPT": NPT}, axioms=AX_KCP, make_inputs=_cull_inputs,
                sym_lists={"passing_points": "realarr", "passing_indices": "int"},
                ensures=["len(result[1]) == KCP(NPT)", "result[0].shape[0] == KCP(NPT) and result[0].shape[1] == 2",
                         f"forall(i, 0, NPT, implies({_INS}, result[1][KCP(i)] == i and result[0][KCP(i), 0] == self.coordinates[i, 0] and result[0][KCP(i), 1] == self.coordinates[i, 1]))"],
                loops={0: ["len(passing_indices) == KCP(_k0) and len(passing_points) == KCP(_k0)",
                           f"forall(i, 0, _k0, implies({_INS}, passing_indices[KCP(i)] == i and ROW(passing_points, KCP(i), 0) == self.coordinates[i, 0] and "
                           "ROW(passing_points, KCP(i), 1) == self.coordinates[i, 1]))"]},
                modifies=[], notes="the retained sensors are exactly those the boundary contains, in their original order; index k of the result is the position of the k-th retained "
                                   "sensor in `coordinates`")
CULL.ghost["ROW"] = FuncV(lambda ex, st, a, k, n_: z3.Select(z3.Select(st.heap[a[0].sid].arr, _lit(a[1])), _lit(a[2])), "ROW")
TASKS.append(FunctionTask(CULL, module_env=_CULL_ENV, registry=_CULL_REG, clauses=["sensors outside the boundary are dropped; the returned indices identify the retained ones"]))
from pyvc.contract import LemmaTask as _LT
_r14, _q14, _kp14 = z3.Int("r"), z3.Int("q"), z3.Bool("inside_q")
TASKS += [_LT("retained-count-monotone[step]", [_r14 >= 0, _q14 >= _r14, KCP(_r14) <= KCP(_q14), KCP(_q14 + 1) == KCP(_q14) + z3.If(_kp14, 1, 0)], KCP(_r14) <= KCP(_q14 + 1), "A-INDUCTION step"),
          _LT("retained-count-range[step]", [_r14 >= 0, KCP(_r14) >= 0, KCP(_r14) <= _r14, KCP(_r14 + 1) == KCP(_r14) + z3.If(_kp14, 1, 0)], z3.And(KCP(_r14 + 1) >= 0, KCP(_r14 + 1) <= _r14 + 1), "A-INDUCTION step")]

# _voronoi_weights: weight i = area of cell i / area of the boundary; indices handed on
NREG = z3.Int("n_regions")
AREAF = z3.Function("cell_area", I, R)
TOTAL = z3.Real("boundary_area")


def _vw_inputs(ex, st):
    st.env["self"] = sym_obj(ex, st, "HvsrSpatial", {}, owner="param:self")
    st.env["boundary"] = StrV("<boundary>")
    st.env["NREG"] = NREG
    return [NREG >= 0, TOTAL != 0]


def _m_bounded_voronoi(ex, st, args, kw, node):
    from pyvc.core import SeqV
    regions = SeqV(NREG, lambda ex_, st_, i: ModV("region", {"__cell": i, "__getitem__": FuncV(lambda e2, s2, a2, k2, n2: a2[0], "region[...]")}), owner="fresh", name="regions")
    return Tup((regions, StrV("<indices of the retained sensors>")))


def _m_vstack(ex, st, args, kw, node):
    first = args[0][0]
    return ModV("closed", {"__cell": first.attrs["__cell"]})


def _m_polygon(ex, st, args, kw, node):
    return ModV("Polygon", {"area": AREAF(_lit(args[0].attrs["__cell"]))})


class _Region:
    pass


def _region_getitem(ex, st, region, idx):
    return region


_VW_ENV = {"np": ModV("np", dict(npm.NP.attrs, vstack=FuncV(_m_vstack, "np.vstack"))), "Polygon": FuncV(_m_polygon, "Polygon")}
_VW_REG = {"HvsrSpatial._boundary_to_mask": FuncV(lambda ex, st, a, k, n_: ModV("mask", {"area": TOTAL}), "_boundary_to_mask"),
           "HvsrSpatial._bounded_voronoi": FuncV(_m_bounded_voronoi, "_bounded_voronoi")}
VW = Contract(qual="hvsrpy.hvsr_spatial.HvsrSpatial._voronoi_weights", params=["self", "boundary"], ghost={"AREA": AREAF, "TOTAL": TOTAL, "NREG": NREG,
                                                                                                            "is_indices": FuncV(lambda ex, st, a, k, n_: z3.BoolVal(isinstance(a[0], StrV) and a[0].s == "<indices of the retained sensors>"), "is_indices")},
              make_inputs=_vw_inputs, stable_shapes=("areas",),
              ensures=["len(result[0]) == NREG", "forall(i, 0, NREG, result[0][i] == AREA(i) / TOTAL)", "is_indices(result[1])"],
              loops={0: ["forall(i, 0, _k0, areas[i] == AREA(i))"]}, modifies=[],
              notes="weight i = area of the i-th clipped cell / area of the boundary's convex region; the indices of _bounded_voronoi are handed on unchanged")
VW.subscript_model = True
TASKS.append(FunctionTask(VW, module_env=_VW_ENV, registry=_VW_REG, clauses=["weights are cell areas over the boundary area"]))

META = dict(
    level="other",
    explanation="proved: _statistics (normalised weights, weighted mean over all realisations, reliability-weighted standard deviation; row sums named); "
                "lemmas (weight-scale invariance of the normalised weights, zero-variance closed form) proved; bounded: Voronoi weights against nearest-sensor "
                "area fractions of the boundary's convex hull computed by independent Sutherland-Hodgman half-plane clipping (non-negative, sum to one, "
                "indices = sensors strictly inside, invariant under sensor order, translation up to 1e4 x extent and scaling 1e-3..1e3); Monte-Carlo "
                "statistics against the weighted mean / reliability-weighted standard deviation of the realisations in the requested space for the four "
                "generator/spatial combinations, seed reproducibility, closed forms",
    trusted_base=["scipy.spatial.Voronoi, shapely (not axiomatised: geometric half is bounded only)", "numpy random Generator", "the independent clipping oracle"],
    assumptions=["A-RNG", "A-REAL", "A-NP-SUM (np.sum over the columns of one row = the named row sums ROWSUM / ROWSS)", "sum(weights) != 0 and 1 - sum nw^2 / N != 0"],
)

# ---------------------------------------------------------------------------------------------------------------------
# the thin public layer of HvsrSpatial: the constructor (an own copy of an (N, 2) table of at least three sensors), spatial_weights (what _voronoi_weights returns
# for the caller's boundary; any other declustering method refused), bounded_voronoi (the tessellation of the mask made from the caller's boundary) and
# _boundary_to_mask (the convex hull of the boundary's rows, as points, in order).  shapely and the tessellation are opaque.
from pyvc.core import PyRaise as _PyRaise, DictV as _DictV, OpaqueV as _OpaqueV, ORef as _ORef, LRef as _LRef
NB_, DIMC = z3.Int("n_boundary_points"), z3.Int("n_columns")
VWRES = z3.Function("voronoi_weights_result", I, I)         # boundary id -> (weights, indices) pair id
MASKOF = z3.Function("mask_of_boundary", I, I)
TESS = z3.Function("bounded_voronoi_of_mask", I, I)
BND = z3.Int("boundary_id")


def _sp_inputs(method):
    def mk(ex, st):
        st.env["self"] = sym_obj(ex, st, "HvsrSpatial", {}, owner="param:self")
        st.env["boundary"] = BND
        st.env["declustering_method"] = StrV(method)
        return []
    return mk


_SP_REG = {"HvsrSpatial._voronoi_weights": FuncV(lambda ex, st, a, k, n_: Tup((VWRES(_lit(a[1])), VWRES(_lit(a[1])) + 1)), "_voronoi_weights"),     # (weights, indices) as two ids
           "HvsrSpatial._boundary_to_mask": FuncV(lambda ex, st, a, k, n_: MASKOF(_lit([x for x in a if not isinstance(x, _ORef)][0])), "_boundary_to_mask"),
           "HvsrSpatial._bounded_voronoi": FuncV(lambda ex, st, a, k, n_: TESS(_lit(a[1])), "_bounded_voronoi")}
TASKS.append(FunctionTask(Contract(qual="hvsrpy.hvsr_spatial.HvsrSpatial.spatial_weights", params=["self", "boundary", "declustering_method"], ghost={"VW": VWRES, "BND": BND},
                                   make_inputs=_sp_inputs("voronoi"), ensures=["result[0] == VW(BND) and result[1] == VW(BND) + 1"], modifies=[],
                                   notes="(weights, indices) exactly as _voronoi_weights returns them for the caller's boundary, in that order"),
                          registry=_SP_REG, label="hvsrpy.hvsr_spatial.HvsrSpatial.spatial_weights[voronoi]", clauses=["the spatial weights are the Voronoi weights of the caller's boundary"]))
TASKS.append(FunctionTask(Contract(qual="hvsrpy.hvsr_spatial.HvsrSpatial.spatial_weights", params=["self", "boundary", "declustering_method"], make_inputs=_sp_inputs("cell"),
                                   raises={"NotImplementedError": "True"}, ensures=[], modifies=[]),
                          registry=_SP_REG, label="hvsrpy.hvsr_spatial.HvsrSpatial.spatial_weights[another method]", clauses=["another declustering method is refused, not silently replaced"]))
TASKS.append(FunctionTask(Contract(qual="hvsrpy.hvsr_spatial.HvsrSpatial.bounded_voronoi", params=["self", "boundary"], ghost={"TESS": TESS, "MASKOF": MASKOF, "BND": BND},
                                   make_inputs=_sp_inputs("voronoi"), ensures=["result == TESS(MASKOF(BND))"], modifies=[],
                                   notes="the tessellation clipped by the mask made from the caller's boundary"),
                          registry=_SP_REG, label="hvsrpy.hvsr_spatial.HvsrSpatial.bounded_voronoi", clauses=["the cells are clipped by the caller's boundary"]))

# _boundary_to_mask
BXY = z3.Const("boundary_points", _A2(R))


def _btm_inputs(ex, st):
    st.env["boundary"] = ex.alloc_arr(st, (NB_, DIMC), BXY, "real", "param:boundary", tag="boundary")
    st.env["__hull_of"] = NONE
    return [NB_ >= 0, DIMC >= 0]


def _m_point(ex, st, args, kw, node):
    d = ex.arr(st, args[0])
    return ex.alloc_obj(st, "Point", {"x": ex.sel1(d, z3.IntVal(0)), "y": ex.sel1(d, z3.IntVal(1)), "n": d.shape[0]}, "fresh")


def _m_multipoint(ex, st, args, kw, node):
    from pyvc.core import SeqV
    pts = args[0]
    if not isinstance(pts, SeqV):
        raise Undecided("MultiPoint of something other than the comprehension over the boundary rows")
    mp = ex.alloc_obj(st, "MultiPoint", {}, "fresh")
    st.env["__points"] = pts
    return ModV("MultiPoint", {"convex_hull": _OpaqueV("convex hull of the boundary points")})


def _hull_points(ex, st, a, k, n_):
    """point i of the collection handed to shapely has the coordinates of boundary row i"""
    pts = st.env.get("__points")
    if pts is None:
        return z3.BoolVal(False)
    i = _lit(a[0])
    p = pts.getter(ex, st, i)
    o = st.heap[p.oid].fields
    return z3.And(o["x"] == z3.Select(z3.Select(BXY, i), 0), o["y"] == z3.Select(z3.Select(BXY, i), 1))


def _m_np_array_same(ex, st, args, kw, node):
    d = ex.arr(st, args[0])
    return ex.alloc_arr(st, d.shape, d.data, d.elem, "fresh", tag="array")


_BTM_ENV = {"Point": FuncV(_m_point, "Point"), "MultiPoint": FuncV(_m_multipoint, "MultiPoint"), "np": ModV("np", dict(npm.NP.attrs, array=FuncV(_m_np_array_same, "np.array")))}
BTM = Contract(qual="hvsrpy.hvsr_spatial.HvsrSpatial._boundary_to_mask", params=["boundary"], make_inputs=_btm_inputs,
               ghost={"NB": NB_, "DIMC": DIMC, "hull_point": FuncV(_hull_points, "hull_point"),
                      "n_points": FuncV(lambda ex, st, a, k, n_: st.env["__points"].length if st.env.get("__points") is not None else z3.IntVal(-1), "n_points")},
               raises={"ValueError": "DIMC != 2"}, ensures=["n_points() == NB", "forall(i, 0, NB, hull_point(i))"], modifies=[],
               notes="the mask is the convex hull of exactly the boundary's rows taken as points (x = first column, y = second); a table that is not (N, 2) is refused")
BTM.ghost_state = ()
TASKS.append(FunctionTask(BTM, module_env=_BTM_ENV, label="hvsrpy.hvsr_spatial.HvsrSpatial._boundary_to_mask", clauses=["the region is the convex hull of the boundary points given"]))

# HvsrSpatial.__init__
CXY = z3.Const("coordinates_given", _A2(R))
NCP, NCD = z3.Ints("n_coordinates n_coordinate_columns")


def _ctor_inputs(ex, st):
    st.env["self"] = sym_obj(ex, st, "HvsrSpatial", {}, owner="param:self")
    st.env["coordinates"] = ex.alloc_arr(st, (NCP, NCD), CXY, "real", "param:coordinates", tag="coordinates")
    return [NCP >= 0, NCD >= 0]


def _own(ex, st, a, k, n_):
    r = st.heap[st.env["self"].oid].fields.get("coordinates")
    return z3.BoolVal(isinstance(r, ARef) and st.heap[r.sid].owner == "fresh" and st.heap[r.sid].view_of is None)


SPCTOR = Contract(qual="hvsrpy.hvsr_spatial.HvsrSpatial.__init__", params=["self", "coordinates"], make_inputs=_ctor_inputs,
                  ghost={"NCP": NCP, "NCD": NCD, "GIVEN": lambda i, j: z3.Select(z3.Select(CXY, i), j), "own": FuncV(_own, "own")},
                  raises={"ValueError": "NCD != 2 or NCP < 3"},
                  ensures=["self.coordinates.shape[0] == NCP and self.coordinates.shape[1] == 2", "forall(i, 0, NCP, forall(j, 0, 2, self.coordinates[i, j] == GIVEN(i, j)))", "own()"],
                  modifies=["param:self"], notes="the sensors in the order given, in storage of the object's own; fewer than three sensors or a table that is not (N, 2) is refused")
TASKS.append(FunctionTask(SPCTOR, module_env={"np": ModV("np", dict(npm.NP.attrs, array=FuncV(_m_np_array_same, "np.array")))}, label="hvsrpy.hvsr_spatial.HvsrSpatial.__init__",
                          clauses=["the sensors keep the order given (the returned indices refer to it)"]))
