"""C14 - spatial weights are nearest-sensor area fractions; Monte-Carlo fn uses them (hvsr_spatial.py).

The geometric clauses are statements about planar geometry computed by scipy.spatial.Voronoi and shapely clipping: no contract within
reach of an SMT-backed VC generator decides them (DESIGN 5/C14b); they carry a bounded stand-in against an independent half-plane
clipping of the convex hull.  Lemmas over the statistics spec are proved.
"""
import z3

from pyvc.contract import LemmaTask

w1, w2, c, v1, v2, m = z3.Reals("w1 w2 c v1 v2 m")
pos = [w1 > 0, w2 > 0, c > 0]
TASKS = [
    LemmaTask("weight-scale-invariance[normalised weights]", pos, z3.And((c * w1) / (c * w1 + c * w2) == w1 / (w1 + w2), (c * w2) / (c * w1 + c * w2) == w2 / (w1 + w2)),
              "multiplying all weights by a constant leaves the normalised weights (hence every statistic) unchanged (two sensors; the general case is the same algebra per sensor)"),
    LemmaTask("zero-variance-mean", pos, (w1 / (w1 + w2)) * v1 + (w2 / (w1 + w2)) * v2 == (w1 * v1 + w2 * v2) / (w1 + w2),
              "with zero generator standard deviations every realisation of sensor i equals its mean: the weighted mean is the closed form"),
]
# ---------------------------------------------------------------------------------------------------------------------
# _statistics under contract: normalised weights, weighted mean over all realisations, reliability-weighted standard deviation.  The sums over
# one row of realisations are abstracted by name (np.sum over the columns is trusted: A-NP-SUM): ROWSUM(r) = sum_c v[r,c] and
# ROWSS(r, m) = sum_c (v[r,c] - m)^2; the contract is about everything around them.
from pyvc.core import I, R, FuncV, ModV, ARef, Tup, Undecided
from pyvc.contract import Contract, FunctionTask, sym_arr1, sym_arr2
from pyvc import npmodel as npm
from pyvc.npmodel import SQRT

AR = z3.ArraySort(I, R)
K, N = z3.Ints("n_generators n_realizations")
V = z3.Const("values", z3.ArraySort(I, AR))
W = z3.Const("weights", AR)
SUMW = z3.Real("sum_of_weights")
ROWSUM = z3.Function("ROWSUM", I, R)
ROWSS = z3.Function("ROWSS", I, R, R)
M1, NUM, W2 = z3.Function("M1", I, R), z3.Function("NUM", I, R, R), z3.Function("W2", I, R)     # prefix sums over the generators


def NW(r):
    return z3.Select(W, r) / SUMW


_k, _m = z3.Int("k!s"), z3.Real("m!s")
AX_ST = [M1(0) == 0, z3.ForAll([_k], z3.Implies(_k >= 0, M1(_k + 1) == M1(_k) + NW(_k) * ROWSUM(_k)), patterns=[M1(_k + 1)]),
         z3.ForAll([_m], NUM(0, _m) == 0, patterns=[NUM(0, _m)]),
         z3.ForAll([_k, _m], z3.Implies(_k >= 0, NUM(_k + 1, _m) == NUM(_k, _m) + NW(_k) * ROWSS(_k, _m)), patterns=[NUM(_k + 1, _m)]),
         W2(0) == 0, z3.ForAll([_k], z3.Implies(_k >= 0, W2(_k + 1) == W2(_k) + NW(_k) * NW(_k)), patterns=[W2(_k + 1)])]


def _rows_in(t, acc):
    if z3.is_select(t) and t.arg(0).eq(V):
        acc.append(t.arg(1))
        return
    for c_ in t.children():
        _rows_in(c_, acc)
    if z3.is_quantifier(t):
        _rows_in(t.body(), acc)


def _m_sum(ex, st, args, kw, node):
    x = args[0]
    if not isinstance(x, ARef):
        return x                                   # np.sum of a scalar is the scalar
    d = ex.arr(st, x)
    if d.data.eq(W):
        return SUMW
    c0 = z3.Int("c!sum")
    elem = z3.simplify(z3.Select(d.data, c0))       # the summand at column c
    rows = []
    _rows_in(elem, rows)
    for r in rows:
        e = z3.Select(z3.Select(V, r), c0)
        if z3.simplify(elem - e).eq(z3.RealVal(0)):
            return ROWSUM(r)
        m_ = st.env.get("mean")
        if m_ is not None and z3.simplify(elem - (e - m_) * (e - m_)).eq(z3.RealVal(0)):
            return ROWSS(r, m_)
    raise Undecided(f"np.sum of an expression the _statistics abstraction does not name: {elem}")


def _st_inputs(ex, st):
    st.env["values"] = ex.alloc_arr(st, (K, N), V, "real", "param:values", tag="values")
    st.env["weights"] = ex.alloc_arr(st, (K,), W, "real", "param:weights", tag="weights")
    st.env["K"], st.env["N"] = K, N
    return [K >= 1, N >= 1, SUMW != 0]


def _row_born(ex, st, v):
    return ex.alloc_arr(st, (N,), ex.fresh("row", AR), "real", "param:values", tag="row")


STATS = Contract(
    qual="hvsrpy.hvsr_spatial._statistics", params=["values", "weights"], axioms=AX_ST, make_inputs=_st_inputs,
    ghost={"M1": M1, "NUM": NUM, "W2": W2, "sqrt": SQRT},
    requires=["1 - W2(K) / N != 0"],
    ensures=["result[0] == M1(K) / N", "result[1] == sqrt((NUM(K, M1(K) / N) / N) / (1 - W2(K) / N))"],
    loops={0: ["mean == M1(_k0)"], 1: ["numerator == NUM(_k1, mean)", "w2 == W2(_k1)"]}, modifies=[],
    notes="mean = sum_r nw_r ROWSUM(r) / N; stddev = sqrt( (sum_r nw_r ROWSS(r, mean) / N) / (1 - sum_r nw_r^2 / N) ), nw = weights / sum(weights)")
STATS.loop_born = {"row_value": _row_born}
TASKS.append(FunctionTask(STATS, module_env={"np": ModV("np", dict(npm.NP.attrs, sum=FuncV(_m_sum, "np.sum")))},
                          clauses=["weighted mean and reliability-weighted standard deviation over all realisations with normalised weights"]))

META = dict(
    level="other",
    explanation="proved: _statistics (normalised weights, weighted mean over all realisations, reliability-weighted standard deviation; row sums named); "
                "lemmas (weight-scale invariance of the normalised weights, zero-variance closed form) proved; bounded: Voronoi weights against nearest-sensor "
                "area fractions of the boundary's convex hull computed by independent Sutherland-Hodgman half-plane clipping (non-negative, sum to one, "
                "indices = sensors strictly inside, invariant under sensor order, translation up to 1e4 x extent and scaling 1e-3..1e3); Monte-Carlo "
                "statistics against the weighted mean / reliability-weighted standard deviation of the realisations in the requested space for the four "
                "generator/spatial combinations, seed reproducibility, closed forms",
    trusted_base=["scipy.spatial.Voronoi, shapely (not axiomatised: geometric half is bounded only)", "numpy random Generator", "the independent clipping oracle"],
    assumptions=["A-RNG", "A-REAL", "A-NP-SUM (np.sum over the columns of one row = the named row sums ROWSUM / ROWSS)", "sum(weights) != 0 and 1 - sum nw^2 / N != 0"],
)
