"""C01 - HVSR curves equal the defined spectral ratio for every combination method (hvsrpy/processing.py).

Under contract here: the five frequency-domain combination functions, single_azimuth, nextpow2, prepare_fft_settings, the
two registries (structural), and the algebraic consequences listed in the statement (lemmas L1-L3 over the spec
functions).  The three traditional_* drivers are under contract in C03 (row bookkeeping); their numeric pipeline
(taper -> |rfft| -> combine -> smooth -> divide) is cross-checked natively against an independent evaluation
(bounded/C01.py) because the FFT and the taper are external (A-FFT, A-TUKEY).
"""
import ast

import z3

from pyvc.core import I, R, B, SeqV, DictV, NONE, StrV, ORef
from pyvc.contract import Contract, FunctionTask, LemmaTask, StructTask, sym_arr1, sym_obj
from pyvc import npmodel as npm
from pyvc.npmodel import SQRT, SIN, COS, PI

n = z3.Int("n")


def _two_vectors(ex, st):
    st.env["ns"] = sym_arr1(ex, st, "ns", n)
    st.env["ew"] = sym_arr1(ex, st, "ew", n)
    st.env["settings"] = NONE
    st.env["n"] = n
    return [n >= 0]


def _vec_result(ex, st, env):
    return ex.alloc_arr(st, (n,), ex.fresh("combined", z3.ArraySort(I, R)), "real", "fresh", tag="combined")


def combine_contract(name, formula):
    return Contract(
        qual=f"hvsrpy.processing.{name}", params=["ns", "ew", "settings"], defaults={"settings": None},
        requires=[], ensures=["len(result) == n", f"forall(i, 0, n, result[i] == {formula})"],
        make_inputs=_two_vectors, make_result=_vec_result, modifies=[])


COMBINE = {
    "arithmetic_mean": "(ns[i] + ew[i]) / 2",
    "squared_average": "sqrt((ns[i]*ns[i] + ew[i]*ew[i]) / 2)",
    "geometric_mean": "sqrt(ns[i] * ew[i])",
    "total_horizontal_energy": "sqrt(ns[i]*ns[i] + ew[i]*ew[i])",
    "maximum_horizontal_value": "ite(ns[i] >= ew[i], ns[i], ew[i])",
}
CONTRACTS = {k: combine_contract(k, v) for k, v in COMBINE.items()}

deg = z3.Real("degrees_from_north")


def _single_azimuth_inputs(ex, st):
    st.env["ns"] = sym_arr1(ex, st, "ns", n)
    st.env["ew"] = sym_arr1(ex, st, "ew", n)
    st.env["degrees_from_north"] = deg
    st.env["n"] = n
    return [n >= 0]


CONTRACTS["single_azimuth"] = Contract(
    qual="hvsrpy.processing.single_azimuth", params=["ns", "ew", "degrees_from_north"],
    ensures=["len(result) == n",
             "forall(i, 0, n, result[i] == ns[i]*cos(degrees_from_north*pi/180) + ew[i]*sin(degrees_from_north*pi/180))"],
    make_inputs=_single_azimuth_inputs, make_result=_vec_result, modifies=[])

# ---------------------------------------------------------------- nextpow2
P2 = z3.Function("P2", I, I)                 # 2**j (ghost)
j_ = z3.Int("j!p2")
AX_P2 = [P2(0) == 1, z3.ForAll([j_], z3.Implies(j_ >= 0, z3.And(P2(j_ + 1) == 2 * P2(j_), P2(j_) >= 1)), patterns=[P2(j_ + 1)])]
J = z3.Function("J_nextpow2", I, I, I)       # ghost: number of doublings performed for (n, minimum)
nn, mm = z3.Ints("n minimum_power_of_two")


def _np2_inputs(ex, st):
    st.env["n"], st.env["minimum_power_of_two"] = nn, mm
    st.env["jj"] = z3.Int("jj")              # ghost counter threaded through the invariant
    return []


CONTRACTS["nextpow2"] = Contract(
    qual="hvsrpy.processing.nextpow2", params=["n", "minimum_power_of_two"], defaults={"minimum_power_of_two": 2 ** 15},
    requires=["minimum_power_of_two >= 1"],
    ensures=["result > n", "result >= minimum_power_of_two",
             "exists(j, 0, result + 1, result == minimum_power_of_two * P2(j) and (j == 0 or 2 * n >= result))"],
    loops={0: ["power_of_two >= minimum_power_of_two",
               "exists(j, 0, power_of_two + 1, power_of_two == minimum_power_of_two * P2(j) and (j == 0 or 2 * n >= power_of_two))"]},
    measures={0: "ite(n - power_of_two + 1 > 0, n - power_of_two + 1, 0)"},
    ghost={"P2": P2}, axioms=AX_P2, make_inputs=_np2_inputs,
    make_result=lambda ex, st, env: ex.fresh("nextpow2", I), modifies=[],
    notes="smallest minimum*2**j exceeding n: result > n, and either no doubling happened or result/2 <= n")

# ---------------------------------------------------------------- prepare_fft_settings
NS = z3.Function("n_samples_of_record", I, I)
L = z3.Int("n_records")
user_n = z3.Int("user_n")


def _records(ex, st):
    def getter(ex_, st_, i):
        vt = ex_.alloc_obj(st_, "TimeSeries", {"n_samples": NS(i)}, owner="param:records")
        return ex_.alloc_obj(st_, "SeismicRecording3C", {"vt": vt}, owner="param:records")
    return SeqV(L, getter, owner="param:records", name="records")


def _pfs_inputs(kind):
    def mk(ex, st):
        st.env["records"] = _records(ex, st)
        st.env["L"] = L
        if kind == "none":
            fs = NONE
        elif kind == "n_none":
            fs = DictV({"n": NONE}, owner="param:settings.fft_settings")
        elif kind == "n_int":
            fs = DictV({"n": user_n}, owner="param:settings.fft_settings")
        else:
            fs = DictV({}, owner="param:settings.fft_settings")
        st.env["settings"] = sym_obj(ex, st, "Settings", {"fft_settings": fs}, owner="param:settings")
        st.env["user_n"] = user_n
        k = z3.Int("k!ns")
        return [L >= 0, z3.ForAll([k], NS(k) >= 0, patterns=[NS(k)])]
    return mk


_PFS_COMMON = dict(
    qual="hvsrpy.processing.prepare_fft_settings", params=["records", "settings"],
    loops={0: ["max_n_samples >= 0", "forall(j, 0, _k0, NS(j) <= max_n_samples)",
               "max_n_samples == 0 or exists(j, 0, _k0, NS(j) == max_n_samples)"]},
    ghost={"NS": NS, "P2": P2}, axioms=AX_P2, modifies=["param:settings"],
)
_zero_pad = "forall(j, 0, L, settings.fft_settings['n'] >= NS(j))"
_is_max = "(settings.fft_settings['n'] == 0 and L >= 0) or exists(j, 0, L, NS(j) == settings.fft_settings['n'])"
PFS = [
    Contract(**_PFS_COMMON, make_inputs=_pfs_inputs("none"),
             ensures=[_zero_pad, "settings.fft_settings['n'] >= 32768",
                      "exists(j, 0, settings.fft_settings['n'] + 1, settings.fft_settings['n'] == 32768 * P2(j))"]),
    Contract(**_PFS_COMMON, make_inputs=_pfs_inputs("n_none"), ensures=[_zero_pad, _is_max]),
    Contract(**_PFS_COMMON, make_inputs=_pfs_inputs("n_int"),
             ensures=[_zero_pad, "settings.fft_settings['n'] >= user_n",
                      "settings.fft_settings['n'] == user_n or exists(j, 0, settings.fft_settings['n'] + 1, settings.fft_settings['n'] == 32768 * P2(j))"]),
    Contract(**_PFS_COMMON, make_inputs=_pfs_inputs("no_key"), ensures=[_zero_pad]),
]
_PFS_LABELS = ["fft_settings=None", "fft_settings={'n': None}", "fft_settings={'n': int}", "fft_settings={} (no n)"]

# ---------------------------------------------------------------- registries (structural, read from the AST)
EXPECTED_COMBINE = {
    "arithmetic_mean": "arithmetic_mean", "squared_average": "squared_average", "quadratic_mean": "squared_average",
    "root_mean_square": "squared_average", "effective_amplitude_spectrum": "squared_average", "geometric_mean": "geometric_mean",
    "total_horizontal_energy": "total_horizontal_energy", "vector_summation": "total_horizontal_energy",
    "maximum_horizontal_value": "maximum_horizontal_value",
}
EXPECTED_TRADITIONAL = {**{k: "traditional_hvsr_processing" for k in EXPECTED_COMBINE},
                        "single_azimuth": "traditional_single_azimuth_hvsr_processing",
                        "directional_energy": "traditional_single_azimuth_hvsr_processing",
                        "rotdpp": "traditional_rotdpp_hvsr_processing"}
EXPECTED_PROCESSING = {"traditional": "traditional_hvsr_processing_base", "azimuthal": "azimuthal_hvsr_processing",
                       "diffuse_field": "diffuse_field_hvsr_processing", "psd": "rpsd"}


def registry_check(module, name, expected):
    def check(loader):
        node = loader.module_assign(module, name)
        out = []
        if not isinstance(node, ast.Dict):
            return [(f"{name} is a dict literal", False, ast.dump(node)[:80])]
        got = {}
        for k, v in zip(node.keys, node.values):
            if isinstance(k, ast.Constant) and isinstance(v, ast.Name):
                got[k.value] = v.id
            else:
                out.append((f"{name}: entry is not 'literal': name", False, ast.unparse(k) if k else "**"))
        for k, v in expected.items():
            out.append((f"{name}[{k!r}] is {v}", got.get(k) == v, f"found {got.get(k)}"))
        for k in got:
            if k not in expected:
                out.append((f"{name}[{k!r}] is a documented name", False, "undocumented key"))
        return out
    return check


def dispatch_check(loader):
    """process() and traditional_hvsr_processing_base() are pure dispatch through their registries."""
    out = []
    fn, _ = loader.find("hvsrpy.processing.process")
    body = loader.strip_docstring(fn)
    src = ast.unparse(body[0]) if len(body) == 1 else ""
    out.append(("process == PROCESSING_METHODS[settings.processing_method](records, settings)",
                src == "return PROCESSING_METHODS[settings.processing_method](records, settings)", src[:120]))
    fn, _ = loader.find("hvsrpy.processing.traditional_hvsr_processing_base")
    body = loader.strip_docstring(fn)
    src = "; ".join(ast.unparse(b) for b in body)
    want = "method = TRADITIONAL_PROCESSING_REGISTER[settings.method_to_combine_horizontals]; return method(records, settings)"
    out.append(("traditional_hvsr_processing_base dispatches on method_to_combine_horizontals", src == want, src[:160]))
    return out


# ---------------------------------------------------------------- lemmas L1-L3 (pointwise algebra of the combine specs)
a, b, c, k, s_, A, B_, C_ = z3.Reals("a b c k s A B C")
AXS = npm.ax_sqrt()
x1, y1 = z3.Reals("x!l y!l")
# sqrt is multiplicative on non-negative reals (consequence of A-SQRT, proved below as a lemma, then usable)
SQRT_MUL = z3.ForAll([x1, y1], z3.Implies(z3.And(x1 >= 0, y1 >= 0), SQRT(x1 * y1) == SQRT(x1) * SQRT(y1)))


def absr(x):
    return z3.If(x >= 0, x, -x)


def lemma_sqrt_mul():
    x, y = z3.Reals("x y")
    # from s=sqrt(x), t=sqrt(y), u=sqrt(xy): s,t,u >= 0, s^2=x, t^2=y, u^2=xy  ==> u = s t
    sx, sy, sxy = SQRT(x), SQRT(y), SQRT(x * y)
    hyps = [x >= 0, y >= 0, sx >= 0, sx * sx == x, sy >= 0, sy * sy == y, sxy >= 0, sxy * sxy == x * y]
    return LemmaTask("sqrt-multiplicative", hyps, sxy == sx * sy, "A-SQRT instances |- sqrt(xy) = sqrt(x) sqrt(y)")


def sq(x):
    return x * x


def lemmas():
    out = [lemma_sqrt_mul()]
    # amplitude spectra are non-negative: a = |NS|, b = |EW|, c = |V| > 0; factor k > 0 acts as |k| on amplitude spectra
    pos = [a >= 0, b >= 0, c > 0, k > 0]
    sa = lambda x, y: SQRT((sq(x) + sq(y)) / 2)
    th = lambda x, y: SQRT(sq(x) + sq(y))
    gm = lambda x, y: SQRT(x * y)
    am = lambda x, y: (x + y) / 2
    mx = lambda x, y: z3.If(x >= y, x, y)
    for name, f in (("arithmetic_mean", am), ("squared_average", sa), ("geometric_mean", gm), ("total_horizontal_energy", th),
                    ("maximum_horizontal_value", mx)):
        # homogeneity of the combination: combine(k a, k b) = k combine(a, b)   (k > 0)
        hy = list(pos)
        for t in (f(a, b), f(k * a, k * b)):
            for st in _sqrt_terms(t):
                arg = st.arg(0)
                hy += [z3.Implies(arg >= 0, z3.And(st >= 0, st * st == arg))]
        out.append(LemmaTask(f"L2-homogeneous[{name}]", hy, f(k * a, k * b) == k * f(a, b),
                             "horizontals x k scales the combined spectrum by k (k>0); with linear smoothing (C02) the curve scales by k"))
        # closed form for proportional components: ns = A s, ew = B s (amplitude spectra |A| s, |B| s, s >= 0)
        hy2 = [s_ >= 0, A >= 0, B_ >= 0]
        for t in (f(A * s_, B_ * s_), f(A, B_)):
            for st in _sqrt_terms(t):
                arg = st.arg(0)
                hy2 += [z3.Implies(arg >= 0, z3.And(st >= 0, st * st == arg))]
        out.append(LemmaTask(f"L3-closed-form[{name}]", hy2, f(A * s_, B_ * s_) == f(A, B_) * s_,
                             "proportional components: combined spectrum = combine(|A|,|B|) * s, hence a flat curve combine(A,B)/C"))
    # L1: the ratio is unchanged by a common factor; L2 inverse scaling with the vertical
    h, v = z3.Reals("h v")
    out.append(LemmaTask("L1-common-factor", [v > 0, k > 0], (k * h) / (k * v) == h / v, "all three components x k leave the ratio unchanged"))
    out.append(LemmaTask("L2-vertical-inverse", [v > 0, k > 0], h / (k * v) == (h / v) / k, "vertical x k scales the curve by 1/k"))
    # single azimuth: projection is linear in (ns, ew) and the closed form A cos + B sin
    th_ = z3.Real("theta")
    out.append(LemmaTask("L3-closed-form[single_azimuth]", [], (A * s_) * COS(th_) + (B_ * s_) * SIN(th_) == (A * COS(th_) + B_ * SIN(th_)) * s_,
                         "time-domain projection of proportional components"))
    return out


def _sqrt_terms(t):
    out, stack, seen = [], [t], set()
    while stack:
        x = stack.pop()
        if x.get_id() in seen:
            continue
        seen.add(x.get_id())
        if z3.is_app(x):
            if x.decl().name() == SQRT.name():
                out.append(x)
            stack.extend(x.children())
    return out


TASKS = [FunctionTask(c_, clauses=["combine-horizontals formula"]) for c_ in CONTRACTS.values()]
for lbl, c_ in zip(_PFS_LABELS, PFS):
    TASKS.append(FunctionTask(c_, registry={"nextpow2": CONTRACTS["nextpow2"]}, module_env={"nextpow2": CONTRACTS["nextpow2"]},
                              label=f"hvsrpy.processing.prepare_fft_settings[{lbl}]", clauses=["zero padding, never truncation"]))
TASKS += [
    StructTask("COMBINE_HORIZONTAL_REGISTER", registry_check("hvsrpy.processing", "COMBINE_HORIZONTAL_REGISTER", EXPECTED_COMBINE)),
    StructTask("TRADITIONAL_PROCESSING_REGISTER", registry_check("hvsrpy.processing", "TRADITIONAL_PROCESSING_REGISTER", EXPECTED_TRADITIONAL)),
    StructTask("PROCESSING_METHODS", registry_check("hvsrpy.processing", "PROCESSING_METHODS", EXPECTED_PROCESSING)),
    StructTask("dispatch", dispatch_check, textual=True),
]
TASKS += lemmas()

# diffuse_field_hvsr_processing and rpsd: which recordings / components / FFT length / operator arguments / formula give the result
import contracts.drv_psd as _DRVPSD
TASKS += _DRVPSD.TASKS[:1]

# process() and traditional_hvsr_processing_base(): the entry of the settings' key, called once with the caller's two arguments (any body, not a spelling)
import contracts.dispatch as _DISPATCH
TASKS += _DISPATCH.PROCESS_TASKS + _DISPATCH.TRADITIONAL_TASKS

META = dict(
    level="other",
    explanation="proved: combine-horizontals formulas (5 + single azimuth) pointwise for all vectors, nextpow2, prepare_fft_settings (zero "
                "padding: n >= every record length, all four fft_settings shapes), the three registries and the dispatch functions "
                "(structural), homogeneity / closed-form / common-factor lemmas over the spec functions; bounded: the numeric pipeline of "
                "process() (taper -> |rfft| -> combine -> smooth -> divide, percentile for RotDpp, PSD for diffuse field) is evaluated "
                "natively against an independent numpy computation because rfft/tukey/percentile are external",
    trusted_base=["A-REAL", "A-PY", "A-NP-ELEM", "A-SQRT (sqrt total on x>=0, sqrt(x)^2=x)", "A-TRIG uninterpreted cos/sin", "A-FFT/A-TUKEY/A-PCTL (numpy/scipy external)",
                  "PyVC engine + z3/cvc5"],
    assumptions=["A-REAL", "A-PY", "A-NP-ELEM", "A-SQRT", "A-TRIG", "A-FFT", "A-TUKEY", "A-PCTL", "A-DICT"],
)
