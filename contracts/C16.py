"""C16 - SESAME (2004) reliability and clarity verdicts (hvsrpy/sesame.py).

Under contract: peak_index, trim_curve, reliability, clarity.  Oracle: SESAME (2004) D23.12 criteria for a reliable H/V curve and a
clear H/V peak, with sigma_A(f) = exp(std_curve(f)) for the lognormal standard-deviation curve.  reliability/clarity are verified for
the untrimmed call (search range (None, None)) and for the three limited patterns with trim_curve replaced by its contract (modular
step: the arrays used afterwards are exactly trim_curve's outputs), for verbose in {0, 1, 2}.
Edge policy: a peak exactly on a band edge of the threshold table takes the higher band's (stricter) thresholds - the reading
hvsrpy uses; clarity i/ii use the guideline's closed intervals.
"""
import z3

from pyvc.core import I, R, B, NONE, Tup, StrV, FuncV, ModV, ARef
from pyvc.contract import Contract, FunctionTask, LemmaTask, sym_arr1
from pyvc import npmodel as npm
from pyvc.npmodel import EXP, LOG

m = z3.Int("m")


def slm(a, q):
    return f"({a}[{q}] > {a}[{q}-1] and {a}[{q}] > {a}[{q}+1])"


def peak_post(a, p):
    """p is an interior local maximum of `a` that no strict interior local maximum exceeds (C08 semantics)"""
    return (f"1 <= {p} and {p} <= len({a}) - 2 and {a}[{p}] >= {a}[{p}-1] and {a}[{p}] >= {a}[{p}+1] and "
            f"forall(q, 1, len({a}) - 1, implies({slm(a, 'q')}, {a}[q] <= {a}[{p}]))")


# ---------------------------------------------------------------- call-site contract of HvsrCurve._find_peak_unbounded (verified in C08, kwargs=None)
def _fpu_result(ex, st, env):
    d = ex.arr(st, env["frequency"])
    return Tup((ex.fresh("peak_f", I if d.elem == "int" else R), ex.fresh("peak_a", R)))


FPU_PRESENT = Contract(
    qual="hvsrpy.hvsr_curve.HvsrCurve._find_peak_unbounded", params=["frequency", "amplitude", "find_peaks_kwargs"], defaults={"find_peaks_kwargs": None},
    requires=["len(frequency) == len(amplitude)", "exists(i, 1, len(amplitude) - 1, " + slm("amplitude", "i") + ")"],
    ensures=["exists(p, 1, len(amplitude) - 1, result[0] == frequency[p] and result[1] == amplitude[p] and amplitude[p] >= amplitude[p-1] and "
             "amplitude[p] >= amplitude[p+1] and forall(q, 1, len(amplitude) - 1, implies(" + slm("amplitude", "q") + ", amplitude[q] <= amplitude[p])))"],
    make_result=_fpu_result, notes="proved in C08 (PARAM_LEVEL clauses); the 'absent' outcome is excluded by the precondition (a strict local maximum exists)")
HVSRCURVE = ModV("HvsrCurve", {"_find_peak_unbounded": FPU_PRESENT})


def _pi_inputs(ex, st):
    st.env["curve"] = sym_arr1(ex, st, "curve", m)
    st.env["m"] = m
    return [m >= 0]


PEAK_INDEX = Contract(
    qual="hvsrpy.sesame.peak_index", params=["curve"],
    requires=["exists(i, 1, len(curve) - 1, " + slm("curve", "i") + ")"],
    ensures=[peak_post("curve", "result")],
    make_inputs=_pi_inputs, make_result=lambda ex, st, env: ex.fresh("peak_index", I), modifies=[])

# ---------------------------------------------------------------- trim_curve
lo_, hi_ = z3.Reals("limit_a limit_b")


def _trim_inputs(verbose):
    def mk(ex, st):
        st.env["search_range_in_hz"] = Tup((lo_, hi_))
        for nm in ("frequency", "mean_curve", "std_curve"):
            st.env[nm] = sym_arr1(ex, st, nm, m)
        st.env["verbose"] = z3.IntVal(verbose)
        st.env["m"] = m
        return [m >= 1]
    return mk


def nearest(idx, x):
    return (f"0 <= {idx} and {idx} < m and forall(k, 0, m, abs(old(frequency)[{idx}] - {x}) <= abs(old(frequency)[k] - {x})) and "
            f"forall(k, 0, {idx}, abs(old(frequency)[k] - {x}) > abs(old(frequency)[{idx}] - {x}))")


LOW = "ite(search_range_in_hz[0] <= search_range_in_hz[1], search_range_in_hz[0], search_range_in_hz[1])"
UPP = "ite(search_range_in_hz[0] <= search_range_in_hz[1], search_range_in_hz[1], search_range_in_hz[0])"


def trim_contract(verbose):
    return Contract(
        qual="hvsrpy.sesame.trim_curve", params=["search_range_in_hz", "frequency", "mean_curve", "std_curve", "verbose"], defaults={"verbose": 0},
        requires=[],
        ensures=[nearest("lower_index", LOW), nearest("(upper_index - 1)", UPP),
                 "len(result[0]) == ite(upper_index > lower_index, upper_index - lower_index, 0)",
                 "len(result[1]) == len(result[0]) and len(result[2]) == len(result[0])",
                 "forall(t, 0, len(result[0]), result[0][t] == old(frequency)[lower_index + t] and result[1][t] == old(mean_curve)[lower_index + t] "
                 "and result[2][t] == old(std_curve)[lower_index + t])"],
        make_inputs=_trim_inputs(verbose), modifies=[],
        notes="inclusive range [L, U] of the first samples nearest min(range) and max(range); witnesses L, U are the function's own locals")


# ---------------------------------------------------------------- reliability / clarity
wl, fnstd = z3.Reals("windowlength fn_std")
nwin = z3.Int("passing_window_count")
AX_EXP = npm.ax_logexp()
x_, y_ = z3.Reals("x!e y!e")
AX_EXP_ADD = [z3.ForAll([x_, y_], EXP(x_ + y_) == EXP(x_) * EXP(y_), patterns=[EXP(x_ + y_)])]
# sigma_A identity, proved below as a lemma from A-LOGEXP and then used as a rewrite rule by the function proofs:
#   a > 0  ==>  exp(log a + s) / a = exp(s)   and   exp(log a - s) = a / exp(s)
SIGMA_ID = [z3.ForAll([x_, y_], z3.Implies(x_ > 0, z3.And(EXP(LOG(x_) + y_) / x_ == EXP(y_), EXP(LOG(x_) + y_) == x_ * EXP(y_))), patterns=[EXP(LOG(x_) + y_)]),
            z3.ForAll([x_], EXP(x_) > 0, patterns=[EXP(x_)])]
a_, s_ = z3.Reals("a!sig s!sig")
SIGMA_LEMMA = LemmaTask("sigma_A-identity", [a_ > 0, EXP(LOG(a_) + s_) == EXP(LOG(a_)) * EXP(s_), EXP(LOG(a_)) == a_, EXP(s_) > 0],
                        z3.And(EXP(LOG(a_) + s_) / a_ == EXP(s_), EXP(LOG(a_) + s_) == a_ * EXP(s_)),
                        "exp(log a + s)/a = exp(s): the code's upper_curve/mean_curve is the guideline's sigma_A = exp(std) (A-LOGEXP instances)")


def _helpers():
    return {"colored": FuncV(lambda ex, st, a, k, n: StrV("<colored>"), "colored"),
            "pass_fail": FuncV(lambda ex, st, a, k, n: StrV("<pass_fail>"), "pass_fail"),
            "is_isnot": FuncV(lambda ex, st, a, k, n: StrV("<is_isnot>"), "is_isnot")}


def _trim_stub():
    """trim_curve at its call sites: returns the ghost arrays T_* created by make_inputs (its own contract is proved separately)"""
    def result(ex, st, env):
        return Tup((st.env["__T_f"], st.env["__T_mc"], st.env["__T_sc"]))
    return Contract(qual="hvsrpy.sesame.trim_curve", params=["search_range_in_hz", "frequency", "mean_curve", "std_curve", "verbose"], defaults={"verbose": 0},
                    requires=[], ensures=[], make_result=result)


def _sesame_inputs(pattern, verbose, clarity):
    def mk(ex, st):
        for nm in ("frequency", "mean_curve", "std_curve"):
            st.env[nm] = sym_arr1(ex, st, nm, m)
        mt = z3.Int("m_trimmed")
        # ghost: the arrays trim_curve hands back in the limited cases
        T = {}
        for nm, key in (("T_frequency", "__T_f"), ("T_mean_curve", "__T_mc"), ("T_std_curve", "__T_sc")):
            T[key] = sym_arr1(ex, st, nm, mt, owner="fresh")
            st.env[key] = T[key]
        a, b = pattern
        st.env["search_range_in_hz"] = Tup((NONE if a is None else lo_, NONE if b is None else hi_))
        st.env["verbose"] = z3.IntVal(verbose)
        st.env["m"], st.env["mt"] = m, mt
        if clarity:
            st.env["fn_std"] = fnstd
        else:
            st.env["windowlength"], st.env["passing_window_count"] = wl, nwin
        # the curve the criteria are evaluated on: the inputs themselves, or trim_curve's outputs
        eff = ("frequency", "mean_curve", "std_curve") if pattern == (None, None) else ("__T_f", "__T_mc", "__T_sc")
        st.env["F"], st.env["MC"], st.env["SC"] = st.env[eff[0]], st.env[eff[1]], st.env[eff[2]]
        k = z3.Int("k!pos")
        mcd = st.heap[st.env["MC"].sid]
        return [m >= 1, mt >= 0, z3.ForAll([k], z3.Implies(z3.And(k >= 0, k < mcd.shape[0]), z3.Select(mcd.data, k) > 0))]
    return mk


F0 = "F[mc_peak_index]"
A0 = "MC[mc_peak_index]"
SIG = "exp(SC[{k}])"
COMMON_REQ = ["len(F) == len(MC) and len(SC) == len(MC)", "exists(i, 1, len(MC) - 1, " + slm("MC", "i") + ")", "forall(k, 0, len(F), F[k] > 0)"]


def reliability_contract(pattern, verbose):
    ens = [
        "len(result) == 3",
        peak_post("MC", "mc_peak_index"),
        f"result[0] == ite({F0} > 10 / windowlength, 1, 0)",
        f"result[1] == ite(windowlength * passing_window_count * {F0} > 200, 1, 0)",
        f"(result[2] == 1) == forall(k, 0, len(F), implies(F[k] > 0.5 * {F0} and F[k] < 2 * {F0}, {SIG.format(k='k')} < ite({F0} > 0.5, 2, 3)))",
        "result[2] == 0 or result[2] == 1",
    ]
    return Contract(
        qual="hvsrpy.sesame.reliability", params=["windowlength", "passing_window_count", "frequency", "mean_curve", "std_curve", "search_range_in_hz", "verbose"],
        requires=COMMON_REQ + ["windowlength > 0", f"exists(k, 0, len(F), F[k] > 0.5 * F[0] * 0 + 0 and True)"], ensures=ens,
        axioms=SIGMA_ID, make_inputs=_sesame_inputs(pattern, verbose, False), modifies=[],
        notes="criterion iii needs at least one sample strictly between f0/2 and 2 f0 (np.max of an empty selection raises): safety obligation")


TABLE = [(0.2, "0.25", "3"), (0.5, "0.2", "2.5"), (1, "0.15", "2"), (2, "0.1", "1.78")]


def eps_expr():
    return f"ite({F0} < 0.2, 0.25, ite({F0} < 0.5, 0.2, ite({F0} < 1, 0.15, ite({F0} < 2, 0.1, 0.05))))"


def theta_expr():
    return f"ite({F0} < 0.2, 3, ite({F0} < 0.5, 2.5, ite({F0} < 1, 2, ite({F0} < 2, 1.78, 1.58))))"


def clarity_contract(pattern, verbose):
    up = "upper_peak_index"
    lp = "lower_peak_index"
    ens = [
        "len(result) == 6",
        peak_post("MC", "mc_peak_index"),
        f"(result[0] == 1) == exists(k, 0, len(F), F[k] >= {F0} / 4 and F[k] < {F0} and MC[k] < {A0} / 2)",
        f"(result[1] == 1) == exists(k, 0, len(F), F[k] > {F0} and F[k] <= 4 * {F0} and MC[k] < {A0} / 2)",
        f"result[2] == ite({A0} > 2, 1, 0)",
        f"(result[3] == 1) == (F[{up}] > 0.95 * {F0} and F[{up}] < 1.05 * {F0} and F[{lp}] > 0.95 * {F0} and F[{lp}] < 1.05 * {F0})",
        f"result[4] == ite(fn_std < {eps_expr()} * {F0}, 1, 0)",
        f"result[5] == ite({SIG.format(k='mc_peak_index')} < {theta_expr()}, 1, 0)",
        "forall(j, 0, 6, result[j] == 0 or result[j] == 1)",
    ]
    return Contract(
        qual="hvsrpy.sesame.clarity", params=["frequency", "mean_curve", "std_curve", "fn_std", "search_range_in_hz", "verbose"],
        requires=COMMON_REQ + [
            # the curves A*sigma_A and A/sigma_A must have a peak as well (criterion iv)
            "exists(i, 1, len(MC) - 1, exp(log(MC[i]) + SC[i]) > exp(log(MC[i-1]) + SC[i-1]) and exp(log(MC[i]) + SC[i]) > exp(log(MC[i+1]) + SC[i+1]))",
            "exists(i, 1, len(MC) - 1, exp(log(MC[i]) - SC[i]) > exp(log(MC[i-1]) - SC[i-1]) and exp(log(MC[i]) - SC[i]) > exp(log(MC[i+1]) - SC[i+1]))"],
        ensures=ens, axioms=SIGMA_ID, make_inputs=_sesame_inputs(pattern, verbose, True), modifies=[])


PATTERNS = [(None, None), ("a", None), (None, "b"), ("a", "b")]
TASKS = [FunctionTask(PEAK_INDEX, module_env={"HvsrCurve": HVSRCURVE}, clauses=["peak of a curve = index of the highest local maximum"])]
for v in (0, 1, 2):
    TASKS.append(FunctionTask(trim_contract(v), label=f"hvsrpy.sesame.trim_curve[verbose={v}]", clauses=["inclusive nearest-sample trim"]))
for pat in PATTERNS:
    for v in (0, 1, 2):
        env = dict(_helpers())
        env["peak_index"] = PEAK_INDEX
        env["trim_curve"] = _trim_stub()
        lab = f"[range=({'None' if pat[0] is None else 'lo'},{'None' if pat[1] is None else 'hi'}),verbose={v}]"
        TASKS.append(FunctionTask(reliability_contract(pat, v), module_env=env, label="hvsrpy.sesame.reliability" + lab, clauses=["reliability i-iii"]))
        TASKS.append(FunctionTask(clarity_contract(pat, v), module_env=env, label="hvsrpy.sesame.clarity" + lab, clauses=["clarity i-vi incl. threshold table"]))

# monotonicity lemmas of the statement
f0, lw1, lw2 = z3.Reals("f0 lw1 lw2")
n1, n2 = z3.Ints("n1 n2")
s1, s2, eps = z3.Reals("s1 s2 eps")
TASKS += [
    SIGMA_LEMMA,
    LemmaTask("criterion-ii-monotone", [f0 > 0, lw1 > 0, lw2 >= lw1, n1 >= 0, n2 >= n1, lw1 * n1 * f0 > 200], lw2 * n2 * f0 > 200,
              "more or longer windows never fail criterion ii"),
    LemmaTask("criterion-v-antitone", [s2 <= s1, s1 < eps * f0], s2 < eps * f0, "a smaller fn standard deviation never fails criterion v"),
]

META = dict(
    level="other",
    explanation="proved: peak_index, trim_curve (inclusive nearest-sample range), reliability i-iii and clarity i-vi incl. the five-band threshold table "
                "and the closed intervals of clarity i/ii, for every curve with a peak, the untrimmed and the three limited search-range patterns "
                "(trim_curve replaced by its contract) and verbose in {0,1,2}; monotonicity lemmas for ii and v; cross-check (bounded): the same "
                "verdicts against an independent transcription of the guideline incl. exact band edges and the end-to-end trimmed calls",
    trusted_base=["A-REAL", "A-PY", "A-LOGEXP (exp>0, log(exp x)=x, exp(log x)=x for x>0, exp(x+y)=exp(x)exp(y))", "A-FIND-PEAKS via C08", "A-NP-MASK / A-NP-WHERE", "PyVC engine + z3/cvc5"],
    assumptions=["A-REAL", "A-PY", "A-LOGEXP", "A-FIND-PEAKS", "A-NP-MASK", "A-NP-WHERE", "verbose restricted to {0,1,2}"],
)
