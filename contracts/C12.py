"""C12 - HVSR results survive a write/read round trip after any history (object_io.py).

Structural obligations on writer and reader (parameter not rebound, derived columns taken from the object passed in, meta deep-copied,
peak search before mask installation in the reader); the text round trip itself (np.savetxt / np.loadtxt / json, the azimuth header regex)
is external and evaluated natively (bounded/C12.py).
"""
import ast

from pyvc.contract import StructTask


def writer(loader):
    fn, _ = loader.find("hvsrpy.object_io.write_hvsr_object_to_file")
    out = []
    rebinds = []
    for x in ast.walk(fn):
        tg = []
        if isinstance(x, ast.For):
            tg = [x.target]
        elif isinstance(x, ast.Assign):
            tg = x.targets
        elif isinstance(x, (ast.AugAssign, ast.AnnAssign)):
            tg = [x.target]
        for t in tg:
            for y in ast.walk(t):
                if isinstance(y, ast.Name) and y.id == "hvsr" and isinstance(y.ctx, ast.Store):
                    rebinds.append(x.lineno)
    out.append(("writer: the parameter `hvsr` is never rebound (derived columns are those of the object passed in)", not rebinds, f"rebound at lines {rebinds}"))
    stores = {ast.unparse(s.targets[0]): ast.unparse(s.value) for s in ast.walk(fn) if isinstance(s, ast.Assign) and ast.unparse(s.targets[0]) in ("array[:, -2]", "array[:, -1]", "array[:, 0]")}
    calls = [ast.unparse(s.value) for s in ast.walk(fn) if isinstance(s, ast.Assign) and ast.unparse(s.targets[0]) == "array[:, -2]"]
    out.append(("writer: column -2 is hvsr.mean_curve(distribution=distribution_mc) in every branch that stores it",
                bool(calls) and all(c == "hvsr.mean_curve(distribution=distribution_mc)" for c in calls), str(calls)))
    calls = [ast.unparse(s.value) for s in ast.walk(fn) if isinstance(s, ast.Assign) and ast.unparse(s.targets[0]) == "array[:, -1]"]
    out.append(("writer: column -1 is hvsr.std_curve(distribution=distribution_mc)", bool(calls) and all(c == "hvsr.std_curve(distribution=distribution_mc)" for c in calls), str(calls)))
    calls = [ast.unparse(s.value) for s in ast.walk(fn) if isinstance(s, ast.Assign) and ast.unparse(s.targets[0]) == "array[:, 0]"]
    out.append(("writer: column 0 is hvsr.frequency", bool(calls) and all(c == "hvsr.frequency" for c in calls), str(calls)))
    metas = [ast.unparse(s.value) for s in ast.walk(fn) if isinstance(s, ast.Assign) and ast.unparse(s.targets[0]) == "meta"]
    out.append(("writer: works on a deep copy of hvsr.meta (the object is not modified)", metas == ["deepcopy(hvsr.meta)"], str(metas)))
    return out


def reader(loader):
    fn, _ = loader.find("hvsrpy.object_io.read_hvsr_object_from_file")
    out = []
    branches = [b for b in ast.walk(fn) if isinstance(b, ast.If) and "meta['processing_method']" in ast.unparse(b.test)]
    for b in branches:
        which = ast.unparse(b.test).split("==")[-1].strip().strip("'")
        if which not in ("traditional", "azimuthal"):
            continue
        seq = []
        for st in b.body:
            src = ast.unparse(st)
            if "update_peaks_bounded" in src and not isinstance(st, (ast.For, ast.If)):
                seq.append("search")
            if "valid_window_boolean_mask" in src or "valid_peak_boolean_mask" in src:
                seq.append("masks")
                plain = all(isinstance(s, ast.Assign) for s in ast.walk(st) if isinstance(s, (ast.Assign, ast.AugAssign)) and "boolean_mask" in ast.unparse(s.targets[0] if isinstance(s, ast.Assign) else s.target))
                out.append((f"reader[{which}]: the stored masks are installed by plain assignment (the file's state, not a combination with the fresh search)", plain, src[:120]))
        out.append((f"reader[{which}]: the peak search with the stored range runs before the stored masks are installed", "search" in seq and "masks" in seq and seq.index("search") < seq.index("masks"), str(seq)))
    out.append(("reader: traditional and azimuthal branches found", len([1 for o in out if "runs before" in o[0]]) == 2, ""))
    return out


TASKS = [StructTask("writer", writer, textual=True), StructTask("reader", reader, textual=True)]

META = dict(
    level="other",
    explanation="structural obligations: the writer never rebinds its `hvsr` parameter and takes frequency / mean / std columns from it, deep-copies meta; the "
                "reader runs the peak search before installing the stored masks by plain assignment; bounded: real write/read round trips of "
                "traditional (after random histories incl. accepted windows without a peak), azimuthal (1-4 azimuths, unequal counts, non-integer "
                "azimuths, range and mask states) and diffuse-field objects compared bit for bit incl. every statistic, file columns checked",
    trusted_base=["np.savetxt/np.loadtxt '%.18e' round trip, json, the azimuth header regex (all exercised, not proved)", "the AST pattern matcher"],
    assumptions=["A-TEXT-ROUNDTRIP", "A-JSON", "A-RE"],
)
